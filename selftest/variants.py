"""Edit operators for the both-way self-test (see sa/selftest.py).

B = breaking edit: must turn an obligation (of `rule`, when given) VIOLATED.
P = behaviour-preserving edit: every obligation must stay as on the unchanged tree.
Anchors are exact source fragments of the current tree; a vanished anchor makes the variant
stale (reported, not fatal).
"""

BASE = "jaxley/modules/base.py"
SV = "jaxley/solver_voltage.py"
SU = "jaxley/utils/solver_utils.py"
CU = "jaxley/utils/cell_utils.py"
IG = "jaxley/integrate.py"
HH = "jaxley/channels/hh.py"
PO = "jaxley/channels/pospischil.py"
NW = "jaxley/modules/network.py"
CELL = "jaxley/modules/cell.py"
CO = "jaxley/connect.py"
TF = "jaxley/optimize/transforms.py"
SG = "jaxley/solver_gate.py"
JU = "jaxley/utils/jax_utils.py"
ION = "jaxley/synapses/ionotropic.py"
SYU = "jaxley/utils/syn_utils.py"
STIM = "jaxley/stimulus.py"
SWC = "jaxley/io/swc.py"

VARIANTS = {}
_n = {}


def _add(prop, kind, file, old, new, rule=None):
    _n[prop] = _n.get(prop, 0) + 1
    VARIANTS.setdefault(prop, []).append(
        {"id": f"{prop}-{kind[0]}{_n[prop]:02d}", "kind": kind, "file": file, "old": old, "new": new, "rule": rule})


def B(prop, file, old, new, rule=None):
    _add(prop, "break", file, old, new, rule)


def P(prop, file, old, new):
    _add(prop, "preserve", file, old, new)


# ---------------------------------------------------------------------------------------- C01
B("C01", SU, "return self.cumsum_ncomp[branch_inds] + self.ncomp_per_branch[branch_inds] - 1", "return self.cumsum_ncomp[branch_inds + 1] - 1", "R-C01-layout")
B("C01", SU, "        return self.cumsum_ncomp[branch_inds]\n\n    def last", "        return self.cumsum_ncomp[branch_inds] + 1\n\n    def last", "R-C01-layout")
B("C01", SU, "        start_inds = self.first(branch_inds) + 1\n        end_inds = self._end_of_block(branch_inds)", "        start_inds = self.first(branch_inds)\n        end_inds = self._end_of_block(branch_inds)", "R-C01-layout")
B("C01", SU, "    return padded_cumsum_ncomp[branch_inds] + remainders", "    return padded_cumsum_ncomp[branch_inds + 1] - remainders", "R-C01-layout")
B("C01", CELL, "            ncomp_per_branch=self.ncomp_per_branch,\n        )", "        )", "R-C01-layout")
B("C01", SV, "c2c = np.isin(types, [0, 1, 2])", "c2c = np.isin(types, [0, 1])", "R-C01-assembly")
B("C01", SV, "        diags = diags.at[idx.mask(sinks[c2c])].add(delta_t * axial_conductances[c2c])", "        diags = diags.at[idx.mask(sinks[c2c])].add(axial_conductances[c2c])", "R-C01-assembly")
B("C01", SV, "    diags = jnp.ones(total_ncomp)", "    diags = jnp.zeros(total_ncomp)", "R-C01-assembly")
B("C01", SV, "    upper_inds = sources[c2c] > sinks[c2c]\n    sinks_upper", "    upper_inds = sources[c2c] < sinks[c2c]\n    sinks_upper", "R-C01-assembly")
B("C01", SV, "    branchpoint_conds_children = -delta_t * branchpoint_conds_children", "    branchpoint_conds_children = delta_t * branchpoint_conds_children", "R-C01-assembly")
B("C01", SV, "    branchpoint_weights_children = axial_conductances[types == 4]", "    branchpoint_weights_children = axial_conductances[types == 3]", "R-C01-assembly")
B("C01", SV, "        1.0 + delta_t * voltage_terms\n    )", "        delta_t * voltage_terms\n    )", "R-C01-assembly")
B("C01", SV, "    all_values = jnp.concatenate([diagonal_values, -axial_conductances])", "    all_values = jnp.concatenate([diagonal_values, axial_conductances])", "R-C01-assembly")
B("C01", SU, "    off_diagonal_inds = jnp.stack([sources, sinks]).astype(int)", "    off_diagonal_inds = jnp.stack([sinks, sources]).astype(int)", "R-C01-assembly")
B("C01", NW, ", n_nodes=int(self.cumsum_ncomp[-1]) + len(self._par_inds)\n", "\n", "R-C01-assembly")
B("C01", SV, "    multiplying_factor = -branchpoint_weights_children / diags", "    multiplying_factor = branchpoint_weights_children / diags", "R-C01-elim")
B("C01", SV, "    update_diag = -multiplying_factor * branchpoint_weights_parents", "    update_diag = -multiplying_factor * branchpoint_conds_parents", "R-C01-elim")
B("C01", SV, "    diags = diags.at[idx.last(bil)].add(new_diag)", "    diags = diags.at[idx.first(bil)].add(new_diag)", "R-C01-elim")
B("C01", SV, "        -solves[idx.last(bil)] * branchpoint_weights_parents[bil] / diags[idx.last(bil)]", "        -solves[idx.last(bil)] * branchpoint_weights_parents[bil]", "R-C01-elim")
B("C01", SV, "    solves = solves.at[idx.first(bil)].add(\n        -branchpoint_solves[bpil]", "    solves = solves.at[idx.first(bil)].add(\n        branchpoint_solves[bpil]", "R-C01-elim")
B("C01", SV, "        reversed(idx.children_in_level), reversed(idx.parents_in_level)", "        idx.children_in_level, idx.parents_in_level", "R-C01-schedule")
B("C01", SV, "    # At last level, we do not want to eliminate anymore.\n    diags, lowers, solves, uppers = _triang_level(\n        idx.root_inds, lowers, diags, uppers, solves, tridiag_solver, idx\n    )\n", "", "R-C01-schedule")
B("C01", SV, "        triang_fn = thomas_triang_upper", "        triang_fn = stone_triang_upper", "R-C01-schedule")
B("C01", CELL, '"sink": self.cumsum_ncomp[self._par_inds + 1] - 1,', '"sink": self.cumsum_ncomp[self._par_inds],', "R-C01-ends")
B("C01", BASE, "            half_step_delta_t = delta_t / 2", "            half_step_delta_t = delta_t", "R-C01-scheme")
B("C01", BASE, '            u["v"] = 2 * half_step_voltages - voltages', '            u["v"] = 2 * half_step_voltages + voltages', "R-C01-scheme")
B("C01", BASE, '            "constant_terms": (const_terms + i_ext + syn_const_terms) / cm,', '            "constant_terms": (const_terms + syn_const_terms) / cm,', "R-C01-scheme")
B("C01", BASE, '            "voltage_terms": (v_terms + syn_v_terms) / cm,', '            "voltage_terms": (v_terms + syn_v_terms),', "R-C01-scheme")
B("C01", SV, "    new_voltates = voltages + delta_t * update", "    new_voltates = voltages + update", "R-C01-scheme")
B("C01", SV, "    if np.sum(np.isin(types, [1, 2, 3, 4])) > 0:", "    if np.sum(np.isin(types, [3, 4])) > 0:", "R-C01-refuse")
B("C01", CU, "    return rad1 * rad2**2 / (r_a1 * rad2**2 * l1 + r_a2 * rad1**2 * l2) / l1 * 10**7", "    return rad1 * rad2**2 / (r_a1 * rad2**2 * l1 + r_a2 * rad1**2 * l2) / l2 * 10**7", "R-C01-conductances")
B("C01", CU, "        for p in ps:\n            if len(p) > i:\n                current_ps.append(p[i])", "        for p in ps:\n            if len(p) > i + 1:\n                current_ps.append(p[i])", "R-C01-merge")
P("C01", SV, "    update_diag = multiplying_factor * branchpoint_conds_children\n    update_solve = multiplying_factor * solves", "    update_diag = -(branchpoint_conds_children * branchpoint_weights_children) / diags\n    update_solve = solves * multiplying_factor")
P("C01", SV, "        diags = diags.at[idx.mask(sinks[c2c])].add(delta_t * axial_conductances[c2c])", "        scaled = axial_conductances[c2c] * delta_t\n        sink_slots = idx.mask(sinks[c2c])\n        diags = diags.at[sink_slots].add(scaled)")
P("C01", BASE, '            u["v"] = 2 * half_step_voltages - voltages', '            u["v"] = half_step_voltages + half_step_voltages - voltages')
P("C01", SV, "    c2c = types == 0  # c2c = compartment-to-compartment.\n\n    # Build uppers.\n    uppers = jnp.zeros(total_ncomp)", "    c2c = np.isin(types, [0])\n    uppers = jnp.zeros(total_ncomp)")
P("C01", SU, "        return self.cumsum_ncomp[branch_inds] + self.ncomp_per_branch[branch_inds] - 1", "        first_slot = self.cumsum_ncomp[branch_inds]\n        return first_slot + (self.ncomp_per_branch[branch_inds] - 1)")
P("C01", CU, "    return rad1 * rad2**2 / (r_a1 * rad2**2 * l1 + r_a2 * rad1**2 * l2) / l1 * 10**7", "    denom = (r_a1 * l1 * rad2**2 + rad1**2 * r_a2 * l2) * l1\n    return 10_000_000 * rad1 * rad2**2 / denom")

# ---------------------------------------------------------------------------------------- C02
B("C02", CU, "    return rad1 * rad2**2 / (r_a1 * rad2**2 * l1 + r_a2 * rad1**2 * l2) / l1 * 10**7", "    return rad1**2 * rad2 / (r_a1 * rad2**2 * l1 + r_a2 * rad1**2 * l2) / l1 * 10**7", "R-C02-recip")
B("C02", CU, '                params["radius"][source_comp_inds],\n                params["axial_resistivity"][sink_comp_inds],', '                params["radius"][source_comp_inds],\n                params["axial_resistivity"][source_comp_inds],', "R-C02-oracle")
B("C02", CU, "    return rad**2 / r_a / l\n", "    return rad / r_a / l\n", "R-C02-kirchhoff")
B("C02", CU, "    return current * 100_000  # Convert (nA / um^2) to (uA / cm^2)", "    return current * 10_000  # Convert (nA / um^2) to (uA / cm^2)", "R-C02-stim")
B("C02", CU, "    area = 2 * pi * radius * length", "    area = pi * radius * length", "R-C02-stim")
B("C02", BASE, "            i_stim, radius[i_inds], length_single_compartment[i_inds]", "            i_stim, radius, length_single_compartment[i_inds]", "R-C02-stim")
B("C02", CU, "    return rad / r_a / l**2 * 10**7  # Convert (S / cm / um) -> (mS / cm^2)", "    return -rad / r_a / l**2 * 10**7  # Convert (S / cm / um) -> (mS / cm^2)", "R-C02-sign")
B("C02", CU, '            / params["capacitance"][sink_comp_inds]\n        )\n    else:\n        conds_c2c', '            / params["capacitance"][source_comp_inds]\n        )\n    else:\n        conds_c2c', "R-C02-call-roles")
P("C02", CU, "    area = 2 * pi * radius * length", "    area = length * radius * pi * 2")
P("C02", CU, "    return rad / r_a / l**2 * 10**7  # Convert (S / cm / um) -> (mS / cm^2)", "    return 1e7 * rad / (r_a * l * l)")
P("C02", CU, "    return rad**2 / r_a / l\n", "    cross = rad * rad\n    return cross / (l * r_a)\n")

# ---------------------------------------------------------------------------------------- C03
B("C03", SG, "    x = jnp.clip(x, max=max_value)", "    x = jnp.clip(x, a_max=max_value)", "R-C03-api")
B("C03", SG, "    return x * exp_term + x_inf * (1.0 - exp_term)\n\n\ndef solve_inf", "    return x * exp_term + x_inf * (1.0 + exp_term)\n\n\ndef solve_inf", "R-C03-convex")
B("C03", SG, "    exp_term = save_exp(-dt / x_tau)", "    exp_term = save_exp(dt / x_tau)", "R-C03-sign")
B("C03", SG, "    slope = -1.0 / tau_s", "    slope = 1.0 / tau_s", "R-C03-sign")
B("C03", PO, "    return jnp.where(is_small, 1.0 - x / 2.0, x_safe / (save_exp(x_safe) - 1.0))", "    return x / (save_exp(x) - 1.0)", "R-C03-singular")
B("C03", PO, "    return jnp.where(is_small, 1.0 - x / 2.0, x_safe / (save_exp(x_safe) - 1.0))", "    return jnp.where(is_small, 2.0 - x / 2.0, x_safe / (save_exp(x_safe) - 1.0))", "R-C03-singular")
B("C03", HH, "        is_small, y * (1.0 - x / y / 2.0), x_safe / (save_exp(x_safe / y) - 1.0)", "        is_small, (1.0 - x / y / 2.0), x_safe / (save_exp(x_safe / y) - 1.0)", "R-C03-singular")
B("C03", ION, "        new_s = states[f\"{prefix}_s\"] * exp_term + s_inf * (1.0 - exp_term)", "        new_s = states[f\"{prefix}_s\"] + s_inf * (1.0 - exp_term)", "R-C03-convex")
P("C03", SG, "    tau = 1 / (alpha + beta)\n    xinf = alpha * tau\n    return exponential_euler(x, dt, xinf, tau)", "    total = alpha + beta\n    decay = save_exp(-dt * total)\n    return x * decay + (alpha / total) * (1.0 - decay)")
P("C03", SG, "    x = jnp.clip(x, max=max_value)", "    x = jnp.minimum(x, max_value)")
P("C03", PO, "    is_small = jnp.abs(x) < 1e-6", "    is_small = jnp.abs(x) < 1e-7")

# ---------------------------------------------------------------------------------------- C04
for old, new in (("0.1 * _vtrap(-(v + 40), 10)", "0.1 * _vtrap(-(v + 41), 10)"), ("4.0 * save_exp(-(v + 65) / 18)", "4.0 * save_exp(-(v + 65) / 20)"),
                 ("0.07 * save_exp(-(v + 65) / 20)", "0.7 * save_exp(-(v + 65) / 20)"), ("0.125 * save_exp(-(v + 65) / 80)", "0.125 * save_exp((v + 65) / 80)"),
                 ('gNa = params[f"{prefix}_gNa"] * (m**3) * h  # S/cm^2\n        gK = params[f"{prefix}_gK"] * n**4', 'gNa = params[f"{prefix}_gNa"] * (m**2) * h  # S/cm^2\n        gK = params[f"{prefix}_gK"] * n**4'),
                 ('+ gK * (v - params[f"{prefix}_eK"])', '+ gK * (v + params[f"{prefix}_eK"])'), ('f"{prefix}_eK": -77.0,', 'f"{prefix}_eK": -70.0,')):
    B("C04", HH, old, new, "R-C04-eq" if "eK\": -7" not in old else "R-C04-defaults")
for old, new in (("alpha = 0.32 * efun(-0.25 * v_alpha) / 0.25", "alpha = 0.32 * efun(-0.25 * v_alpha) / 0.2"), ("v_beta = v - vt - 40.0\n        beta = 0.28", "v_beta = v - vt - 45.0\n        beta = 0.28"),
                 ("alpha = 0.128 * save_exp(-v_alpha / 18.0)", "alpha = 0.128 * save_exp(-v_alpha / 8.0)"), ("beta = 0.5 * save_exp(-v_beta / 40.0)", "beta = 0.5 * save_exp(-v_beta / 4.0)"),
                 ("tau_p = taumax / (3.3 * save_exp(0.05 * v_p) + save_exp(-0.05 * v_p))", "tau_p = taumax / (3.3 * save_exp(0.05 * v_p) + save_exp(0.05 * v_p))"),
                 ("alpha = 0.055 * efun(v_alpha / 3.8) * 3.8", "alpha = 0.055 * efun(v_alpha / 3.8)"), ("beta = 0.0065 / (save_exp(v_beta / 28.0) + 1)", "beta = 0.0065 / (save_exp(v_beta / 28.0) - 1)"),
                 ("tau_u = 30.8 + (211.4 + save_exp((v + vx + 113.2) / 5.0)) / (", "tau_u = (30.8 + (211.4 + save_exp((v + vx + 113.2) / 5.0))) / ("),
                 ("s_inf = 1.0 / (1.0 + save_exp(-(v + params[f\"{prefix}_vx\"] + 57.0) / 6.2))", "s_inf = 1.0 / (1.0 + save_exp(-(v + params[f\"{prefix}_vx\"] + 57.0) / 6.0))"),
                 ('gCaL = params[f"{prefix}_gCaL"] * (q**2) * r', 'gCaL = params[f"{prefix}_gCaL"] * (q**2)')):
    B("C04", PO, old, new, "R-C04-eq")
B("C04", PO, '            f"{prefix}_gK": 5e-3,\n            "eK": -90.0,', '            f"{prefix}_gK": 5e-3,\n            "eK": -80.0,', "R-C04-defaults")
B("C04", PO, '        n = states[f"{prefix}_n"]\n\n        gK = params[f"{prefix}_gK"] * (n**4)', '        n = states[f"K_n"]\n\n        gK = params[f"{prefix}_gK"] * (n**4)', "R-C04-keys")
B("C04", ION, "        tau_s = (1.0 - s_inf) / params[f\"{prefix}_k_minus\"]", "        tau_s = (1.0 + s_inf) / params[f\"{prefix}_k_minus\"]", "R-C04-eq")
B("C04", ION, "        return g_syn * (post_voltage - params[f\"{prefix}_e_syn\"])", "        return g_syn * (pre_voltage - params[f\"{prefix}_e_syn\"])", "R-C04-eq")
B("C04", "jaxley/channels/channel.py", "        self._name = new_name\n        self.channel_params", "        self.channel_params", "R-C04-rename")
P("C04", HH, "0.1 * _vtrap(-(v + 40), 10)", "_vtrap(-(v + 40), 10) / 10")
P("C04", PO, "alpha = 0.32 * efun(-0.25 * v_alpha) / 0.25", "alpha = 1.28 * efun(-v_alpha / 4)")
P("C04", PO, "beta = 0.0065 / (save_exp(v_beta / 28.0) + 1)", "denom = 1 + save_exp(v_beta / 28.0)\n        beta = 0.0065 / denom")
P("C04", ION, "        return g_syn * (post_voltage - params[f\"{prefix}_e_syn\"])", "        drive = post_voltage - params[f\"{prefix}_e_syn\"]\n        return drive * g_syn")

# ---------------------------------------------------------------------------------------- C05
B("C05", HH, "        is_small, y * (1.0 - x / y / 2.0), x_safe / (save_exp(x_safe / y) - 1.0)", "        is_small, y * (1.0 - x / y / 2.0), x / (save_exp(x / y) - 1.0)", "R-C05-where")
B("C05", BASE, "            voltage_term = (membrane_currents[1] - membrane_currents[0]) / diff", "            voltage_term = jnp.round((membrane_currents[1] - membrane_currents[0]) / diff, 6)", "R-C05-block")
B("C05", BASE, '        voltages = u["v"]\n\n        # Extract the external inputs', '        voltages = u["v"]\n        if voltages[0] > 100.0:\n            raise ValueError\n        # Extract the external inputs', "R-C05-taint")
B("C05", BASE, '                params[key] = params[key].at[inds].set(set_param[:, None], mode="drop")', '                params[key] = params[key].at[inds].set(set_param[:, None])', "R-C05-pad")
B("C05", SV, "    new_voltates = voltages + delta_t * update", "    new_voltates = voltages + delta_t * np.asarray(update)", "R-C05-taint")
P("C05", HH, "    is_small = jnp.abs(x / y) < 1e-6", "    ratio = x / y\n    is_small = jnp.abs(ratio) < 1e-6")

# ---------------------------------------------------------------------------------------- C06
B("C06", IG, "    externals = module.externals.copy()\n    external_inds = module.external_inds.copy()\n\n    # If stimulus", "    externals = module.externals\n    external_inds = module.external_inds.copy()\n\n    # If stimulus", "R-C06-pure")
B("C06", IG, "    rec_inds = module.recordings.rec_index.to_numpy()", "    module.recordings = module.recordings.reset_index(drop=True)\n    rec_inds = module.recordings.rec_index.to_numpy()", "R-C06-pure")
B("C06", JU, "    carry, out = scan_fn(sub_scans, init, xs, lengths[0])\n    stacked_out = jax.tree_util.tree_map(jnp.concatenate, out)\n    return carry, stacked_out", "    carry, out = scan_fn(sub_scans, init, xs, lengths[0])\n    stacked_out = jax.tree_util.tree_map(jnp.concatenate, out)\n    return init, stacked_out", "R-C06-scan")
B("C06", JU, "        return _inner_nested_scan(f, carry, xs, lengths[1:], scan_fn, checkpoint_fn)", "        return _inner_nested_scan(f, carry, xs, lengths, scan_fn, checkpoint_fn)", "R-C06-scan")
B("C06", IG, "            externals[key] = jnp.concatenate([externals[key], dummy_external])", "            externals[key] = jnp.concatenate([dummy_external, externals[key]])", "R-C06-scan")
B("C06", BASE, '        voltages = u["v"]\n\n        # Extract the external inputs', '        voltages = u["v"]\n        if float(voltages[0]) > 100.0:\n            raise ValueError\n        # Extract the external inputs', "R-C06-taint")
B("C06", SV, "    new_voltates = voltages + delta_t * update", "    new_voltates = voltages + delta_t * update * np.random.uniform()", "R-C06-rng")
P("C06", IG, "    externals = module.externals.copy()", "    externals = dict(module.externals)")
P("C06", IG, "        pstate = params_to_pstate(params, module.indices_set_by_trainables)\n        if param_state is not None:\n            pstate += param_state", "        pstate = params_to_pstate(params, module.indices_set_by_trainables)\n        if param_state is not None:\n            pstate = pstate + param_state")

# ---------------------------------------------------------------------------------------- C07
B("C07", IG, "        all_states = (\n            module.get_all_states(pstate, all_params, delta_t)\n            if all_states is None\n            else all_states\n        )", "        all_states = module.get_all_states(pstate, all_params, delta_t)", "R-C07-single-step")
B("C07", IG, "            solver=solver,\n            voltage_solver=voltage_solver,\n        )\n        return state", "            solver=\"bwd_euler\",\n            voltage_solver=voltage_solver,\n        )\n        return state", "R-C07-single-step")
B("C07", IG, "    all_states, all_params = init_fn(params, all_states, param_state, delta_t)", "    all_states, all_params = init_fn(params, None, param_state, delta_t)", "R-C07-single-step")
B("C07", IG, "    recs = jnp.concatenate([init_recording, recordings[:nsteps_to_return]], axis=0).T", "    recs = jnp.concatenate([recordings[:nsteps_to_return], init_recording], axis=0).T", "R-C08-recs")
B("C07", IG, "            externals[key] = jnp.concatenate([externals[key], dummy_external])", "            externals[key] = jnp.concatenate([dummy_external, externals[key]])", "R-C07-padding")
P("C07", IG, "        state = all_states\n        state = module.step(\n            state,", "        state = module.step(\n            all_states,")

# ---------------------------------------------------------------------------------------- C08
B("C08", BASE, "            inds = self._nodes_in_view if key in comp_states else self._edges_in_view\n            self.base.external_inds[key] = jnp.concatenate(\n                [self.base.external_inds[key], inds]", "            self.base.external_inds[key] = jnp.concatenate(\n                [self.base.external_inds[key], self._nodes_in_view]", "R-C08-space")
B("C08", BASE, "        in_view = self._nodes_in_view if state in comp_states else self._edges_in_view\n\n        new_recs", "        in_view = self._nodes_in_view\n\n        new_recs", "R-C08-space")
B("C08", BASE, '        # Clamp for channels and synapses.\n        for key in externals.keys():\n            if key not in ["i", "v"]:\n                inds = external_inds[key]\n                if key in self._edge_state_names():\n                    # Clamps of synaptic states are indexed by the global edge index.\n                    inds = jnp.asarray(self._edge_inds_within_type())[inds]\n                u[key] = u[key].at[inds].set(externals[key])\n', "", "R-C08-order")
B("C08", IG, "                    pad = jnp.zeros(", "                    pad = jnp.ones(", "R-C08-time")
B("C08", IG, "                externals[key] = externals[key][:t_max_steps, :]", "                externals[key] = externals[key][: t_max_steps - 1, :]", "R-C08-time")
B("C08", IG, "        externals[key] = externals[key].T  # Shape `(time, num_stimuli)`.", "        externals[key] = externals[key]  # Shape `(time, num_stimuli)`.", "R-C08-time")
B("C08", STIM, "    window_end = int((i_delay + i_dur) / dt)\n    time_steps = int(t_max // dt) + 2\n    current = jnp.zeros((time_steps, dim)) + i_offset", "    window_end = int((i_delay + i_dur) / dt) + 1\n    time_steps = int(t_max // dt) + 2\n    current = jnp.zeros((time_steps, dim)) + i_offset", "R-C08-time")
B("C08", IG, "                    [external_inds[\"i\"], data_stimuli[2].index.to_numpy()]", "                    [data_stimuli[2].index.to_numpy(), external_inds[\"i\"]]", "R-C08-pairing")
B("C08", BASE, '            "i", current, data_stimuli, self.nodes, verbose=verbose', '            "v", current, data_stimuli, self.nodes, verbose=verbose', "R-C08-sibling")
P("C08", BASE, "        in_view = self._nodes_in_view if state in comp_states else self._edges_in_view\n\n        new_recs", "        if state in comp_states:\n            in_view = self._nodes_in_view\n        else:\n            in_view = self._edges_in_view\n\n        new_recs")
P("C08", IG, "        t_max_steps = int(t_max // delta_t + 1)", "        t_max_steps = int(t_max // delta_t) + 1")

# ---------------------------------------------------------------------------------------- C09
B("C09", NW, '                params["length"][post_inds],\n            )', '                params["length"][pre_inds],\n            )', "R-C09-roles")
B("C09", NW, "                voltages[pre_inds],\n                voltages[post_inds],\n                synapse_params,", "                voltages[post_inds],\n                voltages[pre_inds],\n                synapse_params,", "R-C09-roles")
B("C09", NW, "                post_inds,\n                voltage_term,\n                constant_term,", "                pre_inds,\n                voltage_term,\n                constant_term,", "R-C09-roles")
B("C09", NW, "                synapse_currents_dist[0] - voltage_term * voltages[post_inds]", "                synapse_currents_dist[0] - voltage_term * voltages[pre_inds]", "R-C09-linear")
B("C09", NW, "            syn_constant_terms -= gathered_syn_currents[1]", "            syn_constant_terms += gathered_syn_currents[1]", "R-C09-linear")
B("C09", SYU, "    incoming_currents_contant = scatter_add(\n        incoming_currents_contant,", "    incoming_currents_contant = jax.lax.scatter(\n        incoming_currents_contant,", "R-C09-additive")
B("C09", BASE, "            if key in self.base.synapse_param_names:\n                inds = synapse_inds[inds]\n", "", "R-C09-space")
B("C09", BASE, "            voltage_terms = voltage_terms.at[indices].add(voltage_term * 1000.0)", "            voltage_terms = voltage_terms.at[indices].add(voltage_term)", "R-C09-linear")
B("C09", NW, '        grouped_syns = edges.groupby("type", sort=False, group_keys=False)\n        pre_syn_inds = grouped_syns["pre_global_comp_index"].apply(list)\n        post_syn_inds = grouped_syns["post_global_comp_index"].apply(list)\n        synapse_names = list(grouped_syns.indices.keys())\n\n        syn_voltage_terms', '        grouped_syns = edges.groupby("type", group_keys=False)\n        pre_syn_inds = grouped_syns["pre_global_comp_index"].apply(list)\n        post_syn_inds = grouped_syns["post_global_comp_index"].apply(list)\n        synapse_names = list(grouped_syns.indices.keys())\n\n        syn_voltage_terms', "R-C09-space")
P("C09", NW, "            voltage_term = (synapse_currents_dist[1] - synapse_currents_dist[0]) / diff", "            delta_i = synapse_currents_dist[1] - synapse_currents_dist[0]\n            voltage_term = delta_i / diff")

# ---------------------------------------------------------------------------------------- C10
B("C10", BASE, "            self.base.nodes.loc[self._nodes_in_view[not_nan], key] = val", "            self.base.nodes.loc[self._nodes_in_view, key] = val", "R-C10-rows")
B("C10", BASE, '                    "indices": np.atleast_2d(viewed_inds[not_nan]),', '                    "indices": np.atleast_2d(viewed_inds),', "R-C10-rows")
B("C10", BASE, '                params[key] = params[key].at[inds].set(set_param[:, None], mode="drop")', '                params[key] = params[key].at[inds].set(set_param[:, None])', "R-C10-sentinel")
B("C10", BASE, "                inds = jnp.where(is_padding, len(params[key]), inds)", "                inds = jnp.where(is_padding, len(params), inds)", "R-C10-sentinel")
B("C10", BASE, "            if key in self.base.synapse_state_names:\n                synapse_inds = self.base.edges.groupby(\"type\").rank()[\"global_edge_index\"]\n                synapse_inds = (synapse_inds.astype(int) - 1).to_numpy()\n                inds = synapse_inds[inds]\n", "", "R-C10-scatter")
B("C10", BASE, "        self.base.trainable_params.append({key: new_params})\n        self.base.indices_set_by_trainables.append(indices_per_param)", "        self.base.trainable_params.append({key: new_params})", "R-C10-pair")
B("C10", BASE, "                self.base.edges.loc[condition, key] = all_params[key]", "                self.base.edges.loc[:, key] = all_params[key]", "R-C10-write-back")
P("C10", BASE, "            not_nan = ~self.nodes[key].isna().to_numpy()\n            self.base.nodes.loc[self._nodes_in_view[not_nan], key] = val", "            has_key = ~self.nodes[key].isna().to_numpy()\n            rows = self._nodes_in_view[has_key]\n            self.base.nodes.loc[rows, key] = val")

# ---------------------------------------------------------------------------------------- C11
B("C11", BASE, "        idx = np.arange(len(self.base.nodes))[idx] if isinstance(idx, slice) else idx", "        idx = np.arange(len(self.nodes))[idx] if isinstance(idx, slice) else idx", "R-C11-index")
B("C11", BASE, "        if name not in [c._name for c in self.base.channels]:\n            self.base.channels.append(channel)", "        if name not in [c._name for c in self.channels]:\n            self.base.channels.append(channel)", "R-C11-confine")
B("C11", BASE, "        self.base.nodes.loc[self._nodes_in_view, name] = True", "        self.base.nodes.loc[:, name] = True", "R-C11-confine")
B("C11", BASE, '        return self._at_nodes("branch", idx)', '        return self._at_nodes("cell", idx)', "R-C11-filter")
B("C11", BASE, "            possible_edges_in_view = base_edges.index.to_numpy()[(pre & post).flatten()]", "            possible_edges_in_view = base_edges.index.to_numpy()[(pre | post).flatten()]", "R-C11-edges")
B("C11", BASE, "        idcs = reindex_a_by_b(idcs, global_idx_cols[2], global_idx_cols[:2])", "        idcs = reindex_a_by_b(idcs, global_idx_cols[2], global_idx_cols[0])", "R-C11-rerank")
B("C11", BASE, '        view = self.scope("global").comp(global_comp_idxs).scope(orig_scope)\n        view._current_view = "loc"', '        view = self.scope("global").comp(global_comp_idxs)\n        view._current_view = "loc"', "R-C11-loc")
B("C11", BASE, "            self.base.groups[group_name] = self._nodes_in_view\n", "            self.base.groups[group_name] = self.base.nodes.index.to_numpy()\n", "R-C11-confine")
B("C11", BASE, '        where = self.nodes[self._scope + f"_{key}_index"].isin(idx)\n        inds = self.nodes.index[where].to_numpy()\n\n        view = View(self, nodes=inds)', '        where = self.nodes[f"global_{key}_index"].isin(idx)\n        inds = self.nodes.index[where].to_numpy()\n\n        view = View(self, nodes=inds)', "R-C11-filter")
P("C11", BASE, "        self.base.nodes.loc[self._nodes_in_view, name] = True", "        rows_in_view = self._nodes_in_view\n        self.base.nodes.loc[rows_in_view, name] = True")

# ---------------------------------------------------------------------------------------- C12
B("C12", NW, "        self.nodes = pd.concat([c.nodes for c in cells], ignore_index=True)", "        self.nodes = pd.concat([c.nodes for c in cells])", "R-C12-concat")
B("C12", NW, "                        start_branchpoints - offset_within_cell + offset_branchpoints,\n                        offset,\n                        0,", "                        start_branchpoints + offset_branchpoints,\n                        offset,\n                        0,", "R-C12-offsets")
B("C12", NW, "                [self._comp_edges, [offset, offset, 0] + rows], ignore_index=True", "                [self._comp_edges, [offset, 0, 0] + rows], ignore_index=True", "R-C12-offsets")
B("C12", CU, "                + np.asarray([cumsum_num_branches[i], cumsum_num_branchpoints[i]])", "                + np.asarray([cumsum_num_branchpoints[i], cumsum_num_branches[i]])", "R-C12-offsets")
B("C12", BASE, "            self.base.nodes.loc[self.nodes[name].isna(), name] = False", "            self.base.nodes.loc[self.nodes[name].isna(), :] = False", "R-C12-channels")
B("C12", CELL, "            np.arange(self.total_nbranches), self.ncomp_per_branch\n        ).tolist()", "            np.arange(self.total_nbranches), self.ncomp\n        ).tolist()", "R-C12-concat")

# ---------------------------------------------------------------------------------------- C13
B("C13", BASE, "        comp_lengths = np.sum(compartment_lengths) / ncomp", "        comp_lengths = np.sum(compartment_lengths) / num_previous_ncomp", "R-C13-length")
B("C13", BASE, '        assert len(self.base.recordings) == 0, "No recordings allowed!"\n', "", "R-C13-relabel")
B("C13", BASE, "            self.base.groups[group_name] = np.sort(new_group_inds).astype(int)\n", "", "R-C13-relabel")
B("C13", BASE, "        # Update the morphology indexing (e.g., `.comp_edges`).\n        self.base._initialize()\n        self.base._init_view()", "        # Update the morphology indexing (e.g., `.comp_edges`).\n        self.base._init_view()\n        self.base._initialize()", "R-C13-reinit")
B("C13", BASE, "        self.base.cumsum_ncomp = cumsum_ncomp\n", "", "R-C13-reinit")
B("C13", BASE, "        df2 = all_nodes.iloc[start_idx:]  # Rows after the insertion point", "        df2 = all_nodes.iloc[start_idx + 1 :]  # Rows after the insertion point", "R-C13-rows")
B("C13", BASE, "                min_radius=min_radius,\n                ncomp=ncomp,\n            )\n        else:", "                min_radius=None,\n                ncomp=ncomp,\n            )\n        else:", "R-C13-length")

# ---------------------------------------------------------------------------------------- C14
B("C14", PO, '        p_inf, _ = self.p_gate(v, params[f"{prefix}_taumax"])\n        return {f"{prefix}_p": p_inf}', '        p_inf, tau = self.p_gate(v, params[f"{prefix}_taumax"])\n        return {f"{prefix}_p": p_inf / (p_inf + tau)}', "R-C14-fixpoint")
B("C14", HH, '            f"{prefix}_h": alpha_h / (alpha_h + beta_h),', '            f"{prefix}_h": beta_h / (alpha_h + beta_h),', "R-C14-fixpoint")
B("C14", PO, '            f"{prefix}_q": alpha_q / (alpha_q + beta_q),\n            f"{prefix}_r": alpha_r / (alpha_r + beta_r),', '            f"{prefix}_q": alpha_q / (alpha_q + beta_q),', "R-C14-cover")
B("C14", BASE, '            voltages = channel_nodes.loc[channel_indices, "v"].to_numpy()', '            voltages = channel_nodes["v"].to_numpy()', "R-C14-rows")
B("C14", BASE, "                self.nodes.loc[channel_indices, key] = val", "                self.nodes.loc[:, key] = val", "R-C14-rows")
P("C14", HH, '            f"{prefix}_h": alpha_h / (alpha_h + beta_h),', '            f"{prefix}_h": 1.0 / (1.0 + beta_h / alpha_h),')

# ---------------------------------------------------------------------------------------- C15
B("C15", CU, "    return rad / r_a / l**2 * 10**7  # Convert (S / cm / um) -> (mS / cm^2)", "    return rad / r_a / l**2 * 10**6  # Convert (S / cm / um) -> (mS / cm^2)", "R-C15-units")
B("C15", CU, "    return current * 100_000  # Convert (nA / um^2) to (uA / cm^2)", "    return current * 1_000_000  # Convert (nA / um^2) to (uA / cm^2)", "R-C15-units")
B("C15", BASE, "            voltage_terms = voltage_terms.at[indices].add(voltage_term * 1000.0)", "            voltage_terms = voltage_terms.at[indices].add(voltage_term * 100.0)", "R-C15-units")
B("C15", BASE, '            "voltage_terms": (v_terms + syn_v_terms) / cm,', '            "voltage_terms": (v_terms + syn_v_terms) * cm,', "R-C15-units")
P("C15", CU, "    return rad1 * rad2**2 / (r_a1 * rad2**2 * l1 + r_a2 * rad1**2 * l2) / l1 * 10**7", "    return rad1 * rad2**2 / (r_a1 * rad2**2 * l1 + r_a2 * rad1**2 * l2) / l1 * 1e7")

# ---------------------------------------------------------------------------------------- C16
B("C16", CU, "    return left_rad + (right_rad - left_rad) * loc_within_bin", "    return left_rad + (right_rad + left_rad) * loc_within_bin", "R-C16-forms")
B("C16", CU, "    range_ = np.linspace(non_split / 2, 1 - non_split / 2, ncomp)", "    range_ = np.linspace(0, 1 - non_split, ncomp)", "R-C16-forms")
B("C16", CU, "            dists = np.asarray([2 * radius])", "            dists = np.asarray([radius])", "R-C16-forms")
B("C16", SWC, "    lengths_each = np.repeat(pathlengths, ncomp) / ncomp", "    lengths_each = np.repeat(pathlengths, ncomp)", "R-C16-forms")
B("C16", CU, "        prev_ind = current_ind\n        prev_type = current_type\n", "        prev_ind = current_ind\n        if prev_type != 1:\n            prev_type = last_type\n        last_type = current_type\n", "R-C16-stale")
P("C16", CU, "    return left_rad + (right_rad - left_rad) * loc_within_bin", "    slope = right_rad - left_rad\n    return loc_within_bin * slope + left_rad")

# ---------------------------------------------------------------------------------------- C17
B("C17", TF, "        x = -jnp.log((1.0 / x) - 1.0)", "        x = jnp.log((1.0 / x) - 1.0)", "R-C17-inverse")
B("C17", TF, "        super().__init__(-upper)", "        super().__init__(upper)", "R-C17-bounds")
B("C17", TF, "        for transform in reversed(self.transforms):", "        for transform in self.transforms:", "R-C17-struct")
B("C17", TF, "        return jnp.where(self.mask, self.transform.inverse(y), y)", "        return jnp.where(self.mask, self.transform.forward(y), y)", "R-C17-struct")
B("C17", TF, "        return jax.tree_util.tree_map(lambda x, tf: tf.inverse(x), params, self.tf_dict)", "        return jax.tree_util.tree_map(lambda x, tf: tf.forward(x), params, self.tf_dict)", "R-C17-struct")
B("C17", TF, "        return (x - self.b) / self.a", "        return (x + self.b) / self.a", "R-C17-inverse")
B("C17", TF, "        return self.lower + self.width * y", "        return self.lower - self.width * y", "R-C17-bounds")
P("C17", TF, "        return (x - self.b) / self.a", "        shifted = x - self.b\n        return shifted / self.a")

# ---------------------------------------------------------------------------------------- C18
B("C18", CU, "    return partial(_padded_radius, radiuses=radiuses)", "    return lambda loc: _padded_radius(loc, radiuses=radiuses)", "R-C18-closure")
B("C18", BASE, '        if key.startswith("__"):\n            return super().__getattribute__(key)\n\n        # intercepts calls to groups', "        # intercepts calls to groups", "R-C18-getattr")
B("C18", BASE, "        error_msg = lambda name: (", "        self.base._err = error_msg = lambda name: (", "R-C18-closure")
B("C18", NW, "            self.xyzr += deepcopy(cell.xyzr)", "            self.xyzr += cell.xyzr", "R-C18-share")

# ---------------------------------------------------------------------------------------- C19
B("C19", BASE, "            if pkey in self.base.nodes.columns:\n                trainable_inds_in_view = np.intersect1d(inds, self._nodes_in_view)\n            elif pkey in self.base.edges.columns:", "            if pkey in sum([list(c.channel_params.keys()) for c in self.base.channels], []):\n                trainable_inds_in_view = np.intersect1d(inds, self._nodes_in_view)\n            elif pkey in self.base.edges.columns:", "R-C19-classify")
B("C19", BASE, "                    base_exts_inds[state_name] = base_exts_inds[state_name][keep_inds]", "                    base_exts_inds[state_name] = base_exts_inds[state_name]", "R-C19-pair")
B("C19", BASE, "            self.base.nodes.loc[self._nodes_in_view, name] = False\n", "", "R-C19-undo")
B("C19", BASE, '        assert len(self.base.trainable_params) == 0, "No trainables allowed!"\n', "", "R-C19-relabel")

# ---------------------------------------------------------------------------------------- C20
B("C20", CO, "    global_post_indices = global_post_indices.reshape((num_post, num_pre)).T.ravel()", '    global_post_indices = global_post_indices.reshape((-1, num_pre), order="F").ravel()', "R-C20-layout")
B("C20", CO, "    global_post_indices = global_post_indices.reshape((num_post, num_pre)).T.ravel()", "    global_post_indices = global_post_indices.reshape((num_pre, num_post)).T.ravel()", "R-C20-layout")
B("C20", CO, "    global_post_indices = global_post_indices.reshape((num_post, num_pre)).T.ravel()\n", "", "R-C20-layout")
B("C20", CO, "        np.hstack(global_post_indices) if len(global_post_indices) > 0 else []", "        np.hstack(global_post_indices) if len(global_post_indices) > 1 else []", "R-C20-length")
B("C20", CO, "    if len(from_idx) == 0:\n        return  # No connection requested.\n", "", "R-C20-length")
B("C20", CO, "    post_cell_inds = post_cell_inds[to_idx]", "    post_cell_inds = post_cell_inds[from_idx]", "R-C20-roles")
B("C20", CO, '    pre_rows = pre_cell_view.scope("local").branch(0).comp(0).nodes.copy()', '    pre_rows = pre_cell_view.scope("local").branch(0).comp(1).nodes.copy()', "R-C20-roles")
B("C20", CO, "    pre.base._append_multiple_synapses(pre.nodes, post.nodes, synapse_type)", "    pre.base._append_multiple_synapses(post.nodes, pre.nodes, synapse_type)", "R-C20-roles")
P("C20", CO, "    global_post_indices = global_post_indices.reshape((num_post, num_pre)).T.ravel()", '    global_post_indices = global_post_indices.reshape((num_post, num_pre)).ravel(order="F")')

# ---------------------------------------------------------------------------------------- rules that had no breaking variant
B("C01", CU, "            levels[i] = levels[p] + 1", "            levels[i] = levels[p]", "R-C01-levels")
B("C01", CU, "            if levels[b] == l:", "            if levels[b] == l + 1:", "R-C01-levels")
B("C02", SV, "        lowers = lowers.at[idx.mask(sinks_lower)].add(\n            -delta_t * axial_conductances[c2c][lower_inds]",
  "        lowers = lowers.at[idx.mask(sinks_lower)].add(\n            -0.5 * delta_t * axial_conductances[c2c][lower_inds]", "R-C02-rowsum")
B("C03", HH, "is_small, y * (1.0 - x / y / 2.0), x_safe / (save_exp(x_safe / y) - 1.0)", "is_small, y * (1.0 - x / y / 2.0), x_safe / (save_exp(x_safe / y) - 1.0) / y", "R-C03-helper")
B("C04", HH, 'm, h, n = states[f"{prefix}_m"], states[f"{prefix}_h"], states[f"{prefix}_n"]\n        new_m', 'm, h, n = states[f"{prefix}_m"], states[f"{prefix}_h"], states[f"{prefix}_nn"]\n        new_m', "R-C04-keys")
B("C09", NW, "type_ind = len(syn_names) if is_new_type else syn_names.index(synapse_name)", "type_ind = len(syn_names) - 1 if is_new_type else syn_names.index(synapse_name)", "R-C09-types")
B("C10", IG, "    module.to_jax()  # Creates `.jaxnodes` from `.nodes` and `.jaxedges` from `.edges`.", "    if module.jaxnodes is None:\n        module.to_jax()", "R-C10-tojax")
B("C17", TF, "        return self.a * x + self.b\n", "        return self.a * x * x + self.b\n", "R-C17-mono")
B("C18", CU, "    if len(radiuses) == 1:\n        radiuses = np.tile(radiuses, 2)", "    if len(radiuses) == 1:\n        return lambda loc: radiuses[0] * np.ones_like(loc)", "R-C18-closure")
B("C18", BASE, "    def _childviews(self) -> List[str]:", "    def __getstate__(self):\n        state = self.__dict__.copy()\n        state.pop('jaxnodes', None)\n        return state\n\n    def _childviews(self) -> List[str]:", "R-C18-protocol")
P("C18", BASE, "    def _childviews(self) -> List[str]:", "    def __getstate__(self):\n        return self.__dict__\n\n    def __setstate__(self, state):\n        self.__dict__.update(state)\n\n    def _childviews(self) -> List[str]:")
# F10 (repaired): shared parameter columns / current names survive delete_channel
B("C19", BASE, "                self.base.nodes.loc[rows[~in_use], col] = float(\"nan\")", "                self.base.nodes.loc[rows, col] = float(\"nan\")", "R-C19-undo")
B("C19", BASE, "                self.base.nodes.drop(columns=unshared_cols + [name], inplace=True)", "                self.base.nodes.drop(columns=channel_cols + [name], inplace=True)", "R-C19-undo")
B("C19", BASE, "                if channel.current_name not in [c.current_name for c in others]:\n                    self.base.membrane_current_names.remove(channel.current_name)", "                self.base.membrane_current_names.remove(channel.current_name)", "R-C19-undo")
# F12 (repaired): re-introduce the stale read
B("C16", CU, "            all_types.append(int(content[min(1, len(content) - 1)][1]))", "            all_types.append(int(current_type))", "R-C16-stale")
# algebraically identical ways of writing the current terms of the voltage equation
for _p in ("C01", "C15", "C08"):
    P(_p, BASE, '            "constant_terms": (const_terms + i_ext + syn_const_terms) / cm,', '            "constant_terms": syn_const_terms / cm + (i_ext + const_terms) * (1.0 / cm),')
B("C08", BASE, '            "constant_terms": (const_terms + i_ext + syn_const_terms) / cm,', '            "constant_terms": (const_terms + syn_const_terms) / cm + i_ext,', "R-C08-charge")
B("C08", BASE, '            "constant_terms": (const_terms + i_ext + syn_const_terms) / cm,', '            "constant_terms": (const_terms + 2 * i_ext + syn_const_terms) / cm,', "R-C08-charge")
# R-C16-split
B("C16", CU, "        branches.append(branch[i * num_points_each - 1 : (i + 1) * num_points_each])", "        branches.append(branch[i * num_points_each : (i + 1) * num_points_each])", "R-C16-split")
B("C16", CU, "    all_last_inds = [b[-1] for b in all_branches]", "    all_last_inds = [b[0] for b in all_branches]", "R-C16-split")
B("C16", CU, '        sorting = np.argsort(first_val, kind="mergesort")', "        sorting = np.argsort(first_val)", "R-C16-split")
B("C16", CU, "        sorted_types = [types[s] for s in sorting]", "        sorted_types = [types[s] for s in np.argsort(first_val)]", "R-C16-split")
B("C16", CU, "            length = max(lengths_of_subbranches)", "            length = length / num_subbranches * (num_subbranches - 1)", "R-C16-split")
B("C16", CU, "            if int(types[0]) == 1 and int(types[1]) != 1 and is_single_point_soma:", "            if int(types[0]) == 1 and is_single_point_soma:", "R-C16-forms")
B("C16", CU, "                point_diffs[:, 1] ** 2 + point_diffs[:, 2] ** 2 + point_diffs[:, 3] ** 2", "                point_diffs[:, 1] ** 2 + point_diffs[:, 2] ** 2 + point_diffs[:, 4] ** 2", "R-C16-forms")
P("C16", CU, "                point_diffs[:, 1] ** 2 + point_diffs[:, 2] ** 2 + point_diffs[:, 3] ** 2", "                point_diffs[:, 3] ** 2 + point_diffs[:, 1] ** 2 + point_diffs[:, 2] ** 2")
P("C16", CU, "            dists = np.asarray([2 * radius])", "            dists = np.asarray([radius + radius])")
# R-C11-basestate
B("C11", BASE, "        if group_name not in self.base.groups:", "        if group_name not in self.groups:", "R-C11-basestate")
# F19 (repaired): forward Euler must refuse unequal compartment counts
B("C01", SV, "    if len(np.unique(ncomp_per_branch)) > 1:\n        # The reshapes below", "    if False:\n        # The reshapes below", "R-C01-refuse")
# same_expr: hoisted temporaries in the constructors are not a change
P("C12", CELL, '        self.nodes["global_comp_index"] = np.arange(self.cumsum_ncomp[-1])', '        n_total = self.cumsum_ncomp[-1]\n        self.nodes["global_comp_index"] = np.arange(n_total)')
B("C12", CELL, '        self.nodes["global_comp_index"] = np.arange(self.cumsum_ncomp[-1])', '        self.nodes["global_comp_index"] = np.arange(1, self.cumsum_ncomp[-1] + 1)', "R-C12-concat")
# F5 (repaired): synaptic states are stored per type; recordings / clamps carry global edge rows
B("C08", BASE, "                    inds = jnp.asarray(self._edge_inds_within_type())[inds]", "                    inds = inds", "R-C08-space")
B("C08", IG, "        edge_inds_within_type[ind] if state in edge_state_names else ind", "        ind", "R-C08-space")
B("C08", BASE, "                inds, self._edges_in_view if is_edge_state else self._nodes_in_view\n            )", "                inds, self._nodes_in_view\n            )", "R-C08-space")
B("C08", BASE, '                ptr_recs["rec_index"].isin(self._edges_in_view),\n', '                ptr_recs["rec_index"].isin(self._comps_in_view),\n', "R-C08-space")
# ---------------------------------------------------------------------------------------- session 3 rules
# R-C13-rows on positions of the original table: drop-then-cut == cut at start and at start + n_old
P("C13", BASE, "        all_nodes = all_nodes.drop(index=range(start_idx, start_idx + number_deleted))\n\n        # 2) Insert M new rows at the same location\n        df1 = all_nodes.iloc[:start_idx]  # Rows before the insertion point\n        df2 = all_nodes.iloc[start_idx:]  # Rows after the insertion point",
  "        df1 = all_nodes.iloc[:start_idx]  # Rows before the insertion point\n        df2 = all_nodes.iloc[start_idx + number_deleted :]  # Rows after the insertion point")
B("C13", BASE, "        df2 = all_nodes.iloc[start_idx:]  # Rows after the insertion point", "        df2 = all_nodes.iloc[start_idx + 1 :]  # Rows after the insertion point", "R-C13-rows")
B("C13", BASE, '        all_nodes["global_comp_index"] = np.arange(len(all_nodes))', '        all_nodes["global_comp_index"] = np.arange(1, len(all_nodes) + 1)', "R-C13-rows")
P("C13", BASE, '        all_nodes["global_comp_index"] = np.arange(len(all_nodes))', '        all_nodes["global_comp_index"] = np.arange(all_nodes.shape[0])')
B("C13", BASE, '        view = pd.concat([*[average_row] * ncomp], axis="rows")', '        view = pd.concat([*[average_row] * num_previous_ncomp], axis="rows")', "R-C13-rows")
P("C13", BASE, '        view = pd.concat([*[average_row] * ncomp], axis="rows")', '        view = pd.concat([average_row for _ in range(ncomp)], axis="rows")')
# R-C13-layout / R-C13-ends (shared with C01)
B("C13", SU, "    return padded_cumsum_ncomp[branch_inds] + remainders", "    padding = padded_cumsum_ncomp - cumsum_ncomp_per_branch\n    return index + padding[branch_inds + 1]", "R-C13-layout")
P("C13", SU, "    return padded_cumsum_ncomp[branch_inds] + remainders", "    padding = padded_cumsum_ncomp - cumsum_ncomp_per_branch\n    return index + padding[branch_inds]")
B("C13", CELL, '                "sink": self.cumsum_ncomp[self._par_inds + 1] - 1,', '                "sink": self.cumsum_ncomp[self._par_inds] + self.ncomp - 1,', "R-C13-ends")
for _p in ("C01", "C13"):
    B(_p, CELL, '        parent_to_branchpoint_edges["type"] = 3', '        parent_to_branchpoint_edges["type"] = 4', "R-%s-ends" % _p)
    B(_p, CELL, "        child_to_branchpoint_edges = branchpoint_to_child_edges.rename(", "        child_to_branchpoint_edges = branchpoint_to_parent_edges.rename(", "R-%s-ends" % _p)
    B(_p, CELL, '                "source": self._child_belongs_to_branchpoint + self.cumsum_ncomp[-1],', '                "source": self._child_belongs_to_branchpoint + self.cumsum_ncomp[-1] + 1,', "R-%s-ends" % _p)
    P(_p, CELL, "        parent_to_branchpoint_edges = branchpoint_to_parent_edges.rename(\n            columns={\"sink\": \"source\", \"source\": \"sink\"}\n        )\n        parent_to_branchpoint_edges[\"type\"] = 3",
      "        p2bp = branchpoint_to_parent_edges.rename(\n            columns={\"source\": \"sink\", \"sink\": \"source\"}\n        )\n        p2bp[\"type\"] = 3\n        parent_to_branchpoint_edges = p2bp")
# sorted distinct parents (C01/C12)
for _p, _r in (("C01", "R-C01-levels"), ("C12", "R-C12-offsets")):
    B(_p, CU, "    par_inds = np.unique(par_inds)\n    return par_inds, child_inds, child_belongs_to_branchpoint", "    par_inds = pd.unique(par_inds)\n    return par_inds, child_inds, child_belongs_to_branchpoint", _r)
    P(_p, CU, "    par_inds = np.unique(par_inds)\n    return par_inds, child_inds, child_belongs_to_branchpoint", "    par_inds = np.sort(pd.unique(par_inds))\n    return par_inds, child_inds, child_belongs_to_branchpoint")
# compute_levels on terms
B("C01", CU, "            levels[i] = levels[p] + 1", "            levels[i] = levels[p] + 2", "R-C01-levels")
B("C01", CU, "            levels[i] = levels[p] + 1", "            levels[i] = levels[i - 1] + 1", "R-C01-levels")
B("C01", CU, "        if p == -1:\n            levels[i] = 0", "        if p == 0:\n            levels[i] = 0", "R-C01-levels")
P("C01", CU, "        if p == -1:\n            levels[i] = 0\n        else:\n            levels[i] = levels[p] + 1", "        if p != -1:\n            levels[i] = 1 + levels[p]\n        else:\n            levels[i] = 0")
P("C01", CU, "    num_branches = len(levels)\n    children_in_each_level = []", "    levels = np.asarray(levels)\n    num_branches = len(levels)\n    children_in_each_level = []")
# C12: pinned element of the per-cell sequences
B("C12", NW, "            offset_within_cell = cell.cumsum_ncomp[-1]\n            condition = cell._comp_edges[\"type\"].isin([1, 2])", "            offset_within_cell = self._cells_list[0].cumsum_ncomp[-1]\n            condition = cell._comp_edges[\"type\"].isin([1, 2])", "R-C12-offsets")
# C17: flag-parameterised private helper
P("C17", TF, "        return jax.tree_util.tree_map(lambda x, tf: tf.forward(x), params, self.tf_dict)", "        def leaf(x, tf, inverse=False):\n            if inverse:\n                return tf.inverse(x)\n            return tf.forward(x)\n\n        return jax.tree_util.tree_map(leaf, params, self.tf_dict)")
B("C17", TF, "        return jax.tree_util.tree_map(lambda x, tf: tf.forward(x), params, self.tf_dict)", "        def leaf(x, tf, inverse=True):\n            if inverse:\n                return tf.inverse(x)\n            return tf.forward(x)\n\n        return jax.tree_util.tree_map(leaf, params, self.tf_dict)", "R-C17-struct")
# C10: to_jax coverage on terms, alias of a chained assignment, accumulate onto the base registry
P("C10", BASE, "            self.base.jaxedges = {}\n            edges = self.base.edges.to_dict(orient=\"list\")", "            jaxedges = self.base.jaxedges = {}\n            edges = self.base.edges.to_dict(orient=\"list\")")
B("C10", BASE, "                for key in synapse.synapse_states:\n                    self.base.jaxedges[key] = jnp.asarray(", "                for key in list(synapse.synapse_states)[:0]:\n                    self.base.jaxedges[key] = jnp.asarray(", "R-C10-tojax")
for _p, _r in (("C10", "R-C10-groups"), ("C11", "R-C11-basestate")):
    B(_p, BASE, "                np.concatenate([self.base.groups[group_name], self._nodes_in_view])", "                np.concatenate([self.groups[group_name], self._nodes_in_view])", _r)
B("C10", BASE, "        self.base.to_jax()\n        pstate = params_to_pstate(trainable_params, self.base.indices_set_by_trainables)\n        all_params = self.base.get_all_parameters(pstate, voltage_solver=\"jaxley.stone\")",
  "        pstate = params_to_pstate(trainable_params, self.base.indices_set_by_trainables)\n        all_params = self.base.get_all_parameters(pstate, voltage_solver=\"jaxley.stone\")\n        self.base.to_jax()", "R-C10-tojax")
# key class decided on the base (C08/C11/C19)
for _p in ("C08", "C11", "C19"):
    B(_p, BASE, '            is_edge_state = ptr_recs["state"].isin(self._edge_state_names())', '            is_edge_state = ptr_recs["state"].isin(self.synapse_state_names + self.base.synapse_current_names)', "R-%s-keyclass" % _p)
    # F20 (repaired): synaptic currents are edge quantities too
    B(_p, BASE, '            is_edge_state = ptr_recs["state"].isin(self._edge_state_names())', '            is_edge_state = ptr_recs["state"].isin(self.base.synapse_state_names)', "R-%s-keyclass" % _p)
    B(_p, IG, "    edge_state_names = module._edge_state_names()", "    edge_state_names = module.synapse_state_names", "R-%s-keyclass" % _p)
    B(_p, BASE, "                if key in self._edge_state_names():", "                if key in self.synapse_state_names:", "R-%s-keyclass" % _p)
    P(_p, BASE, "        return self.base.synapse_state_names + self.base.synapse_current_names", "        names = list(self.base.synapse_state_names)\n        return names + self.base.synapse_current_names")
# C19: synapse roles shared, de-duplication on terms
B("C19", NW, '                params["radius"][post_inds],\n                params["length"][post_inds],', '                params["radius"][pre_inds],\n                params["length"][post_inds],', "R-C19-simulates")
B("C19", BASE, "        has_duplicates = self.base.recordings.duplicated()", '        has_duplicates = self.base.recordings.duplicated(subset=["rec_index"])', "R-C19-pair")
P("C19", BASE, "        has_duplicates = self.base.recordings.duplicated()\n        self.base.recordings = self.base.recordings.loc[~has_duplicates]", "        dup = self.base.recordings.duplicated()\n        has_duplicates = dup\n        self.base.recordings = self.base.recordings.loc[~dup]")
# C18: class-level containers over the MRO, sharing on terms
# (class-level container rule: exercised by the stored change C18-m6, which needs two cooperating edits)
B("C18", NW, "            self.xyzr += deepcopy(cell.xyzr)", "            self.xyzr += cell.xyzr", "R-C18-share")
P("C18", NW, "            self.xyzr += deepcopy(cell.xyzr)", "            self.xyzr.extend(deepcopy(cell.xyzr))")
B("C18", NW, "        del self._cells_list", "        pass", "R-C18-share")
# C11: hierarchy / iteration / re-ranking on terms
B("C11", BASE, "        for i, child in zip(index, child_views):", "        for i, child in zip(index, child_views[::-1]):", "R-C11-filter")
P("C11", BASE, "        child_views = self._childviews()\n        assert len(index) <= len(child_views), \"Too many indices.\"\n        view = self\n        for i, child in zip(index, child_views):\n            view = view._at_nodes(child, i)",
  "        levels_below = self._childviews()\n        assert len(index) <= len(levels_below), \"Too many indices.\"\n        view = self\n        for level, i in zip(levels_below, index):\n            view = view._at_nodes(level, i)")
B("C11", BASE, "            children = levels[levels.index(self._current_view) + 1 :]", "            children = levels[levels.index(self._current_view) :]", "R-C11-filter")
B("C11", BASE, '        yield from self._iter_submodules("branch")', '        yield from self._iter_submodules("comp")', "R-C11-filter")
B("C11", BASE, "        idcs = reindex_a_by_b(idcs, global_idx_cols[2], global_idx_cols[:2])", "        idcs = reindex_a_by_b(idcs, global_idx_cols[2], global_idx_cols[0])", "R-C11-rerank")
P("C11", BASE, "        idcs = reindex_a_by_b(idcs, global_idx_cols[2], global_idx_cols[:2])", "        idcs = reindex_a_by_b(idcs, global_idx_cols[2], global_idx_cols[1])")
B("C11", BASE, '        rerank = lambda df: df.rank(method="dense").astype(int) - 1', '        rerank = lambda df: df.rank(method="min").astype(int) - 1', "R-C11-rerank")
B("C11", BASE, '        rerank = lambda df: df.rank(method="dense").astype(int) - 1', '        rerank = lambda df: df.rank(method="dense").astype(int)', "R-C11-rerank")
B("C11", BASE, "            grouped_df = df.groupby(b) if b is not None else df", "            grouped_df = df", "R-C11-rerank")
# C16 forms on terms
B("C16", SWC, "            pathlengths[i] = 1.0", "            pathlengths[i] = 1e-3", "R-C16-forms")
B("C16", SWC, "    lengths_each = np.repeat(pathlengths, ncomp) / ncomp", "    lengths_each = np.repeat(pathlengths, ncomp) / (ncomp + 1)", "R-C16-forms")
P("C16", SWC, "    lengths_each = np.repeat(pathlengths, ncomp) / ncomp\n    cell.set(\"length\", lengths_each)", "    per_comp = np.repeat(pathlengths, ncomp) / ncomp\n    cell.set(\"length\", per_comp)")
B("C16", SWC, "            indices = np.where(types == type_ind)[0].tolist()", "            indices = np.where(types >= type_ind)[0].tolist()", "R-C16-forms")
B("C16", CU, "        radiuses_each[radiuses_each < min_radius] = min_radius", "        radiuses_each[radiuses_each > min_radius] = min_radius", "R-C16-forms")
B("C16", CU, "    radiuses = np.asarray([radius_fns[b](range_) for b in branch_indices])", "    radiuses = np.asarray([radius_fns[i](range_) for i, b in enumerate(branch_indices)])", "R-C16-forms")
P("C16", CU, "    radiuses = np.asarray([radius_fns[b](range_) for b in branch_indices])", "    fns = [radius_fns[b] for b in branch_indices]\n    radiuses = np.asarray([f(range_) for f in fns])")
# C08 step-current siblings on terms
B("C08", STIM, "    window_end = int((i_delay + i_dur) / dt)\n    time_steps = int(t_max // dt) + 2\n    current = jnp.zeros((time_steps, dim)) + i_offset", "    window_end = int((i_delay + i_dur) / dt) + 1\n    time_steps = int(t_max // dt) + 2\n    current = jnp.zeros((time_steps, dim)) + i_offset", "R-C08-time")
P("C08", STIM, "    window_start = int(i_delay / dt)\n    window_end = int((i_delay + i_dur) / dt)\n    time_steps = int(t_max // dt) + 2\n    current = jnp.zeros((time_steps,)) + i_offset\n    return current.at[window_start:window_end].set(i_amp)",
  "    start = int(i_delay / dt)\n    stop = int((i_delay + i_dur) / dt)\n    n_steps = int(t_max // dt) + 2\n    current = jnp.zeros((n_steps,)) + i_offset\n    return current.at[start:stop].set(i_amp)")
# C20 column naming through rename
P("C20", NW, '        pre_nodes = pre_nodes[["global_comp_index"]]\n        pre_nodes.columns = ["pre_global_comp_index"]', '        pre_nodes = pre_nodes[["global_comp_index"]].rename(columns={"global_comp_index": "pre_global_comp_index"})')
B("C20", NW, '        pre_nodes = pre_nodes[["global_comp_index"]]\n        pre_nodes.columns = ["pre_global_comp_index"]', '        pre_nodes = pre_nodes[["global_comp_index"]].rename(columns={"global_comp_index": "post_global_comp_index"})', "R-C20-roles")

# F11 (repaired): re-introduce the clipped exponential inside the declared bijections; stable equivalents stay silent
B("C17", TF, "        return jax.nn.softplus(x) + self.lower", "        return jnp.log1p(jnp.exp(jnp.minimum(x, 20.0))) + self.lower", "R-C17-saturation")
B("C17", TF, "        y = jax.nn.sigmoid(x)", "        y = 1.0 / (1.0 + jnp.exp(jnp.minimum(-x, 20.0)))", "R-C17-saturation")
B("C17", TF, "        return z + jnp.log(-jnp.expm1(-z))", "        return z + jnp.log(-jnp.expm1(-jnp.minimum(z, 20.0)))", "R-C17-saturation")
P("C17", TF, "        return jax.nn.softplus(x) + self.lower", "        return jnp.logaddexp(x, 0.0) + self.lower")
P("C17", TF, "        y = jax.nn.sigmoid(x)", "        y = 1.0 / (1.0 + jnp.exp(-x))")
# (`log(exp(z) - 1)` was listed here as preserving until round 7: it is the same function over the reals but overflows for z > 709,
#  where the inverse is representable -- see R-C17-overflow and the breaking variant further down)
B("C17", TF, "        return z + jnp.log(-jnp.expm1(-z))", "        return z + jnp.log(jnp.expm1(-z))", "R-C17-inverse")

# F21 (repaired): the checkpoint pad of an input must have that input's number of columns
for _p, _r in (("C06", "R-C06-scan"), ("C07", "R-C07-padding"), ("C08", "R-C08-time"), ("C05", "R-C05-padding")):
    B(_p, IG, "            dummy_external = jnp.zeros((size_difference, externals[key].shape[1]))", "            dummy_external = jnp.zeros((size_difference, externals[list(externals.keys())[0]].shape[1]))", _r)

# F22 (repaired): values stored on the module during integrate must be concrete
B("C18", BASE, "        with ensure_compile_time_eval():\n            self.base.jaxnodes = {}", "        if True:\n            self.base.jaxnodes = {}", "R-C18-tracer")
P("C18", BASE, "        with ensure_compile_time_eval():\n            self.base.jaxnodes = {}", "        with jax.ensure_compile_time_eval():\n            self.base.jaxnodes = {}")
# R-C18-memo
B("C18", BASE, "    def _compute_axial_conductances(self, params: Dict[str, jnp.ndarray]):", "    @partial(jit, static_argnums=(0,))\n    def _compute_axial_conductances(self, params: Dict[str, jnp.ndarray]):", "R-C18-memo")
B("C18", BASE, "    def _edge_inds_within_type(self) -> np.ndarray:", "    @lru_cache(maxsize=None)\n    def _edge_inds_within_type(self) -> np.ndarray:", "R-C18-memo")
# must-store: invariant-restoring stores are unconditional
for _p in ("C13", "C19", "C10", "C11"):
    B(_p, BASE, '        self.nodes["controlled_by_param"] = 0\n\n    def _compute_coords_of_comp_centers', '        if "controlled_by_param" not in self.nodes.columns:\n            self.nodes["controlled_by_param"] = 0\n\n    def _compute_coords_of_comp_centers', "R-%s-muststore" % _p)

# F23 (repaired): uniformity of a branch is decided by comparing values, not through a floating-point variance
B("C13", BASE, "        if not (self.nodes[channel_names].nunique(dropna=False) <= 1).all():", "        if not (self.nodes[channel_names].var() == 0.0).all():", "R-C13-uniform")
B("C13", BASE, "            self.nodes[channel_param_names + channel_state_names].nunique(dropna=False)\n            <= 1\n        ).all():", "            self.nodes[channel_param_names + channel_state_names].std() == 0.0\n        ).all():", "R-C13-uniform")
P("C13", BASE, "        if not (self.nodes[channel_names].nunique(dropna=False) <= 1).all():", "        if not (self.nodes[channel_names] == self.nodes[channel_names].iloc[0]).all().all():")
# emptiness guards test the selection the guarded block uses
for _p in ("C01", "C02", "C15"):
    B(_p, SV, "    if len(sinks[c2c]) > 0:\n        diags = diags.at[idx.mask(sinks[c2c])].add(delta_t * axial_conductances[c2c])", "    if len(sinks[types == 0]) > 0:\n        diags = diags.at[idx.mask(sinks[c2c])].add(delta_t * axial_conductances[c2c])", "R-%s-guards" % _p)
P("C01", SV, "    if len(sinks[c2c]) > 0:\n        diags = diags.at[idx.mask(sinks[c2c])].add(delta_t * axial_conductances[c2c])", "    if len(axial_conductances[c2c]) > 0:\n        diags = diags.at[idx.mask(sinks[c2c])].add(delta_t * axial_conductances[c2c])")
# membership tests look the key up in the container that is updated
for _p in ("C08", "C11", "C19"):
    B(_p, BASE, "        if key in self.base.externals.keys():\n            self.base.externals[key] = jnp.concatenate(", "        if key in self.externals.keys():\n            self.base.externals[key] = jnp.concatenate(", "R-%s-membership" % _p)
B("C19", BASE, "        if group_name not in self.base.groups:", "        if group_name not in self.groups:", "R-C19-membership")
# key-kind aware key tests: a state key is never a member of the parameter-name set
for _p, _r in (("C05", "R-C05-scatter"), ("C10", "R-C10-scatter"), ("C09", "R-C09-space")):
    B(_p, BASE, "            if key in self.base.synapse_state_names:\n                synapse_inds = self.base.edges", "            if key in self.base.synapse_param_names:\n                synapse_inds = self.base.edges", _r)
# the step function leaves its inputs alone
B("C07", BASE, "                inds = external_inds[key]\n                if key in self._edge_state_names():\n                    # Clamps of synaptic states are indexed by the global edge index.\n                    inds = jnp.asarray(self._edge_inds_within_type())[inds]\n                u[key] = u[key].at[inds].set(externals[key])",
  "                if key in self._edge_state_names():\n                    external_inds[key] = jnp.asarray(self._edge_inds_within_type())[external_inds[key]]\n                u[key] = u[key].at[external_inds[key]].set(externals[key])", "R-C07-stepargs")
# every result of the nested scan comes from the recursion
for _p, _r in (("C06", "R-C06-scan"), ("C07", "R-C07-scan")):
    B(_p, JU, "    def nested_reshape(x):", "    if math.prod(nested_lengths) == 1:\n        carry, out = f(init, jax.tree_util.tree_map(lambda x: x[0], xs))\n        return carry, jax.tree_util.tree_map(lambda y: jnp.expand_dims(y, 0), out)\n\n    def nested_reshape(x):", _r)
# channel step / channel currents: one row selector, write-back by .set, accumulation by .add
B("C03", BASE, "                states[key] = states[key].at[channel_indices].set(val)", "                states[key] = states[key].at[channel_indices].add(val)", "R-C03-rows")
B("C03", BASE, "                states[key] = states[key].at[channel_indices].set(val)", "                states[key] = states[key].at[indices].set(val)", "R-C03-rows")
B("C03", BASE, "                channel_states, delta_t, voltages[channel_indices], channel_params", "                channel_states, delta_t, voltages[indices], channel_params", "R-C03-rows")
P("C03", BASE, "            for key, val in states_updated.items():\n                states[key] = states[key].at[channel_indices].set(val)", "            for key in states_updated:\n                states[key] = states[key].at[channel_indices].set(states_updated[key])")
B("C02", BASE, "                .add(membrane_currents[0])", "                .set(membrane_currents[0])", "R-C02-currents")
B("C02", BASE, "                channel_states[s] = states[s][indices]", "                channel_states[s] = states[s]", "R-C02-currents")
B("C02", BASE, "            voltage_terms = voltage_terms.at[indices].add(voltage_term * 1000.0)", "            voltage_terms = voltage_terms.at[indices].set(voltage_term * 1000.0)", "R-C02-currents")
# pad / truncate decided on the linear form of the guard
P("C08", IG, "            if t_max_steps > externals[key].shape[0]:", "            if t_max_steps - externals[key].shape[0] > 0:")
B("C08", IG, "            if t_max_steps > externals[key].shape[0]:", "            if externals[key].shape[0] - t_max_steps > 0:", "R-C08-time")
# sibling batching assertions compared as conditions
P("C08", BASE, "        assert batch_size in [\n            1,\n            num_inserted,\n        ], \"Number of comps and stimuli do not match.\"", "        assert (\n            batch_size == num_inserted or batch_size == 1\n        ), \"Number of comps and stimuli do not match.\"")
# contiguous range instead of the level filter
for _p in ("C01", "C02", "C12"):
    B(_p, CU, "        for b in range(num_branches):\n            if levels[b] == l:\n                children_in_current_level.append(children_row_and_col[b - 1])\n        children_in_current_level = np.asarray(children_in_current_level)",
      "        in_level = np.asarray(levels) == l\n        first_branch = int(np.argmax(in_level))\n        children_in_current_level = np.asarray(children_row_and_col[first_branch - 1 : first_branch - 1 + int(np.sum(in_level))])", "R-%s-levels" % _p)
# _consecutive_indices normal form
P("C01", SU, "            repeated_starts = np.reshape(np.repeat(start_inds, n_inds), (-1, n_inds[0]))\n            # For single compartment neurons there are no uppers or lowers, so `n_inds`\n            # can be zero.\n            return repeated_starts + np.arange(n_inds[0]).astype(int)",
  "            return np.asarray(start_inds)[:, None] + np.arange(n_inds[0]).astype(int)[None, :]")
B("C01", SU, "            return repeated_starts + np.arange(n_inds[0]).astype(int)", "            return repeated_starts + np.arange(n_inds[0] + 1).astype(int)", "R-C01-layout")
# node-selected views keep an edge iff both ends are in view, however the masks are combined
P("C11", BASE, "            possible_edges_in_view = base_edges.index.to_numpy()[(pre & post).flatten()]", "            possible_edges_in_view = base_edges.index.to_numpy()[np.logical_and(pre, post)]")
B("C11", BASE, "            possible_edges_in_view = base_edges.index.to_numpy()[(pre & post).flatten()]", "            possible_edges_in_view = base_edges.index.to_numpy()[np.logical_or(pre, post)]", "R-C11-edges")

# F24 (repaired): recordings are matched by row label, so record() must hand out fresh labels; and a recording is a PAIR
B("C19", BASE, "            [self.base.recordings, new_recs], ignore_index=True\n        )", "            [self.base.recordings, new_recs]\n        )", "R-C19-recs")
P("C19", BASE, "            [self.base.recordings, new_recs], ignore_index=True\n        )", "            [self.base.recordings, new_recs]\n        ).reset_index(drop=True)")
B("C19", BASE, "                ~base_recs.isin(self.recordings).all(axis=1)", "                ~base_recs[\"rec_index\"].isin(self.recordings[\"rec_index\"])", "R-C19-recs")
# recorded synapse locations
B("C20", CU, "    index = global_comp_index - cumsum_ncomp[global_branch_index]", "    index = global_comp_index % ncomp_per_branch[global_branch_index]", "R-C20-locs")
P("C20", CU, "    return (0.5 + index) / ncomp", "    return (index + 0.5) / ncomp")
for _p, _r in (("C11", "R-C11-edges"), ("C20", "R-C20-views")):
    B(_p, BASE, "            self._edges_in_view = np.intersect1d(\n                possible_edges_in_view, self._edges_in_view\n            )", "            self._edges_in_view = possible_edges_in_view", _r)
# what a view lists
B("C11", BASE, "        channel_in_view = self.nodes[names].any(axis=0)", "        channel_in_view = self.nodes[names].all(axis=0)", "R-C11-inview")
P("C11", BASE, "        channel_in_view = self.nodes[names].any(axis=0)", "        channel_in_view = self.nodes[names].max(axis=0)")
B("C11", BASE, '            view.edges["local_edge_index"] = np.arange(len(view.edges))', '            view.edges["local_edge_index"] = self._edge_inds_within_type()[view._edges_in_view]', "R-C11-inview")
# parameter source / name parsing / lost update / tracer operands / scheme dispatch / input guards
for _p, _r in (("C10", "R-C10-paramsource"), ("C05", "R-C05-paramsource")):
    B(_p, BASE, '                voltages, i_inds, i_current, params["radius"], params["length"]', '                voltages, i_inds, i_current, self.jaxnodes["radius"], self.jaxnodes["length"]', _r)
B("C16", CU, "        radiuses_each[radiuses_each < min_radius] = min_radius", "        radiuses = np.clip(radiuses, a_min=min_radius, a_max=None)", "R-C16-lostupdate")
B("C18", BASE, "        with ensure_compile_time_eval():\n            self.base.jaxnodes = {}", "        inds = jnp.arange(len(self.base.nodes))\n        with ensure_compile_time_eval():\n            self.base.jaxnodes = {}", None)
B("C01", BASE, '        if solver == "bwd_euler":', '        if solver != "bwd_euler":', "R-C01-scheme")
B("C08", BASE, '        if "v" in externals.keys():\n            u["v"] = u["v"].at', '        if "v" not in externals.keys():\n            u["v"] = u["v"].at', "R-C08-inputs")
B("C08", BASE, '            if key not in ["i", "v"]:', '            if key in ["i", "v"]:', "R-C08-inputs")
P("C08", BASE, '            if key not in ["i", "v"]:', '            if key != "i" and key != "v":')

# F25 (repaired): loc() must not rebind its argument inside the loop over the branches
B("C11", BASE, "            locs = (\n                comp_locs if is_str_all(at) else self._reformat_index(at, dtype=float)\n            )", "            at = (\n                comp_locs if is_str_all(at) else self._reformat_index(at, dtype=float)\n            )\n            locs = at", "R-C11-loc")
# a per-iteration temporary read by a later loop; overrides applied in order
B("C02", NW, "            offset_within_cell = cell.cumsum_ncomp[-1]\n            condition = cell._comp_edges[\"type\"].isin([3, 4])", "            condition = cell._comp_edges[\"type\"].isin([3, 4])", "R-C02-loopleak")
for _p, _r in (("C10", "R-C10-order"), ("C05", "R-C05-order")):
    B(_p, BASE, "                param_state += added_param_state", "                param_state = added_param_state + param_state", _r)
P("C10", BASE, "                param_state += added_param_state", "                param_state = param_state + added_param_state")

# ---- rules added after round 6
# saturation is part of the value everywhere but inside save_exp; save_exp itself is exp with an upper clip at 20
B("C16", CU, "    loc_within_bin = (loc - left_loc) / (right_loc - left_loc)", "    loc_within_bin = (loc - left_loc) / np.maximum(right_loc - left_loc, 1e-6)", "R-C16-forms")
for _p, _r in (("C03", "R-C03-saturation"), ("C04", "R-C04-saturation")):
    B(_p, SG, "    x = jnp.clip(x, max=max_value)", "    x = jnp.clip(x, min=-max_value, max=max_value)", _r)
    B(_p, SG, "def save_exp(x, max_value: float = 20.0):", "def save_exp(x, max_value: float = 5.0):", _r)
    P(_p, SG, "    x = jnp.clip(x, max=max_value)\n    return jnp.exp(x)", "    return jnp.exp(jnp.minimum(x, max_value))")
# a branch is never its own parent
B("C16", CU, "        if len(ind) > 0 and ind != i:", "        if len(ind) > 0 and ind[0] <= i:", "R-C16-split")
B("C16", CU, "        if len(ind) > 0 and ind != i:", "        if len(ind) > 0:", "R-C16-split")
P("C16", CU, "        if len(ind) > 0 and ind != i:", "        if len(ind) > 0 and not (ind == i):")
P("C16", CU, "        if len(ind) > 0 and ind != i:", "        if len(ind) > 0 and i != ind[0]:")
# what a view lists: the global columns of its own rows
for _p, _r in (("C11", "R-C11-inview"), ("C20", "R-C20-views")):
    B(_p, BASE, '        return self.nodes["global_cell_index"].unique()', '        first_cell = self.nodes["global_cell_index"].iloc[0]\n        return first_cell + self.nodes["local_cell_index"].unique()', _r)
    B(_p, BASE, '        return self.nodes["global_comp_index"].unique()', '        return self.nodes["global_branch_index"].unique()', _r)
    P(_p, BASE, '        return self.nodes["global_cell_index"].unique()', '        cells = self.nodes["global_cell_index"]\n        return cells.unique()')
    # a slice index keeps its step
    B(_p, BASE, "        idx = np.arange(len(self.base.nodes))[idx] if isinstance(idx, slice) else idx", "        if isinstance(idx, slice):\n            start, stop, _ = idx.indices(len(self.base.nodes))\n            idx = np.arange(start, stop)", _r if _p == "C20" else "R-C11-index")
    P(_p, BASE, "        idx = np.arange(len(self.base.nodes))[idx] if isinstance(idx, slice) else idx", "        if isinstance(idx, slice):\n            idx = np.arange(*idx.indices(len(self.base.nodes)))")
# padded trainable indices at simulation time (shared with C19)
B("C19", BASE, "                inds = jnp.where(\n                    jnp.asarray(parameter[\"indices\"]) < 0, len(states[key]), inds\n                )\n", "", "R-C19-sentinel")
# copy protocol: rebuild-by-constructor reducers, process-wide reducer registrations
B("C18", BASE, "    def __exit__(self, exc_type, exc_value, exc_traceback):\n        pass\n", "    def __exit__(self, exc_type, exc_value, exc_traceback):\n        pass\n\n    def __reduce__(self):\n        return (View, (self.base, self._nodes_in_view, self._edges_in_view))\n", "R-C18-protocol")
B("C18", JU, 'Func = TypeVar("Func", bound=Callable)\n', 'Func = TypeVar("Func", bound=Callable)\nimport copyreg\nimport numpy as np\ncopyreg.pickle(type(jnp.zeros(())), lambda x: (np.asarray, (np.asarray(x),)))\n', "R-C18-protocol")
# one edge row per requested pair
for _p, _r in (("C20", "R-C20-rows"), ("C09", "R-C09-edgerows")):
    B(_p, NW, "                post_nodes.reset_index(drop=True),\n", "                post_nodes,\n", _r)
    B(_p, NW, "        post_nodes = post_nodes[[\"global_comp_index\"]]", "        post_nodes = post_nodes[[\"global_branch_index\"]]", _r)
    B(_p, NW, "        index = len(self.base.edges)", "        index = len(self.edges)", _r)
    P(_p, NW, "        pre_nodes = pre_nodes[[\"global_comp_index\"]]\n        pre_nodes.columns = [\"pre_global_comp_index\"]", "        pre_nodes = pre_nodes[[\"global_comp_index\"]].rename(\n            columns={\"global_comp_index\": \"pre_global_comp_index\"}\n        )")
B("C09", CU, "    area = 2 * pi * radius * length", "    area = pi * radius * length", "R-C09-area")
# a view shows / deletes its own half of the trainables; the two halves are cut with the same, disjoint row masks
for _p, _r in (("C10", "R-C10-viewtrain"), ("C19", "R-C19-viewtrain")):
    B(_p, BASE, "            trainables_and_inds = self._filter_trainables(is_viewed=False)", "            trainables_and_inds = self._filter_trainables(is_viewed=True)", _r)
    B(_p, BASE, "            self.base.num_trainable_params -= self.num_trainable_params", "            self.base.num_trainable_params = self.num_trainable_params", _r)
    P(_p, BASE, "            self.base.num_trainable_params -= self.num_trainable_params", "            self.base.num_trainable_params = (\n                self.base.num_trainable_params - self.num_trainable_params\n            )")
    B(_p, BASE, "            partially_in_view = in_view.any(axis=1) & ~completely_in_view", "            partially_in_view = in_view.any(axis=1)", _r)
    B(_p, BASE, "            índices_set_by_trainables_in_view.append(inds[completely_in_view])", "            índices_set_by_trainables_in_view.append(inds[partially_in_view])", _r)
    P(_p, BASE, "            partially_in_view = in_view.any(axis=1) & ~completely_in_view", "            partially_in_view = ~completely_in_view & in_view.any(axis=1)")
# delete_channel keeps what the surviving channels need: polarity of the row and column selections
B("C19", BASE, "                self.base.nodes.loc[rows[~in_use], col] = float(\"nan\")", "                self.base.nodes.loc[rows[in_use], col] = float(\"nan\")", "R-C19-undo")
B("C19", BASE, "                unshared_cols = [col for col in channel_cols if not users[col]]", "                unshared_cols = [col for col in channel_cols if users[col]]", "R-C19-undo")
B("C19", BASE, "                in_use = self.base.nodes.loc[rows, users[col]].any(axis=1).to_numpy()", "                in_use = self.base.nodes.loc[rows, users[col]].all(axis=1).to_numpy()", "R-C19-undo")
P("C19", BASE, "                unshared_cols = [col for col in channel_cols if not users[col]]", "                unshared_cols = [col for col in channel_cols if len(users[col]) == 0]")
P("C19", BASE, "                in_use = self.base.nodes.loc[rows, users[col]].any(axis=1).to_numpy()\n                self.base.nodes.loc[rows[~in_use], col] = float(\"nan\")", "                unused = ~self.base.nodes.loc[rows, users[col]].any(axis=1).to_numpy()\n                self.base.nodes.loc[rows[unused], col] = float(\"nan\")")
B("C19", BASE, "        self.base.nodes.loc[self._nodes_in_view, name] = True", "        self.base.nodes[name] = True", "R-C19-confine")
# log of an exponential that can overflow
B("C17", TF, "        return z + jnp.log(-jnp.expm1(-z))", "        return jnp.log(jnp.expm1(z))", "R-C17-overflow")
B("C17", TF, "        return z + jnp.log(-jnp.expm1(-z))", "        return jnp.log(jnp.exp(z) - 1.0)", "R-C17-overflow")
P("C17", TF, "        return z + jnp.log(-jnp.expm1(-z))", "        return z + jnp.log1p(-jnp.exp(-z))")
# every import reads the file; optional conventions are off by default
B("C16", SWC, "    max_branch_len: Optional[float] = None,\n    min_radius", "    max_branch_len: Optional[float] = 2_000.0,\n    min_radius", "R-C16-switches")
B("C16", SWC, "def swc_to_jaxley(", "from functools import lru_cache\n\n\n@lru_cache(maxsize=None)\ndef swc_to_jaxley(", "R-C16-fresh")
# stimulus rows and index entries are paired in the order given; one row of values per index
for _p, _r in (("C08", "R-C08-charge"), ("C02", "R-C02-stim")):
    B(_p, BASE, "        zero_vec = jnp.zeros_like(voltages)\n", "        zero_vec = jnp.zeros_like(voltages)\n        i_inds = jnp.asarray(i_inds)\n        i_inds = i_inds[jnp.argsort(i_inds)]\n", _r)
B("C08", BASE, "        values = values if is_multiple else jnp.repeat(values, num_inserted, axis=0)", "        values = values if is_multiple else jnp.repeat(values, batch_size, axis=0)", "R-C08-rows")
B("C08", BASE, "        is_multiple = num_inserted == batch_size\n        values", "        is_multiple = num_inserted <= batch_size\n        values", "R-C08-rows")
B("C11", BASE, "            self._scope = scope\n            self._current_view = current_view", "            self._current_view = current_view", "R-C11-refresh")

# ---- rules added with round 7
# the diagonal handed on by a back-substituted level is 1 for every compartment of the level
for _p, _r in (("C01", "R-C01-schedule"), ("C15", "R-C15-schedule")):
    B(_p, SV, "    diags = diags.at[idx.branch(bil)].set(1.0)\n    return solves, lowers, diags", "    return solves, lowers, diags", _r)
    B(_p, SV, "    diags = diags.at[idx.branch(bil)].set(1.0)\n    return solves, lowers, diags", "    diags = diags.at[idx.lower(bil)].set(1.0)\n    return solves, lowers, diags", _r)
# what set_ncomp re-runs before the view state is refreshed does not read the view state
B("C13", "jaxley/modules/branch.py", "        n_nodes, data_inds, indices, indptr = comp_edges_to_indices(self._comp_edges)", "        n_nodes, data_inds, indices, indptr = comp_edges_to_indices(\n            self._comp_edges, n_nodes=len(self._nodes_in_view)\n        )", "R-C13-initorder")
P("C13", "jaxley/modules/branch.py", "        n_nodes, data_inds, indices, indptr = comp_edges_to_indices(self._comp_edges)", "        n_nodes, data_inds, indices, indptr = comp_edges_to_indices(\n            self._comp_edges, n_nodes=self.ncomp\n        )")
# the edge table is grouped in the order it was handed in
for _p, _r in (("C09", "R-C09-space"),):
    B(_p, NW, "        states = self._step_synapse_state(states, syn_channels, params, delta_t, edges)", "        edges = edges.sort_values(\"type_ind\")\n        states = self._step_synapse_state(states, syn_channels, params, delta_t, edges)", _r)
    B(_p, BASE, "                synapse_inds = self.base.edges.groupby(\"type\").rank()[\"global_edge_index\"]\n                synapse_inds = (synapse_inds.astype(int) - 1).to_numpy()\n                inds = synapse_inds[inds]\n                # We need to unsqueeze `set_param` to make it `(num_params, 1)` for the\n                # `.set()` to work. This is done with `[:, None]`.\n                # Groups of unequal size", "                inds = inds - self.base.edges[key].first_valid_index()\n                # We need to unsqueeze `set_param` to make it `(num_params, 1)` for the\n                # `.set()` to work. This is done with `[:, None]`.\n                # Groups of unequal size", _r)
# trainables: nodes vs edges, for parameters AND states
for _p, _r in (("C19", "R-C19-classify"), ("C10", "R-C10-classify")):
    B(_p, BASE, "            elif pkey in self.base.edges.columns:\n                trainable_inds_in_view = np.intersect1d(inds, self._edges_in_view)", "            elif pkey in self.base.synapse_param_names:\n                trainable_inds_in_view = np.intersect1d(inds, self._edges_in_view)", _r)
    P(_p, BASE, "            elif pkey in self.base.edges.columns:\n                trainable_inds_in_view = np.intersect1d(inds, self._edges_in_view)", "            else:\n                trainable_inds_in_view = np.intersect1d(inds, self._edges_in_view)")
# lazy indexing: only a tuple is one index per level; editing methods run on the view
for _p, _r in (("C11", "R-C11-filter"), ("C20", "R-C20-filter")):
    B(_p, BASE, "        index = index if isinstance(index, tuple) else (index,)", "        index = tuple(index) if isinstance(index, (tuple, list)) else (index,)", _r)
B("C11", BASE, "            self.compute_compartment_centers()", "            self.base.compute_compartment_centers()", "R-C11-confine")
# forward Euler refuses every model its layout cannot hold; branch offsets are cumulative
for _p, _r in (("C01", "R-C01-refuse"), ("C12", "R-C12-refuse")):
    B(_p, SV, "    if len(np.unique(ncomp_per_branch)) > 1:", "    if nbranches * ncomp_per_branch[0] != len(voltages):", _r)
    P(_p, SV, "    if len(np.unique(ncomp_per_branch)) > 1:", "    if np.any(ncomp_per_branch != ncomp_per_branch[0]):")
# gradients: ties and data-dependent branches
B("C05", CU, "    return rad1 * rad2**2 / (r_a1 * rad2**2 * l1 + r_a2 * rad1**2 * l2) / l1 * 10**7", "    cond = rad1 * rad2**2 / (r_a1 * rad2**2 * l1 + r_a2 * rad1**2 * l2) / l1 * 10**7\n    return jnp.where(rad1 == rad2, rad1 / (r_a1 * l1 + r_a2 * l2) / l1 * 10**7, cond)", "R-C05-block")
# execution modes: the data-feeding API handles traced values; an exact factorisation is accepted
B("C06", BASE, "                    \"val\": jnp.atleast_1d(jnp.asarray(val)),", "                    \"val\": np.atleast_1d(val),", "R-C06-taint")
B("C06", IG, "            nsteps_to_return <= length", "            nsteps_to_return < length", "R-C06-scan")
P("C06", IG, "            nsteps_to_return <= length", "            length >= nsteps_to_return")
# a transformed function never hangs on an object
B("C18", NW, "            synapse_currents = vmap(\n                synapse_type.compute_current, in_axes=(None, 0, 0, None)\n            )(", "            if not hasattr(synapse_type, \"_vm\"):\n                synapse_type._vm = vmap(\n                    synapse_type.compute_current, in_axes=(None, 0, 0, None)\n                )\n            synapse_currents = synapse_type._vm(", "R-C18-plain")
# bounds are stored in the precision given
B("C17", TF, "        self.lower = lower\n        self.width = upper - lower", "        lower = jnp.asarray(lower, dtype=jnp.float32)\n        upper = jnp.asarray(upper, dtype=jnp.float32)\n        self.lower = lower\n        self.width = upper - lower", "R-C17-bounds")
# round 8, wave 2 -------------------------------------------------------------------------------------------------------
# every link of a chain derives its view from the view it is called on
B("C11", BASE, "        view = View(self, nodes, edges)\n        view._set_controlled_by_param(\"filter\")", "        view = View(self.base, nodes, edges)\n        view._set_controlled_by_param(\"filter\")", "R-C11-chain")
for _p, _r in (("C11", "R-C11-filter"), ("C20", "R-C20-filter")):
    B(_p, BASE, "        nodes = self._nodes_in_view if is_str_all(nodes) else nodes", "        nodes = self._nodes_in_view if is_str_all(nodes) or np.size(nodes) == len(self._nodes_in_view) else nodes", _r)
    P(_p, BASE, "        nodes = self._nodes_in_view if is_str_all(nodes) else nodes", "        if is_str_all(nodes):\n            nodes = self._nodes_in_view")
# parents of a level are found by the value of their level
for _p, _r in (("C01", "R-C01-levels"), ("C12", "R-C12-levels")):
    P(_p, CU, "        parents_inds_in_current_level = np.where(level_of_parent == l)[0]", "        parents_inds_in_current_level = np.flatnonzero(level_of_parent == l)")
# the compressed layout: three arrays, one axis
for _p, _r in (("C01", "R-C01-assembly"), ("C15", "R-C15-assembly")):
    B(_p, "jaxley/utils/solver_utils.py", "    sorted_indices = np.lexsort((row_ind, col_ind))", "    sorted_indices = np.lexsort((col_ind, row_ind))", _r)
    B(_p, "jaxley/utils/solver_utils.py", "    indices = row_ind\n", "    indices = col_ind\n", _r)
# the new rows of set_ncomp get back the column types of the whole table
B("C13", BASE, "        boolean_cols = channel_names\n", "        boolean_cols = [c._name for c in self.channels]\n", "R-C13-dtypes")
P("C13", BASE, "        boolean_cols = channel_names\n", "        boolean_cols = [channel._name for channel in self.base.channels]\n")
# partial application binds by name
B("C16", CU, "    return partial(_radius, cutoffs=cutoffs, radiuses=radiuses)", "    return partial(_radius, cutoffs, radiuses)", "R-C16-argnames")
# module state handed to the steppers is only read; a mutable default never becomes module state
B("C18", SV, "    vecfield = vecfield.at[:, 1:].add((voltages[:, :-1] - voltages[:, 1:]) * lowers)\n", "    vecfield = vecfield.at[:, 1:].add((voltages[:, :-1] - voltages[:, 1:]) * lowers)\n    debug_states.update(vecfield=vecfield)\n", "R-C18-tracer")
P("C18", SV, "    vecfield = vecfield.at[:, 1:].add((voltages[:, :-1] - voltages[:, 1:]) * lowers)\n", "    vecfield = vecfield.at[:, 1:].add((voltages[:, :-1] - voltages[:, 1:]) * lowers)\n    debug_states = dict(debug_states)\n    debug_states[\"vecfield\"] = vecfield\n")
# on a uniform branch any old entry (or a statistic that returns one) is the old radius; the base module has no role
P("C13", BASE, "            view[\"radius\"] = within_branch_radiuses[0] * np.ones(ncomp)", "            view[\"radius\"] = np.full(ncomp, np.mean(within_branch_radiuses))")
B("C13", BASE, "            view[\"radius\"] = within_branch_radiuses[0] * np.ones(ncomp)", "            view[\"radius\"] = within_branch_radiuses[0] * np.ones(num_previous_ncomp)", "R-C13-length")
P("C20", "jaxley/connect.py", "    post_rows = post_cell_view.base.nodes.loc[global_post_indices]", "    post_rows = pre_cell_view.base.nodes.loc[global_post_indices]")
B("C20", "jaxley/connect.py", "    pre_rows = pre_cell_view.base.nodes.loc[global_pre_indices]", "    pre_rows = pre_cell_view.base.nodes.loc[global_post_indices]", "R-C20-rolenames")
# a group of attribute assignments moved into a setter method of the same class is the same program
_OLD_DT = "        if isinstance(self, View):\n            trainables_and_inds = self._filter_trainables(is_viewed=False)\n            self.base.indices_set_by_trainables = trainables_and_inds[0]\n            self.base.trainable_params = trainables_and_inds[1]\n            self.base.num_trainable_params -= self.num_trainable_params\n        else:\n            self.base.indices_set_by_trainables = []\n            self.base.trainable_params = []\n            self.base.num_trainable_params = 0\n        self._update_view()\n\n    def add_to_group("
_NEW_DT = "        if isinstance(self, View):\n            indices, params = self._filter_trainables(is_viewed=False)\n            num_params = self.base.num_trainable_params - self.num_trainable_params\n            self._overwrite_trainables(indices, params, num_params)\n        else:\n            self._overwrite_trainables([], [], 0)\n        self._update_view()\n\n    def _overwrite_trainables(self, indices, params, num_params):\n        self.base.indices_set_by_trainables = indices\n        self.base.trainable_params = params\n        self.base.num_trainable_params = num_params\n\n    def add_to_group("
for _p in ("C10", "C19", "C18"):
    P(_p, BASE, _OLD_DT, _NEW_DT)
B("C19", BASE, _OLD_DT, _NEW_DT.replace("self._overwrite_trainables(indices, params, num_params)", "self._overwrite_trainables(params, indices, num_params)"), "R-C19-argnames")
# a comprehension that uses its counter only to index sequences walks them in lock step (index form of the zip comprehension)
_OLD_G = "        recs = jnp.asarray(\n            [\n                state[rec_state][rec_ind]\n                for rec_state, rec_ind in zip(rec_states, rec_inds)\n            ]\n        )"
_NEW_G = "        recs = jnp.stack(\n            [state[rec_states[k]][rec_inds[k]] for k in range(len(rec_inds))]\n        )"
for _p in ("C06", "C07", "C08"):
    P(_p, IG, _OLD_G, _NEW_G)
B("C08", IG, _OLD_G, _NEW_G.replace("rec_inds[k]]", "rec_inds[-k]]"), "R-C08-recs")
# dictionaries handed to compute_current / update_states built by comprehensions (entries must still be the channel's own rows)
_OLD_CS = "            channel_states = {}\n            for s in channel_state_names:\n                channel_states[s] = states[s][indices]"
for _p, _r in (("C02", "R-C02-currents"), ("C15", "R-C15-currents")):
    P(_p, BASE, _OLD_CS, "            channel_states = {s: states[s][indices] for s in channel_state_names}")
    B(_p, BASE, _OLD_CS, "            channel_states = {s: states[s] for s in channel_state_names}", _r)
_OLD_QS = "            channel_states = query_channel_states_and_params(\n                states, channel_state_names, channel_indices\n            )\n\n            states_updated"
P("C03", BASE, _OLD_QS, "            channel_states = {s: states[s][channel_indices] for s in channel_state_names}\n\n            states_updated")
B("C03", BASE, _OLD_QS, "            channel_states = {s: states[s] for s in channel_state_names}\n\n            states_updated", "R-C03-rows")
# lower clamp / compartment centres in other spellings
_OLD_CL = "        radiuses_each[radiuses_each < min_radius] = min_radius"
_OLD_CE = "    non_split = 1 / ncomp\n    range_ = np.linspace(non_split / 2, 1 - non_split / 2, ncomp)"
for _p, _r in (("C16", "R-C16-forms"), ("C13", "R-C13-radius")):
    P(_p, CU, _OLD_CL, "        radiuses_each = np.maximum(radiuses_each, min_radius)")
    P(_p, CU, _OLD_CL, "        radiuses_each = np.clip(radiuses_each, min_radius, None)")
    B(_p, CU, _OLD_CL, "        radiuses_each = np.minimum(radiuses_each, min_radius)", _r)
    P(_p, CU, _OLD_CE, "    range_ = (np.arange(ncomp) + 0.5) / ncomp")
    B(_p, CU, _OLD_CE, "    range_ = np.arange(ncomp) / ncomp", _r)
    B(_p, CU, "radiuses = np.asarray([radius_fns[b](range_) for b in branch_indices])", "radiuses = np.asarray([radius_fns[b](np.linspace(0, 1, ncomp)) for b in branch_indices])", _r)
# take(A, I) of a one-dimensional draw is A[I]; both ends are drawn equally often
_OLD_TK = "    pre_syn_neurons = pre_syn_neurons[sorting]\n    post_syn_neurons = post_syn_neurons[sorting]"
P("C20", CO, _OLD_TK, "    pre_syn_neurons = np.take(pre_syn_neurons, sorting)\n    post_syn_neurons = np.take(post_syn_neurons, sorting)")
B("C20", CO, "post_syn_neurons = np.random.choice(post_cell_inds, size=num_connections)", "post_syn_neurons = np.random.choice(post_cell_inds, size=num_post)", "R-C20-length")
# positions of the connectivity matrix: argwhere columns, transposed lookups; numpy function / method spellings of the layout
_OLD_W = "    from_idx, to_idx = np.where(connectivity_matrix)"
P("C20", CO, _OLD_W, "    pairs = np.argwhere(connectivity_matrix)\n    from_idx, to_idx = pairs[:, 0], pairs[:, 1]")
B("C20", CO, _OLD_W, "    pairs = np.argwhere(connectivity_matrix)\n    from_idx, to_idx = pairs[:, 1], pairs[:, 0]", "R-C20-roles")
B("C20", CO, _OLD_W, "    from_idx, to_idx = np.where(connectivity_matrix.T)", "R-C20-roles")
P("C20", CO, _OLD_W, "    to_idx, from_idx = np.where(connectivity_matrix.T)")
_OLD_RS = "global_post_indices = global_post_indices.reshape((num_post, num_pre)).T.ravel()"
P("C20", CO, _OLD_RS, "global_post_indices = global_post_indices.reshape(num_post, num_pre).transpose().reshape(-1)")
_OLD_RP = "pre_rows = pre_rows.loc[pre_rows.index.repeat(num_post)].reset_index(drop=True)"
P("C20", CO, _OLD_RP, "pre_rows = pre_rows.loc[np.repeat(pre_rows.index, num_post)].reset_index(drop=True)")
B("C20", CO, _OLD_RP, "pre_rows = pre_rows.loc[np.tile(pre_rows.index, num_post)].reset_index(drop=True)", "R-C20-layout")
# the dunder guard of __getattr__ in other spellings (decided on the names deepcopy / pickle look up)
_OLD_DG = '        if key.startswith("__"):\n            return super().__getattribute__(key)'
P("C18", BASE, _OLD_DG, '        if key[:2] == "__":\n            return object.__getattribute__(self, key)')
P("C18", BASE, _OLD_DG, '        if key.startswith("__") and key.endswith("__"):\n            return super().__getattribute__(key)')
B("C18", BASE, _OLD_DG, '        if key == "__deepcopy__":\n            return super().__getattribute__(key)', "R-C18-getattr")
B("C18", BASE, _OLD_DG, '        if key.startswith("___"):\n            return super().__getattribute__(key)', "R-C18-getattr")
# a deletion through a view rebuilds the view
B("C19", BASE, "                ~base_recs.isin(self.recordings).all(axis=1)\n            ]\n            self._update_view()", "                ~base_recs.isin(self.recordings).all(axis=1)\n            ]", "R-C19-rebuild")
B("C19", BASE, "                    base_exts_inds[state_name] = base_exts_inds[state_name][keep_inds]\n                self._update_view()", "                    base_exts_inds[state_name] = base_exts_inds[state_name][keep_inds]", "R-C19-rebuild")
P("C19", BASE, "                    base_exts_inds[state_name] = base_exts_inds[state_name][keep_inds]\n                self._update_view()\n            else:\n                pass  # does not have to be deleted if not in externals", "                    base_exts_inds[state_name] = base_exts_inds[state_name][keep_inds]\n        self._update_view()")
# augmented assignment on a whole array
for _p, _r in (("C01", "R-C01-assembly"), ("C02", "R-C02-rowsum")):
    P(_p, SV, "    branchpoint_conds_parents = -delta_t * branchpoint_conds_parents", "    branchpoint_conds_parents *= -delta_t")
    B(_p, SV, "    branchpoint_conds_parents = -delta_t * branchpoint_conds_parents", "    branchpoint_conds_parents *= delta_t", _r)
# signed voltage difference in other spellings
_OLD_AX = "    vecfield = vecfield.at[:, :-1].add((voltages[:, 1:] - voltages[:, :-1]) * uppers)\n    vecfield = vecfield.at[:, 1:].add((voltages[:, :-1] - voltages[:, 1:]) * lowers)"
P("C01", SV, _OLD_AX, "    dv = voltages[:, 1:] - voltages[:, :-1]\n    vecfield = vecfield.at[:, :-1].add(dv * uppers)\n    vecfield = vecfield.at[:, 1:].add(-dv * lowers)")
B("C01", SV, _OLD_AX, "    dv = voltages[:, 1:] - voltages[:, :-1]\n    vecfield = vecfield.at[:, :-1].add(dv * uppers)\n    vecfield = vecfield.at[:, 1:].add(dv * lowers)", "R-C01-explicit")
# the level loop as an index loop
_OLD_LL = "    for cil, pil in zip(\n        reversed(idx.children_in_level), reversed(idx.parents_in_level)\n    ):\n        diags, lowers, solves, uppers = _triang_level(\n            cil[:, 0],"
_NEW_LL = "    num_levels = len(idx.children_in_level)\n    for level in range(num_levels - 1, -1, -1):\n        cil, pil = idx.children_in_level[level], idx.parents_in_level[level]\n        diags, lowers, solves, uppers = _triang_level(\n            cil[:, 0],"
for _p, _r in (("C01", "R-C01-schedule"), ("C02", "R-C02-schedule")):
    P(_p, SV, _OLD_LL, _NEW_LL)
    B(_p, SV, _OLD_LL, _NEW_LL.replace("range(num_levels - 1, -1, -1)", "range(num_levels)"), _r)
# the pad of make_trainable is the sentinel (shared C05 / C10 / C19)
_OLD_PD = "        pad = lambda x: np.pad(x, (0, max_len - x.shape[0]), constant_values=-1)"
for _p, _r in (("C10", "R-C10-sentinel"), ("C19", "R-C19-sentinel")):
    B(_p, BASE, _OLD_PD, "        pad = lambda x: np.pad(x, (0, max_len - x.shape[0]), constant_values=0)", _r)
    P(_p, BASE, _OLD_PD, "        pad = lambda x: np.pad(x, (max_len - x.shape[0], 0), constant_values=-1)")
# add_to_group extends an existing group; the rank converter as cumcount
_OLD_AG = "        if group_name not in self.base.groups:\n            self.base.groups[group_name] = self._nodes_in_view\n        else:\n            self.base.groups[group_name] = np.unique(\n                np.concatenate([self.base.groups[group_name], self._nodes_in_view])\n            )"
for _p, _r in (("C11", "R-C11-groups"), ("C19", "R-C19-groups")):
    B(_p, BASE, _OLD_AG, "        self.base.groups[group_name] = self._nodes_in_view", _r)
    P(_p, BASE, _OLD_AG, "        previous = self.base.groups.get(group_name, np.asarray([], dtype=int))\n        self.base.groups[group_name] = np.unique(\n            np.concatenate([previous, self._nodes_in_view])\n        )")
_OLD_RK = '        ranks = self.base.edges.groupby("type").rank()["global_edge_index"]\n        return (ranks.astype(int) - 1).to_numpy()'
for _p in ("C08", "C19", "C09"):
    P(_p, BASE, _OLD_RK, '        return self.base.edges.groupby("type").cumcount().to_numpy()')
B("C08", BASE, _OLD_RK, '        return (self.base.edges.groupby("type").cumcount() + 1).to_numpy()', "R-C08-space")
# init_states: the dictionaries handed to init_state as comprehensions
_OLD_IS = "            channel_params = query_channel_states_and_params(\n                params, channel_param_names, channel_indices\n            )\n\n            init_state = channel.init_state("
P("C14", BASE, _OLD_IS, "            channel_params = {p: params[p][channel_indices] for p in channel_param_names}\n\n            init_state = channel.init_state(")
B("C14", BASE, _OLD_IS, "            channel_params = {p: params[p] for p in channel_param_names}\n\n            init_state = channel.init_state(", "R-C14-rows")
B("C14", BASE, _OLD_IS, "            channel_params = {p: params[p][channel_indices] for p in channel_state_names}\n\n            init_state = channel.init_state(", "R-C14-rows")
# update_states arguments gathered by the names of their own kind
_OLD_US = "            channel_states = query_channel_states_and_params(\n                states, channel_state_names, channel_indices\n            )\n\n            states_updated"
B("C03", BASE, _OLD_US, "            channel_states = query_channel_states_and_params(\n                states, channel_param_names, channel_indices\n            )\n\n            states_updated", "R-C03-rows")
P("C03", BASE, "            channel_state_names = list(channel.channel_states)\n            channel_state_names += self.membrane_current_names", "            channel_state_names = [*channel.channel_states, *self.membrane_current_names]")
# the parents of a cell shifted as a whole (root included)
B("C12", NW, "            [p.at[1:].add(self._cumsum_nbranches[i]) for i, p in enumerate(parents)]", "            [p + self._cumsum_nbranches[i] for i, p in enumerate(parents)]", "R-C12-offsets")
# global_branch_index as a nested comprehension
_OLD_GB = '        self.nodes["global_branch_index"] = np.repeat(\n            np.arange(self.total_nbranches), self.ncomp_per_branch\n        ).tolist()'
P("C12", CELL, _OLD_GB, '        self.nodes["global_branch_index"] = [\n            b for b, n in enumerate(self.ncomp_per_branch) for _ in range(n)\n        ]')
# the area conversion written as one expression (the helper becomes value-only and would be inlined)
_OLD_AR = "    area = 2 * pi * radius * length\n    current /= area  # nA / um^2\n    return current * 100_000  # Convert (nA / um^2) to (uA / cm^2)"
for _p in ("C09", "C08", "C02", "C15"):
    P(_p, CU, _OLD_AR, "    return 1e5 * current / (2.0 * pi * radius * length)")
B("C09", CU, _OLD_AR, "    return 1e4 * current / (2.0 * pi * radius * length)", "R-C09-area")
# the inverse indices of unique as a subscript
for _p in ("C01", "C12"):
    P(_p, CU, "    _, inverse_indices = jnp.unique(arr, return_inverse=True)\n    return inverse_indices", "    return jnp.unique(arr, return_inverse=True)[1]")
# cut-offs of the radius interpolation
_OLD_CO = "    cutoffs = np.cumsum(np.concatenate([np.asarray([0]), each_length])) / summed_len"
for _p, _r in (("C16", "R-C16-forms"), ("C13", "R-C13-radius")):
    P(_p, CU, _OLD_CO, "    cutoffs = np.concatenate([[0.0], np.cumsum(each_length)]) / summed_len")
    B(_p, CU, _OLD_CO, "    cutoffs = np.cumsum(each_length) / summed_len", _r)
# the list of types grown with extend
_OLD_ST = "        split_branches += split_branch\n        split_types += [type] * num_subbranches"
P("C16", CU, _OLD_ST, "        split_branches.extend(split_branch)\n        split_types.extend([type] * len(split_branch))")
B("C16", CU, _OLD_ST, "        split_branches.extend(split_branch)\n        split_types.extend([type])", "R-C16-split")
# data_set: the handed-in list as `param_state or []`
_OLD_DS = "            if param_state is not None:\n                param_state += added_param_state\n            else:\n                param_state = added_param_state"
for _p, _r in (("C10", "R-C10-order"), ("C05", "R-C05-order")):
    P(_p, BASE, _OLD_DS, "            param_state = (param_state or []) + added_param_state")
    B(_p, BASE, _OLD_DS, "            param_state = added_param_state + (param_state or [])", _r)
# the presence columns filled with fillna
_OLD_FN = "            self.base.nodes.loc[self.nodes[name].isna(), name] = False"
P("C12", BASE, _OLD_FN, "            self.base.nodes[name] = self.base.nodes[name].fillna(False)")
B("C12", BASE, _OLD_FN, "            self.base.nodes[name] = self.base.nodes[name].fillna(True)", "R-C12-channels")
