#!/venv/bin/python
"""Development aid: behaviour-preserving stress test of the checks.  Copies the package to a scratch directory and renames every
LOCAL variable of every function (names bound by assignment / for / with / comprehension inside the function; not parameters, not
globals / nonlocals, not names that also occur as a parameter of a nested function or lambda) to `<name>_rn`.  All 20 checks must
stay silent on the result.

usage: tools/alpha_rename.py [--only <file-substring>] [--func <qualname-substring>]  -> prints the verdict of every check
"""
import ast
import os
import shutil
import subprocess
import sys
import tempfile

sys.path.insert(0, "/verif")
from sa import core  # noqa: E402


def locals_of(fn):
    params = {a.arg for x in ast.walk(fn) if isinstance(x, ast.arguments) for a in x.posonlyargs + x.args + x.kwonlyargs + ([x.vararg] if x.vararg else []) + ([x.kwarg] if x.kwarg else [])}
    declared = {n_ for x in ast.walk(fn) if isinstance(x, (ast.Global, ast.Nonlocal)) for n_ in x.names}
    nested_defs = {x.name for x in ast.walk(fn) if isinstance(x, (ast.FunctionDef, ast.AsyncFunctionDef, ast.ClassDef)) and x is not fn}
    stored = {x.id for x in ast.walk(fn) if isinstance(x, ast.Name) and isinstance(x.ctx, ast.Store)}
    imported = {(a.asname or a.name).split(".")[0] for x in ast.walk(fn) if isinstance(x, (ast.Import, ast.ImportFrom)) for a in x.names}
    return {n for n in stored if n not in params and n not in declared and n not in nested_defs and n not in imported and not n.startswith("__")}


def rename_file(path, only_func=None):
    src = open(path, encoding="utf-8").read()
    tree = ast.parse(src)
    lines = src.split("\n")
    edits = []   # (line, col_start, col_end, new)
    done = set()

    def visit(fn, qual):
        names = locals_of(fn)
        if only_func and only_func not in qual:
            names = set()
        for x in ast.walk(fn):
            if isinstance(x, ast.Name) and x.id in names and (x.lineno, x.col_offset) not in done:
                done.add((x.lineno, x.col_offset))
                edits.append((x.lineno, x.col_offset, x.end_col_offset, x.id + "_rn"))

    def walk(node, qual):
        for ch in ast.iter_child_nodes(node):
            if isinstance(ch, (ast.FunctionDef, ast.AsyncFunctionDef)):
                visit(ch, qual + ch.name)      # the outermost function renames consistently through its nested functions
            elif isinstance(ch, ast.ClassDef):
                walk(ch, qual + ch.name + ".")
            else:
                walk(ch, qual)
    walk(tree, "")
    # keyword arguments `f(x=x)`: the keyword name is not a Name node, only the value is renamed -- fine
    for ln, a, b, new in sorted(edits, reverse=True):
        raw = lines[ln - 1].encode("utf-8")
        lines[ln - 1] = (raw[:a] + new.encode() + raw[b:]).decode("utf-8")
    new_src = "\n".join(lines)
    compile(new_src, path, "exec")
    open(path, "w", encoding="utf-8").write(new_src)
    return len(edits)


def main():
    only = sys.argv[sys.argv.index("--only") + 1] if "--only" in sys.argv else None
    func = sys.argv[sys.argv.index("--func") + 1] if "--func" in sys.argv else None
    d = tempfile.mkdtemp(prefix="alpha-")
    try:
        shutil.copytree(os.path.join(core.REPO, core.PKG), os.path.join(d, core.PKG), ignore=shutil.ignore_patterns("__pycache__"))
        n = 0
        for root, _dirs, files in os.walk(os.path.join(d, core.PKG)):
            for f in files:
                p = os.path.join(root, f)
                if f.endswith(".py") and (only is None or only in p):
                    n += rename_file(p, func)
        print("renamed occurrences:", n, flush=True)
        env = dict(os.environ, VERIF_REPO=d, VERIF_NOEVID="1")
        bad = 0
        props = sys.argv[sys.argv.index("--props") + 1].split(",") if "--props" in sys.argv else [f"C{i:02d}" for i in range(1, 21)]
        for P in props:
            r = subprocess.run(["/verif/check", P], env=env, capture_output=True, text=True)
            last = r.stdout.strip().split("\n")[-1]
            print(last[:150], flush=True)
            if r.returncode != 0:
                bad += 1
                for l in r.stdout.split("\n"):
                    if l.startswith(("  R-", "ANALYSIS-ERROR")):
                        print("   ", l[:int(os.environ.get("ALPHA_W", "300"))])
        print("checks not silent:", bad)
    finally:
        shutil.rmtree(d, ignore_errors=True)


if __name__ == "__main__":
    main()
