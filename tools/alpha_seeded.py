#!/venv/bin/python
"""Development aid: every stored breaking change must still be detected by its own check after ALL local variables of the
package were renamed (tools/alpha_rename.py), i.e. no detection depends on what a local is called."""
import os, shutil, subprocess, sys, tempfile, importlib.util
from multiprocessing import Pool
sys.path.insert(0, "/verif")
from sa import core
spec = importlib.util.spec_from_file_location("alpha_rename", "/verif/tools/alpha_rename.py")
ar = importlib.util.module_from_spec(spec); spec.loader.exec_module(ar)


def one(name):
    d = tempfile.mkdtemp(prefix="alphas-")
    try:
        shutil.copytree(os.path.join(core.REPO, core.PKG), os.path.join(d, core.PKG), ignore=shutil.ignore_patterns("__pycache__"))
        r = subprocess.run(["patch", "-p1", "-s", "-f", "--no-backup-if-mismatch", "-i", f"/verif/seeded/{name}/patch.diff"], cwd=d, capture_output=True, text=True)
        if r.returncode != 0:
            return name, "stale", ""
        for root, _d, files in os.walk(os.path.join(d, core.PKG)):
            for f in files:
                if f.endswith(".py"):
                    ar.rename_file(os.path.join(root, f))
        P = name.split("-")[0]
        r = subprocess.run(["/verif/check", P], env=dict(os.environ, VERIF_REPO=d, VERIF_NOEVID="1"), capture_output=True, text=True)
        rules = sorted({l.split()[0] for l in r.stdout.split("\n") if l.startswith("  R-")})
        return name, r.returncode, ",".join(rules)
    finally:
        shutil.rmtree(d, ignore_errors=True)


if __name__ == "__main__":
    names = sys.argv[1:] or sorted(n for n in os.listdir("/verif/seeded") if "-m" in n and os.path.isdir(f"/verif/seeded/{n}"))
    with Pool(10) as pool:
        res = pool.map(one, names)
    bad = [r for r in res if r[1] != 1]
    for r in res:
        if r[1] != 1:
            print("NOT-DETECTED-AFTER-RENAMING", r)
    print("items", len(res), "detected", len(res) - len(bad))
