#!/venv/bin/python
"""Copy the results of tools/verify_seed.sh (logs under /root/work/verify_batch*.log, produced in scratch worktrees)
into seeded/<name>/meta.json as the field `verified`."""
import glob, json, os, re
V = "/verif/seeded"
res = {}
for f in sorted(glob.glob("/root/work/verify_batch*.log")):
    for line in open(f):
        m = re.match(r"(C\d\d-[mp]\d+\w*) apply=(\w+) demo_clean_rc=(\d+) demo_mut_rc=(\d+) baseline=\[(.*)\]", line.strip())
        if m:
            res[m.group(1)] = {"apply": m.group(2), "demo_clean_rc": int(m.group(3)), "demo_mut_rc": int(m.group(4)), "baseline": m.group(5),
                               "how": "tools/verify_seed.sh in a scratch worktree of /repo (removed afterwards)"}
        # preserving refactorings are applied in pairs:  Cxx-p1+p2 apply=[ p1=git p2=git ] baseline=[...]
        m = re.match(r"(C\d\d)-(p\d+)\+(p\d+) apply=\[(.*?)\] baseline=\[(.*)\]", line.strip())
        if m:
            for k in (m.group(2), m.group(3)):
                res[f"{m.group(1)}-{k}"] = {"apply": m.group(4).strip(), "baseline": m.group(5), "applied_together_with": [m.group(2), m.group(3)],
                                            "how": "tools/verify_pres.sh in a scratch worktree of /repo (removed afterwards)"}
for name, r in sorted(res.items()):
    p = f"{V}/{name}/meta.json"
    if not os.path.exists(p):
        continue
    meta = json.load(open(p))
    meta["verified"] = r
    json.dump(meta, open(p, "w"), indent=1)
    print(name, r.get("demo_clean_rc"), r.get("demo_mut_rc"), r["baseline"][:12])
missing = [n for n in sorted(os.listdir(V)) if os.path.isdir(f"{V}/{n}") and n not in res]
print("not verified yet:", missing)
