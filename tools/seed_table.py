#!/venv/bin/python
"""Render the seeded-change table of DESIGN.md section 9.4 from seeded/MATRIX.json, seeded/FIRSTRUN.json and the
verification logs recorded in each meta.json."""
import json, os
V = "/verif/seeded"
M = json.load(open(f"{V}/MATRIX.json"))
F = json.load(open(f"{V}/FIRSTRUN.json"))
rows = []
for m in sorted(M):
    own = m.split("-")[0]
    meta = json.load(open(f"{V}/{m}/meta.json"))
    s = meta["summary"].replace("\n", " ").replace("|", "/")
    s = s[:118] + ("..." if len(s) > 118 else "")
    r = M[m]
    ownr = ", ".join(r[own][1]) if r[own][0] == 1 else f"exit {r[own][0]}"
    others = "; ".join(f"{p}: {', '.join(v[1])}" for p, v in sorted(r.items()) if p != own and v[0] != 0)
    ver = meta.get("verified", {})
    vtxt = "yes" if ver.get("demo_clean_rc") == 0 and ver.get("demo_mut_rc") not in (0, None) and "117 passed" in ver.get("baseline", "") else "?"
    rows.append(f"| {m} | {s} | {F.get(m, '?')} | {ownr} | {others or '-'} | {vtxt} |")
print("| change | what it does | first run | own check now fires | other properties firing | re-verified |")
print("|---|---|---|---|---|---|")
print("\n".join(rows))
