#!/venv/bin/python
"""Render the seeded-change tables of DESIGN.md section 9.4 from seeded/MATRIX.json (current verdicts of every quick
check on every stored change), seeded/FIRSTRUN.json (verdict of the checks as they were when the change arrived) and
the verification results recorded in each meta.json.  Output: markdown on stdout."""
import json
import os

V = "/verif/seeded"
M = json.load(open(f"{V}/MATRIX.json"))
F = json.load(open(f"{V}/FIRSTRUN.json"))


def meta(m):
    try:
        return json.load(open(f"{V}/{m}/meta.json"))
    except Exception:
        return {}


def short(m, n=105):
    s = meta(m).get("summary", "").replace("\n", " ").replace("|", "/")
    return s[:n] + ("..." if len(s) > n else "")


def verified(m):
    ver = meta(m).get("verified", {})
    if not ver:
        return "?"
    if m.split("-")[1].startswith("p"):
        return "yes" if "117 passed" in ver.get("baseline", "") else "NO"
    ok = ver.get("demo_clean_rc") == 0 and ver.get("demo_mut_rc") not in (0, None) and "117 passed" in ver.get("baseline", "")
    return "yes" if ok else "NO"


brk = sorted(m for m in M if m.split("-")[1].startswith("m"))
pre = sorted(m for m in M if m.split("-")[1].startswith("p"))
print("**Breaking changes** (m1, m2: round 1; m3, m4: round 2; m5, m6: round 3; m7, m8: round 4; m9, m10: round 5; m11, m12: round 6; m13, m14: round 7; m15, m16: round 8; m17, m18: round 9; m19, m20: round 10)\n")
print("| change | what it does | checks as they were when it arrived | own check now | other properties firing now | re-verified |")
print("|---|---|---|---|---|---|")
for m in brk:
    own = m.split("-")[0]
    r = M[m]
    ownr = ", ".join(r[own][1]) if r[own][0] == 1 else f"exit {r[own][0]}"
    if r[own][0] == 0 and meta(m).get("static_out_of_reach"):
        ownr = "not detected (outside static reach, see text)"
    others = "; ".join(f"{p}: {', '.join(v[1]) or 'exit 2'}" for p, v in sorted(r.items()) if p != own and v[0] != 0)
    print(f"| {m} | {short(m)} | {F.get(m, '?')} | {ownr} | {others or '-'} | {verified(m)} |")
print("\n**Behaviour-preserving refactorings** (p1, p2: round 2; p3, p4: round 3; p5, p6: round 4; p7, p8: round 5; p9, p10: round 6; p11, p12: round 7; p13, p14: round 8; p15, p16: round 9; p17, p18: round 10; every check must stay silent)\n")
print("| change | what it does | checks as they were when it arrived | now | baseline with both of the round applied |")
print("|---|---|---|---|---|")
for m in pre:
    r = M[m]
    bad = "; ".join(f"{p}: {'VIOLATION ' + ', '.join(v[1]) if v[0] == 1 else 'exit 2'}" for p, v in sorted(r.items()) if v[0] != 0)
    print(f"| {m} | {short(m)} | {F.get(m, '?')} | {bad or 'silent (all 20 checks)'} | {verified(m)} |")
n1 = [m for m in brk if m.endswith(("m1", "m2"))]
n2 = [m for m in brk if m.endswith(("m3", "m4"))]
n3 = [m for m in brk if m.endswith(("m5", "m6"))]
n4 = [m for m in brk if m.endswith(("m7", "m8"))]
p4 = [m for m in pre if m.endswith(("p5", "p6"))]
n5 = [m for m in brk if m.endswith(("m9", "m10"))]
n6 = [m for m in brk if m.endswith(("m11", "m12"))]
p6 = [m for m in pre if m.endswith(("p9", "p10"))]
n7 = [m for m in brk if m.endswith(("m13", "m14"))]
p7 = [m for m in pre if m.endswith(("p11", "p12"))]
n8 = [m for m in brk if m.endswith(("m15", "m16"))]
n9 = [m for m in brk if m.endswith(("m17", "m18"))]
n10 = [m for m in brk if m.endswith(("m19", "m20"))]
p10 = [m for m in pre if m.endswith(("p17", "p18"))]
p9 = [m for m in pre if m.endswith(("p15", "p16"))]
p8 = [m for m in pre if m.endswith(("p13", "p14"))]
p5 = [m for m in pre if m.endswith(("p7", "p8"))]
p2 = [m for m in pre if m.endswith(("p1", "p2"))]
p3 = [m for m in pre if m.endswith(("p3", "p4"))]


def first_caught(m):
    """caught by the OWN property's check at arrival"""
    import re
    f = re.sub(r"^round \d+( preserving)?: *", "", F.get(m, ""))
    return f.startswith("caught")


def first_any(m):
    f = F.get(m, "")
    return first_caught(m) or "caught by C" in f or "caught by R-" in f


def first_silent(m):
    f = F.get(m, "")
    return "silent" in f and "FALSE" not in f and "exit 2" not in f


now_own = lambda ms: sum(M[m][m.split('-')[0]][0] == 1 for m in ms)
now_any = lambda ms: sum(any(v[0] == 1 for v in M[m].values()) for m in ms)
now_sil = lambda ms: sum(all(v[0] == 0 for v in M[m].values()) for m in ms)
print()
print("| round | breaking changes | caught by the own check at arrival | caught by some check at arrival | caught by the own check now | by some check now |")
print("|---|---|---|---|---|---|")
for nm, ms in (("1", n1), ("2", n2), ("3", n3), ("4", n4), ("5", n5), ("6", n6), ("7", n7), ("8", n8), ("9", n9), ("10", n10)):
    print(f"| {nm} | {len(ms)} | {sum(first_caught(m) for m in ms)} | {sum(first_any(m) for m in ms)} | {now_own(ms)} | {now_any(ms)} |")
print()
print("| round | preserving refactorings | silent (all 20 checks) at arrival | silent now |")
print("|---|---|---|---|")
for nm, ms in (("2", p2), ("3", p3), ("4", p4), ("5", p5), ("6", p6), ("7", p7), ("8", p8), ("9", p9), ("10", p10)):
    print(f"| {nm} | {len(ms)} | {sum(first_silent(m) for m in ms)} | {now_sil(ms)} |")
