#!/venv/bin/python
"""Development aid: behaviour-preserving stress test no. 2 ("extract variable").  In every function, for every simple statement at
block level (assignment / expression statement / return) whose value is a call, the FIRST positional argument that is itself a call
or a subscript is moved into a fresh local `_hN` assigned immediately before the statement (only if no earlier-evaluated part of the
statement is a call, so the order of evaluation is kept).  All 20 checks must stay silent.

usage: tools/hoist_temps.py [--props C01,C02] [--only file-substring]"""
import ast, os, shutil, subprocess, sys, tempfile
sys.path.insert(0, "/verif")
from sa import core


def hoist_file(path, npass=0):
    src = open(path, encoding="utf-8").read()
    tree = ast.parse(src)
    lines = src.split("\n")
    edits = []
    counter = [0]

    def simple_target(t):
        return isinstance(t, ast.Name)

    def visit_block(stmts):
        for st in stmts:
            for fld in ("body", "orelse", "finalbody"):
                sub = getattr(st, fld, None)
                if isinstance(sub, list) and sub and isinstance(sub[0], ast.stmt):
                    visit_block(sub)
            if isinstance(st, ast.Try):
                for h in st.handlers:
                    visit_block(h.body)
            val = None
            if isinstance(st, ast.Assign) and len(st.targets) == 1:
                val = st.value
                # a target that is evaluated before the value (obj.attr[...] = ...) must itself be effect-free: names / attributes / constant subscripts
                if any(isinstance(x, ast.Call) for x in ast.walk(st.targets[0])):
                    continue
            elif isinstance(st, ast.Return) and st.value is not None:
                val = st.value
            elif isinstance(st, ast.Expr):
                val = st.value
            if not isinstance(val, ast.Call) or st.lineno != val.lineno and False:
                continue
            # the callee must be a plain name / attribute chain of names (evaluating it has no effect)
            f = val.func
            while isinstance(f, ast.Attribute):
                f = f.value
            if not isinstance(f, ast.Name):
                continue
            if not val.args or any(isinstance(a, ast.Starred) for a in val.args):
                continue
            # the first argument that is a call / subscript, provided everything evaluated before it is a plain name / constant / attribute
            a0 = None
            for a_ in val.args:
                if isinstance(a_, (ast.Name, ast.Constant)) or (isinstance(a_, ast.Attribute) and not any(isinstance(x, ast.Call) for x in ast.walk(a_))):
                    continue
                a0 = a_
                break
            if a0 is None or not isinstance(a0, (ast.Call, ast.Subscript, ast.BinOp)):
                continue
            if any(isinstance(x, (ast.Lambda, ast.NamedExpr, ast.Yield, ast.Await, ast.ListComp, ast.GeneratorExp, ast.DictComp, ast.SetComp)) for x in ast.walk(a0)):
                continue
            if a0.lineno != a0.end_lineno and False:
                continue
            counter[0] += 1
            edits.append((st, a0, f"_h{npass}_{counter[0]}"))

    for fn in ast.walk(tree):
        if isinstance(fn, (ast.FunctionDef, ast.AsyncFunctionDef)):
            visit_block(fn.body)
    # apply from the bottom up; skip overlapping edits (an edit inside a statement that is itself edited)
    done_lines = set()
    n = 0
    for st, a0, name in sorted(edits, key=lambda e: (e[0].lineno, e[1].col_offset), reverse=True):
        span = set(range(st.lineno, st.end_lineno + 1))
        if span & done_lines:
            continue
        seg = ast.get_source_segment(src, a0)
        if seg is None:
            continue
        indent = lines[st.lineno - 1][:len(lines[st.lineno - 1]) - len(lines[st.lineno - 1].lstrip())]
        # replace the argument text (may span lines) by the temp name
        sl, sc, el, ec = a0.lineno - 1, a0.col_offset, a0.end_lineno - 1, a0.end_col_offset
        first = lines[sl].encode("utf-8")
        last = lines[el].encode("utf-8")
        new_line = (first[:sc] + name.encode() + last[ec:]).decode("utf-8")
        lines[sl:el + 1] = [new_line]
        seg1 = " ".join(x.strip() for x in seg.split("\n"))
        lines.insert(st.lineno - 1, f"{indent}{name} = {seg1}")
        done_lines |= span
        n += 1
    new_src = "\n".join(lines)
    try:
        compile(new_src, path, "exec")
    except SyntaxError:
        return 0
    open(path, "w", encoding="utf-8").write(new_src)
    return n


def main():
    only = sys.argv[sys.argv.index("--only") + 1] if "--only" in sys.argv else None
    d = tempfile.mkdtemp(prefix="hoist-")
    try:
        shutil.copytree(os.path.join(core.REPO, core.PKG), os.path.join(d, core.PKG), ignore=shutil.ignore_patterns("__pycache__"))
        n = 0
        for root, _dirs, files in os.walk(os.path.join(d, core.PKG)):
            for f in files:
                p = os.path.join(root, f)
                if f.endswith(".py") and (only is None or only in p):
                    for _pass in range(int(sys.argv[sys.argv.index("--passes") + 1]) if "--passes" in sys.argv else 1):
                        n += hoist_file(p, _pass)
        print("hoisted arguments:", n, flush=True)
        if "--keep" in sys.argv:
            print(d)
        env = dict(os.environ, VERIF_REPO=d, VERIF_NOEVID="1")
        props = sys.argv[sys.argv.index("--props") + 1].split(",") if "--props" in sys.argv else [f"C{i:02d}" for i in range(1, 21)]
        bad = 0
        for P in props:
            r = subprocess.run(["/verif/check", P], env=env, capture_output=True, text=True)
            print(r.stdout.strip().split("\n")[-1][:150], flush=True)
            if r.returncode != 0:
                bad += 1
                for l in r.stdout.split("\n"):
                    if l.startswith(("  R-", "ANALYSIS-ERROR")):
                        print("   ", l[:int(os.environ.get("ALPHA_W", "300"))])
        print("checks not silent:", bad)
    finally:
        if "--keep" not in sys.argv:
            shutil.rmtree(d, ignore_errors=True)


if __name__ == "__main__":
    main()
