#!/bin/sh
# usage: tools/mut.sh <file-rel> <python-regex-old> <new> <PROP>...   -- one-off mutation on a scratch copy
set -e
D=$(mktemp -d /tmp/mut.XXXXXX)
mkdir -p $D/jaxley; cp -r /repo/jaxley/. $D/jaxley/
F=$1; OLD=$2; NEW=$3; shift 3
/venv/bin/python - "$D/$F" "$OLD" "$NEW" <<'PY'
import sys,re
p,old,new=sys.argv[1:4]
s=open(p).read()
assert old in s, "pattern not found"
s=s.replace(old,new,1)
open(p,'w').write(s)
PY
cd /verif
for P in "$@"; do VERIF_REPO=$D VERIF_NOEVID=1 ./check $P | grep -E "VIOLATION|ANALYSIS-ERROR|^\[|^  R-" | cut -c1-330; done
rm -rf $D
