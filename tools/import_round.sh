#!/bin/sh
# usage: tools/import_round.sh <Cxx> <worktree> <m-a> <m-b> <p-a> <p-b>   e.g.  C04 /tmp/wt4/C04d m7 m8 p5 p6
C=$1; W=$2
i=0
for pair in m1:$3 m2:$4 p1:$5 p2:$6; do a=${pair%%:*}; b=${pair##*:}; rm -rf /verif/seeded/$C-$b; cp -r $W/seeded/$a /verif/seeded/$C-$b; done
/venv/bin/python /verif/tools/seed_matrix.py $C-$3 $C-$4 $C-$5 $C-$6 2>&1 | tail -4
