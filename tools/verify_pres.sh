#!/bin/sh
# usage: tools/verify_pres.sh <Cxx> [n] [p1 p2 | p3 p4 ...]  -- applies the named preserving patches together in a scratch
# worktree of /repo and runs the baseline
P=$1; N=${2:-8}; shift; shift 2>/dev/null
KS=${*:-"p1 p2"}
TAG=$(echo $KS | tr ' ' '+')
W=/tmp/wtv/$P-pres
rm -rf $W; mkdir -p /tmp/wtv
git -C /repo worktree add --detach $W HEAD -q || exit 3
cd $W
AP=""
for k in $KS; do
  if [ -f /verif/seeded/$P-$k/patch.diff ]; then
    if git apply /verif/seeded/$P-$k/patch.diff 2>/dev/null; then AP="$AP $k=git"; elif patch -p1 -s < /verif/seeded/$P-$k/patch.diff; then AP="$AP $k=patch"; else AP="$AP $k=FAILED"; fi
  fi
done
/root/work/run_baseline.sh $W /tmp/wtv/$P-pres.base $N > /tmp/wtv/$P-pres.base.out 2>&1
BASE=$(tail -1 /tmp/wtv/$P-pres.base.out)
cd /; git -C /repo worktree remove --force $W
echo "$P-$TAG apply=[$AP ] baseline=[$BASE]"
