#!/venv/bin/python
"""Mutation score of the static checks (development aid, nothing registered depends on it).

For property P: the functions in which P's check raises at least one obligation are mutated, one syntactic edit at a time
(operator swaps, comparison boundaries, +-1 on integer constants, swapped call arguments, .add <-> .set, pre <-> post,
sink <-> source, first <-> last, dropped `not`, dropped statement).  Every mutant is checked with P's quick check (in
process, on a scratch copy).  Survivors are listed: they are either equivalent / irrelevant to P, or blind spots.

usage: tools/mutscore.py C07 [C08 ...] [--max N]      -> out/mutscore/<P>.json, summary on stdout
"""
import ast
import json
import os
import random
import shutil
import sys
import tempfile
from multiprocessing import Pool

sys.path.insert(0, "/verif")
from sa import core  # noqa: E402

SWAP_NAMES = [("pre", "post"), ("sink", "source"), ("first", "last"), ("lower", "upper"), ("parent", "child"), ("min", "max")]


def functions_with_obligations(prop):
    from rules import common
    repo = core.Repo(core.REPO)
    col = core.Collector(prop)
    try:
        common.run_all(prop, repo, col, "quick")
    except core.AnalysisError:
        pass
    out = {}
    for o in col.obs:
        if o.file and o.func:
            out.setdefault((o.file, o.func.split(".<locals>")[0]), 0)
            out[(o.file, o.func.split(".<locals>")[0])] += 1
    return repo, out


def seg(src_lines, node):
    """(start offset, end offset) of node in the file text"""
    def off(line, col):
        return sum(len(l) + 1 for l in src_lines[:line - 1]) + len(src_lines[line - 1].encode("utf-8")[:col].decode("utf-8", "ignore"))
    return off(node.lineno, node.col_offset), off(node.end_lineno, node.end_col_offset)


def mutants_of(repo, file, qual):
    fi = None
    for f in repo.all_functions():
        if f.file == file and f.qual == qual:
            fi = f
    if fi is None:
        return []
    path = os.path.join(core.REPO, file)
    src = open(path, encoding="utf-8").read()
    lines = src.split("\n")
    out = []

    def add(node, new_text, what):
        a, b = seg(lines, node)
        out.append({"file": file, "func": qual, "a": a, "b": b, "new": new_text, "what": what, "line": node.lineno,
                    "old": src[a:b][:80]})

    doc = ast.get_docstring(fi.node, clean=False)
    for n in ast.walk(fi.node):
        if isinstance(n, ast.BinOp):
            ops = {ast.Add: "-", ast.Sub: "+", ast.Mult: "/", ast.Div: "*"}
            if type(n.op) in ops and not (isinstance(n.left, ast.Constant) and isinstance(n.left.value, str)):
                l, r = ast.get_source_segment(src, n.left), ast.get_source_segment(src, n.right)
                if l and r:
                    add(n, f"({l} {ops[type(n.op)]} {r})", f"binop {type(n.op).__name__}")
        elif isinstance(n, ast.Compare) and len(n.ops) == 1:
            ops = {ast.Lt: "<=", ast.LtE: "<", ast.Gt: ">=", ast.GtE: ">", ast.Eq: "!=", ast.NotEq: "==", ast.In: "not in", ast.NotIn: "in",
                   ast.Is: "is not", ast.IsNot: "is"}
            if type(n.ops[0]) in ops:
                l, r = ast.get_source_segment(src, n.left), ast.get_source_segment(src, n.comparators[0])
                if l and r:
                    add(n, f"({l} {ops[type(n.ops[0])]} {r})", f"compare {type(n.ops[0]).__name__}")
        elif isinstance(n, ast.Constant) and isinstance(n.value, int) and not isinstance(n.value, bool) and abs(n.value) <= 5:
            add(n, str(n.value + 1), "const+1")
        elif isinstance(n, ast.Constant) and isinstance(n.value, bool):
            add(n, str(not n.value), "bool flip")
        elif isinstance(n, ast.Call):
            if len(n.args) >= 2 and not any(isinstance(a_, ast.Starred) for a_ in n.args):
                a0, a1 = ast.get_source_segment(src, n.args[0]), ast.get_source_segment(src, n.args[1])
                if a0 and a1 and a0 != a1:
                    s0, e0 = seg(lines, n.args[0])
                    s1, e1 = seg(lines, n.args[1])
                    A, B = seg(lines, n)
                    new = src[A:s0] + a1 + src[e0:s1] + a0 + src[e1:B]
                    add(n, new, "swap args 0,1")
            if isinstance(n.func, ast.Attribute) and n.func.attr in ("add", "set") and isinstance(n.func.value, ast.Subscript):
                A, B = seg(lines, n.func)
                base = ast.get_source_segment(src, n.func.value)
                out.append({"file": file, "func": qual, "a": A, "b": B, "new": base + "." + ("set" if n.func.attr == "add" else "add"),
                            "what": ".add<->.set", "line": n.lineno, "old": src[A:B][:80]})
        elif isinstance(n, ast.UnaryOp) and isinstance(n.op, (ast.Not, ast.Invert)):
            o = ast.get_source_segment(src, n.operand)
            if o:
                add(n, f"({o})", "drop not/~")
        elif isinstance(n, ast.Name) and isinstance(n.ctx, ast.Load):
            for x, y in SWAP_NAMES:
                for p_, q_ in ((x, y), (y, x)):
                    if p_ in n.id.split("_") and n.id.replace(p_, q_) != n.id:
                        add(n, n.id.replace(p_, q_), f"name {p_}->{q_}")
                        break
        elif isinstance(n, ast.Constant) and isinstance(n.value, str) and n.value != doc:
            for x, y in SWAP_NAMES[:2]:
                for p_, q_ in ((x, y), (y, x)):
                    if p_ in n.value.split("_") and " " not in n.value:
                        add(n, repr(n.value.replace(p_, q_)), f"str {p_}->{q_}")
                        break
    # dropped statements (simple ones)
    for n in ast.walk(fi.node):
        if isinstance(n, (ast.Assign, ast.AugAssign, ast.Expr)) and n is not fi.node.body[0] if fi.node.body else True:
            if isinstance(n, ast.Expr) and isinstance(n.value, ast.Constant):
                continue
            if isinstance(n, ast.Assign) and isinstance(n.targets[0], ast.Name):
                continue  # dropping a definition only produces NameErrors
            add(n, "pass", "drop stmt")
    return out


def run_one(args):
    prop, m = args
    d = tempfile.mkdtemp(prefix="mutscore-")
    try:
        shutil.copytree(os.path.join(core.REPO, core.PKG), os.path.join(d, core.PKG), ignore=shutil.ignore_patterns("__pycache__"))
        path = os.path.join(d, m["file"])
        src = open(path, encoding="utf-8").read()
        new = src[:m["a"]] + m["new"] + src[m["b"]:]
        try:
            compile(new, path, "exec")
        except SyntaxError:
            return dict(m, status="syntax")
        open(path, "w", encoding="utf-8").write(new)
        from rules import common
        col = core.Collector(prop)
        err = None
        try:
            common.run_all(prop, core.Repo(d), col, "quick")
        except core.AnalysisError as e:
            err = str(e)
        except Exception as e:
            err = f"crash {type(e).__name__}: {e}"
        known = {(k["property"], k["rule"], k["file"], k["function"], k["construct"]) for k in core.load_known()
                 if k.get("property") == prop and k.get("status") == "known"}
        viol = [o for o in col.obs if o.status == core.VIOLATED and o.key(prop) not in known]
        und = [o for o in col.obs if o.status == core.UNDECIDED]
        st = "detected" if viol else ("undecided" if (err or und) else "survived")
        return dict(m, status=st, rules=sorted({o.rule for o in viol})[:3])
    finally:
        shutil.rmtree(d, ignore_errors=True)


ALLP = [f"C{i:02d}" for i in range(1, 21)]


def run_all_props(m):
    """one mutant against all 20 checks (one parse of the scratch copy)"""
    d = tempfile.mkdtemp(prefix="mutscore-")
    try:
        shutil.copytree(os.path.join(core.REPO, core.PKG), os.path.join(d, core.PKG), ignore=shutil.ignore_patterns("__pycache__"))
        path = os.path.join(d, m["file"])
        src = open(path, encoding="utf-8").read()
        new = src[:m["a"]] + m["new"] + src[m["b"]:]
        try:
            compile(new, path, "exec")
        except SyntaxError:
            return dict(m, status="syntax")
        open(path, "w", encoding="utf-8").write(new)
        from rules import common
        hit, und = {}, []
        repo = core.Repo(d)
        for prop in ALLP:
            col = core.Collector(prop)
            err = None
            try:
                common.run_all(prop, repo, col, "quick")
            except core.AnalysisError as e:
                err = str(e)
            except Exception as e:
                err = f"crash {type(e).__name__}: {e}"
            known = {(k["property"], k["rule"], k["file"], k["function"], k["construct"]) for k in core.load_known()
                     if k.get("property") == prop and k.get("status") == "known"}
            viol = [o for o in col.obs if o.status == core.VIOLATED and o.key(prop) not in known]
            if viol:
                hit[prop] = sorted({o.rule for o in viol})[:2]
            elif err or any(o.status == core.UNDECIDED for o in col.obs):
                und.append(prop)
        st = "detected" if hit else ("undecided" if und else "survived")
        return dict(m, status=st, hit=hit, undecided=und)
    finally:
        shutil.rmtree(d, ignore_errors=True)


def main_all(mx):
    funcs = {}
    repo = None
    for prop in ALLP:
        repo, f = functions_with_obligations(prop)
        for k, v in f.items():
            funcs.setdefault(k, set()).add(prop)
    ms = []
    for (file, qual), props in sorted(funcs.items()):
        for m in mutants_of(repo, file, qual):
            m["props"] = sorted(props)
            ms.append(m)
    random.Random(0).shuffle(ms)
    ms = ms[:mx]
    print("functions", len(funcs), "mutants", len(ms), flush=True)
    with Pool(int(os.environ.get("MUTSCORE_JOBS", "12"))) as pool:
        res = pool.map(run_all_props, ms, chunksize=4)
    res = [r for r in res if r["status"] != "syntax"]
    cnt = {}
    for r in res:
        cnt[r["status"]] = cnt.get(r["status"], 0) + 1
    json.dump(res, open("/verif/out/mutscore/ALL.json", "w"), indent=1)
    print("ALL", cnt)


def main():
    if "--all" in sys.argv:
        mx = 100000
        if "--max" in sys.argv:
            mx = int(sys.argv[sys.argv.index("--max") + 1])
        os.makedirs("/verif/out/mutscore", exist_ok=True)
        return main_all(mx)
    argv = sys.argv[1:]
    mx = 400
    if "--max" in argv:
        i = argv.index("--max")
        mx = int(argv[i + 1])
        argv = argv[:i] + argv[i + 2:]
    args = [a for a in argv if not a.startswith("--")]
    os.makedirs("/verif/out/mutscore", exist_ok=True)
    for prop in args:
        repo, funcs = functions_with_obligations(prop)
        ms = []
        for (file, qual), _n in sorted(funcs.items()):
            ms += mutants_of(repo, file, qual)
        random.Random(0).shuffle(ms)
        ms = ms[:mx]
        with Pool(14) as pool:
            res = pool.map(run_one, [(prop, m) for m in ms])
        res = [r for r in res if r["status"] != "syntax"]
        cnt = {}
        for r in res:
            cnt[r["status"]] = cnt.get(r["status"], 0) + 1
        json.dump(res, open(f"/verif/out/mutscore/{prop}.json", "w"), indent=1)
        print(prop, "functions", len(funcs), "mutants", len(res), cnt)


if __name__ == "__main__":
    main()
