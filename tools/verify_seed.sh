#!/bin/sh
# usage: tools/verify_seed.sh <seeded-dir-name>
# Confirms in a scratch worktree: demo passes without the change, fails with it, baseline (117) passes with it.
S=$1
W=/tmp/wtv/$S
rm -rf $W; mkdir -p /tmp/wtv
git -C /repo worktree add --detach $W HEAD -q || exit 3
mkdir -p $W/seeded/x; cp /verif/seeded/$S/demo.py $W/seeded/x/demo.py
cd $W
JAX_PLATFORMS=cpu timeout 900 /venv/bin/python seeded/x/demo.py > /tmp/wtv/$S.clean.log 2>&1; RC_CLEAN=$?
if git apply /verif/seeded/$S/patch.diff 2>/dev/null; then AP=git; elif patch -p1 -s < /verif/seeded/$S/patch.diff; then AP=patch; else AP=FAILED; fi
JAX_PLATFORMS=cpu timeout 900 /venv/bin/python seeded/x/demo.py > /tmp/wtv/$S.mut.log 2>&1; RC_MUT=$?
rm -rf $W/seeded
/root/work/run_baseline.sh $W /tmp/wtv/$S.base ${2:-8} > /tmp/wtv/$S.base.out 2>&1
BASE=$(tail -1 /tmp/wtv/$S.base.out)
cd /; git -C /repo worktree remove --force $W
echo "$S apply=$AP demo_clean_rc=$RC_CLEAN demo_mut_rc=$RC_MUT baseline=[$BASE]"
