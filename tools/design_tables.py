#!/venv/bin/python
"""Refresh the seeded-change tables of DESIGN.md (between the SEEDED-TABLES markers) from tools/seed_table.py."""
import re
import subprocess

out = subprocess.run(["/venv/bin/python", "/verif/tools/seed_table.py"], capture_output=True, text=True, check=True).stdout
p = "/verif/DESIGN.md"
s = open(p).read()
b, e = "<!-- SEEDED-TABLES-BEGIN -->", "<!-- SEEDED-TABLES-END -->"
if b not in s:
    s = s.replace("SEEDED_TABLE_PLACEHOLDER", b + "\n" + e)
i, j = s.index(b) + len(b), s.index(e)
s = s[:i] + "\n" + out + s[j:]
open(p, "w").write(s)
print("tables refreshed:", out.count("\n"), "lines")
