#!/bin/sh
# usage: tools/seeded.sh <seeded-dir-name> <PROP>...  -- apply a stored mutant to a scratch copy and run checks
D=$(mktemp -d /tmp/seed.XXXXXX)
mkdir -p $D; cp -r /repo/jaxley $D/jaxley
S=$1; shift
(cd $D && patch -p1 -s < /verif/seeded/$S/patch.diff) || { echo "PATCH-FAILED $S"; rm -rf $D; exit 3; }
cd /verif
for P in "$@"; do VERIF_REPO=$D VERIF_NOEVID=1 ./check $P | grep -E "VIOLATION|ANALYSIS-ERROR|^\[|^  R-" | cut -c1-360; done
rm -rf $D
