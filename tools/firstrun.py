#!/usr/bin/env python3
"""usage: tools/firstrun.py <Cxx> <round> <m-a> <m-b> <p-a> <p-b>  -- record the verdicts of the checks AS THEY ARE NOW for freshly
imported seeded changes (seeded/MATRIX.json, written by import_round.sh) in seeded/FIRSTRUN.json.  Never overwrites an entry."""
import json, sys
C, rnd = sys.argv[1], sys.argv[2]
M = json.load(open("/verif/seeded/MATRIX.json"))
F = json.load(open("/verif/seeded/FIRSTRUN.json"))
for n in sys.argv[3:]:
    k = f"{C}-{n}"
    if k in F:
        print("kept", k, F[k]); continue
    r = M[k]
    own = r[C]
    others = {p: v for p, v in r.items() if p != C and v[0] != 0}
    hit = {p: v for p, v in others.items() if v[0] == 1}
    ex2 = sorted(p for p, v in others.items() if v[0] == 2)
    if n.startswith("m"):
        if own[0] == 1:
            s = f"round {rnd}: caught ({', '.join(own[1])}" + (f"; also {', '.join(p + ' ' + ', '.join(v[1]) for p, v in sorted(hit.items()))}" if hit else "") + ")"
        elif hit:
            s = f"round {rnd}: missed by {C}" + (" (exit 2)" if own[0] == 2 else "") + f" (caught by {', '.join(p + ' ' + ', '.join(v[1]) for p, v in sorted(hit.items()))})"
        elif own[0] == 2 or ex2:
            s = f"round {rnd}: no verdict (exit 2, undecided) in {', '.join(sorted(([C] if own[0] == 2 else []) + ex2))}; silent elsewhere"
        else:
            s = f"round {rnd}: MISSED by all 20 checks"
    else:
        fa = sorted(([C] if own[0] == 1 else []) + list(hit))
        e2 = sorted(([C] if own[0] == 2 else []) + ex2)
        if fa:
            rules = sorted({x for p in fa for x in r[p][1]})
            s = f"round {rnd} preserving: FALSE ALARM from {', '.join(fa)} ({', '.join(rules)})" + (f"; exit 2 in {', '.join(e2)}" if e2 else "")
        elif e2:
            s = f"round {rnd} preserving: exit 2 (undecided) in {', '.join(e2)}"
        else:
            s = f"round {rnd} preserving: silent"
    F[k] = s
    print(k, "|", s)
json.dump(F, open("/verif/seeded/FIRSTRUN.json", "w"), indent=1, sort_keys=True)
