#!/venv/bin/python
"""Run every quick check against every stored seeded change (each on its own scratch copy of /repo/jaxley)
and write seeded/MATRIX.json: {mutant: {property: [exit, [rules that fired]]}}.  Development aid only -
nothing registered in MANIFEST.json depends on it."""
import concurrent.futures as cf
import json
import os
import re
import shutil
import subprocess
import sys
import tempfile

V = "/verif"
PROPS = [f"C{i:02d}" for i in range(1, 21)]
COLS = os.environ.get("MATRIX_COLS", "").split(",") if os.environ.get("MATRIX_COLS") else None   # redo these columns only


def one(name):
    d = tempfile.mkdtemp(prefix="seedm.", dir="/tmp")
    try:
        shutil.copytree("/repo/jaxley", d + "/jaxley")
        r = subprocess.run(["patch", "-p1", "-s", "-i", f"{V}/seeded/{name}/patch.diff"], cwd=d, capture_output=True, text=True)
        if r.returncode:
            return name, {"_patch": r.stdout + r.stderr}
        res = {}
        for p in (COLS or PROPS):
            env = dict(os.environ, VERIF_REPO=d, VERIF_NOEVID="1")
            out = subprocess.run([f"{V}/check", p], cwd=V, env=env, capture_output=True, text=True)
            rules = sorted(set(re.findall(r"^  (R-[\w-]+)", out.stdout, re.M)))
            res[p] = [out.returncode, rules]
        return name, res
    finally:
        shutil.rmtree(d, ignore_errors=True)


def main():
    names = sorted(n for n in os.listdir(f"{V}/seeded") if os.path.isfile(f"{V}/seeded/{n}/patch.diff"))
    if len(sys.argv) > 1:
        names = [n for n in names if n in sys.argv[1:]]
    M = {}
    path = f"{V}/seeded/MATRIX.json"
    if os.path.exists(path) and (len(sys.argv) > 1 or COLS):
        M = json.load(open(path))
    old = dict(M)
    with cf.ThreadPoolExecutor(int(os.environ.get('MATRIX_JOBS', '6'))) as ex:
        for name, res in ex.map(one, names):
            if COLS and name in old:
                res = dict(old[name], **res)
            M[name] = res
            own = name.split("-")[0]
            hits = {p: v for p, v in res.items() if p.startswith("C") and v[0] != 0}
            print(name, "own:", res.get(own), "others:", {p: v for p, v in hits.items() if p != own})
    if os.path.exists(path) and len(sys.argv) > 1 and not COLS:
        cur = json.load(open(path))      # merge with what a concurrent run may have written meanwhile
        cur.update({n: M[n] for n in names if n in M})
        M = cur
    json.dump(M, open(path, "w"), indent=1, sort_keys=True)


if __name__ == "__main__":
    main()
