#!/venv/bin/python
"""Development aid: behaviour-preserving stress tests done on the syntax tree (the package is re-generated with ast.unparse, so
formatting, comments and line numbers change as well).

  invert-if : `if c: A else: B`  ->  `if not (c): B else: A`   (every if with a non-empty else that is not an elif chain link)
  swap-mul  : `a * b` -> `b * a`                                 (numbers / arrays: commutative; sequence repetition too)
  reformat  : nothing but ast.unparse (formatting only)

usage: tools/ast_variants.py <mode> [--props C01,C02]"""
import ast, os, shutil, subprocess, sys, tempfile
sys.path.insert(0, "/verif")
from sa import core


class InvertIf(ast.NodeTransformer):
    n = 0

    def visit_If(self, node):
        self.generic_visit(node)
        if node.orelse and not (len(node.orelse) == 1 and isinstance(node.orelse[0], ast.If)):
            InvertIf.n += 1
            return ast.If(test=ast.UnaryOp(op=ast.Not(), operand=node.test), body=node.orelse, orelse=node.body)
        return node


class SwapMul(ast.NodeTransformer):
    n = 0

    def visit_BinOp(self, node):
        self.generic_visit(node)
        if isinstance(node.op, ast.Mult) and not any(isinstance(x, (ast.Call, ast.NamedExpr)) for s_ in (node.left, node.right) for x in ast.walk(s_)
                                                      if isinstance(x, ast.NamedExpr)):
            SwapMul.n += 1
            return ast.BinOp(left=node.right, op=node.op, right=node.left)
        return node


def transform(path, mode):
    src = open(path, encoding="utf-8").read()
    tree = ast.parse(src)
    if mode == "invert-if":
        tree = InvertIf().visit(tree)
    elif mode == "swap-mul":
        tree = SwapMul().visit(tree)
    ast.fix_missing_locations(tree)
    new = ast.unparse(tree)
    head = "\n".join(l for l in src.split("\n")[:3] if l.startswith("#"))
    new = head + "\n" + new + "\n"
    compile(new, path, "exec")
    open(path, "w", encoding="utf-8").write(new)


def apply(dst, mode):
    for root, _d, files in os.walk(os.path.join(dst, core.PKG)):
        for f in files:
            if f.endswith(".py"):
                transform(os.path.join(root, f), mode)
    return InvertIf.n + SwapMul.n


def main():
    mode = sys.argv[1]
    d = tempfile.mkdtemp(prefix="astv-")
    try:
        shutil.copytree(os.path.join(core.REPO, core.PKG), os.path.join(d, core.PKG), ignore=shutil.ignore_patterns("__pycache__"))
        n = apply(d, mode)
        print(mode, "sites:", n, flush=True)
        env = dict(os.environ, VERIF_REPO=d, VERIF_NOEVID="1")
        props = sys.argv[sys.argv.index("--props") + 1].split(",") if "--props" in sys.argv else [f"C{i:02d}" for i in range(1, 21)]
        bad = 0
        for P in props:
            r = subprocess.run(["/verif/check", P], env=env, capture_output=True, text=True)
            print(r.stdout.strip().split("\n")[-1][:150], flush=True)
            if r.returncode != 0:
                bad += 1
                for l in r.stdout.split("\n"):
                    if l.startswith(("  R-", "ANALYSIS-ERROR")):
                        print("   ", l[:int(os.environ.get("ALPHA_W", "300"))])
        print("checks not silent:", bad)
    finally:
        if "--keep" in sys.argv:
            print("kept:", d)
        else:
            shutil.rmtree(d, ignore_errors=True)




# ---- inline-temp: `x = E` immediately followed by a statement that uses x exactly once (and x is used nowhere else in the function)
#      -> the use is replaced by (E) and the assignment removed.  Adjacent statements: the order of evaluation cannot change except
#      within the consuming statement, so only uses that are evaluated FIRST in it are inlined conservatively: the use must be the
#      first Name/Call/Subscript evaluated -- approximated by requiring that no Call precedes it in source order.
class InlineTemp(ast.NodeTransformer):
    n = 0

    def visit_FunctionDef(self, node):
        self.generic_visit(node)
        loads = {}
        stores = {}
        for x in ast.walk(node):
            if isinstance(x, ast.Name):
                (loads if isinstance(x.ctx, ast.Load) else stores).setdefault(x.id, []).append(x)
        params = {a.arg for a in ast.walk(node.args) if isinstance(a, ast.arg)}

        def process(stmts):
            i = 0
            while i + 1 < len(stmts):
                a, b = stmts[i], stmts[i + 1]
                if isinstance(a, ast.Assign) and len(a.targets) == 1 and isinstance(a.targets[0], ast.Name):
                    nm = a.targets[0].id
                    uses_in_b = [x for x in ast.walk(b) if isinstance(x, ast.Name) and x.id == nm and isinstance(x.ctx, ast.Load)]
                    simple_b = isinstance(b, (ast.Assign, ast.Return, ast.Expr, ast.AugAssign))
                    if nm not in params and len(stores.get(nm, [])) == 1 and len(loads.get(nm, [])) == 1 and len(uses_in_b) == 1 and simple_b \
                            and not any(isinstance(x, (ast.Lambda, ast.ListComp, ast.GeneratorExp, ast.DictComp, ast.SetComp)) for x in ast.walk(b)) \
                            and not any(isinstance(x, (ast.Lambda, ast.NamedExpr, ast.Yield, ast.Await, ast.Starred)) for x in ast.walk(a.value)):
                        use = uses_in_b[0]
                        # nothing with an effect is evaluated in b before the use
                        before = [x for x in ast.walk(b) if isinstance(x, ast.Call) and (x.lineno, x.col_offset) < (use.lineno, use.col_offset)
                                  and not any(y is use for y in ast.walk(x))]
                        if not before:
                            class Sub(ast.NodeTransformer):
                                def visit_Name(self_, n_):
                                    return a.value if n_ is use else n_
                            stmts[i + 1] = Sub().visit(b)
                            del stmts[i]
                            InlineTemp.n += 1
                            continue
                i += 1
            for st in stmts:
                for fld in ("body", "orelse", "finalbody"):
                    sub = getattr(st, fld, None)
                    if isinstance(sub, list) and sub and isinstance(sub[0], ast.stmt) and not isinstance(st, (ast.FunctionDef, ast.ClassDef)):
                        process(sub)
        process(node.body)
        return node


_old_transform = transform


def transform(path, mode):   # noqa: F811
    if mode != "inline-temp":
        return _old_transform(path, mode)
    src = open(path, encoding="utf-8").read()
    tree = InlineTemp().visit(ast.parse(src))
    ast.fix_missing_locations(tree)
    new = "\n".join(l for l in src.split("\n")[:3] if l.startswith("#")) + "\n" + ast.unparse(tree) + "\n"
    compile(new, path, "exec")
    open(path, "w", encoding="utf-8").write(new)


_old_apply = apply


def apply(dst, mode):   # noqa: F811
    r = _old_apply(dst, mode)
    return r + InlineTemp.n




# ---- kwargs: f(a, b, c) -> f(p0=a, p1=b, p2=c) for calls of module-level functions of the package whose signature is known
#      (no *args in the signature, no starred argument at the call); evaluation order of the arguments is unchanged.
def _kwargs_apply(dst):
    repo = core.Repo(dst)
    n = 0
    for rel, mi in repo.mods.items():
        path = os.path.join(dst, rel)
        src = open(path, encoding="utf-8").read()
        tree = ast.parse(src)
        changed = False
        for c in ast.walk(tree):
            if isinstance(c, ast.Call) and isinstance(c.func, ast.Name) and c.args and not any(isinstance(a, ast.Starred) for a in c.args) \
                    and not any(k.arg is None for k in c.keywords):
                r = repo.resolve_name(mi, c.func.id)
                if not isinstance(r, core.FuncInfo) or r.cls is not None:
                    continue
                fa = r.node.args
                if fa.vararg is not None or fa.posonlyargs or r.node.decorator_list:
                    continue
                names = [a.arg for a in fa.args]
                if len(c.args) > len(names):
                    continue
                c.keywords = [ast.keyword(arg=names[i], value=a) for i, a in enumerate(c.args)] + c.keywords
                c.args = []
                n += 1
                changed = True
        if changed:
            ast.fix_missing_locations(tree)
            new = "\n".join(l for l in src.split("\n")[:3] if l.startswith("#")) + "\n" + ast.unparse(tree) + "\n"
            compile(new, path, "exec")
            open(path, "w", encoding="utf-8").write(new)
    return n


_old_apply2 = apply


def apply(dst, mode):   # noqa: F811
    if mode == "kwargs":
        return _kwargs_apply(dst)
    return _old_apply2(dst, mode)


# ---- comp-to-loop: `name = [E for t in it if c]`  ->  `name = []` + `for t in it: if c: name.append(E)`  (and the dict form with
#      `name[K] = V`) for comprehensions with ONE generator that are the whole right-hand side of an assignment to one local name.
#      Safe only if the loop variables are used nowhere else in the function (a comprehension does not leak them, a loop does), the
#      comprehension contains no lambda / nested comprehension using the loop variable late, and `name` does not occur in it.
class CompToLoop(ast.NodeTransformer):
    n = 0

    def _fn(self, node):
        self.generic_visit(node)
        names_all = [x.id for x in ast.walk(node) if isinstance(x, ast.Name)]
        new_body = self._block(node.body, names_all)
        node.body = new_body
        return node

    visit_FunctionDef = _fn

    def _block(self, body, names_all):
        out = []
        for st in body:
            for fld in ("body", "orelse", "finalbody"):
                if isinstance(getattr(st, fld, None), list) and not isinstance(st, (ast.FunctionDef, ast.ClassDef, ast.AsyncFunctionDef)):
                    setattr(st, fld, self._block(getattr(st, fld), names_all) or getattr(st, fld))
            rep = self._rewrite(st, names_all)
            out += rep if rep else [st]
        return out

    def _unconditional_comps(self, e):
        """comprehensions inside expression e that are evaluated exactly once whenever e is evaluated"""
        out = []

        def walk(x):
            if isinstance(x, (ast.ListComp, ast.DictComp)):
                out.append(x)
                return
            if isinstance(x, (ast.Lambda, ast.IfExp, ast.BoolOp, ast.SetComp, ast.GeneratorExp, ast.NamedExpr, ast.Compare)):
                return
            for c in ast.iter_child_nodes(x):
                walk(c)
        walk(e)
        return out

    def _rewrite(self, st, names_all):
        direct = isinstance(st, ast.Assign) and len(st.targets) == 1 and isinstance(st.targets[0], ast.Name) \
            and isinstance(st.value, (ast.ListComp, ast.DictComp)) and len(st.value.generators) == 1
        if not direct:
            # a comprehension that is an operand of the statement's expression: hoisted into a fresh accumulator in front of it
            if not (isinstance(st, (ast.Assign, ast.Return, ast.Expr, ast.AugAssign)) and getattr(st, "value", None) is not None):
                return None
            comps = self._unconditional_comps(st.value)
            if len(comps) != 1 or len(comps[0].generators) != 1:
                return None
            # nothing with an effect may be evaluated before the comprehension in this statement: require that every Call that
            # precedes it in source order is an attribute lookup chain only (np.asarray, jnp.concatenate) -- approximated by: the
            # comprehension is the first comprehension / call argument evaluated (no other Call node starts before it)
            c0 = comps[0]
            earlier = [x for x in ast.walk(st.value) if isinstance(x, ast.Call) and (x.lineno, x.col_offset) < (c0.lineno, c0.col_offset)
                       and not any(y is c0 for y in ast.walk(x))]
            if earlier:
                return None
            name = f"_acc{CompToLoop.n}"
            if name in names_all:
                return None
            fake = ast.Assign(targets=[ast.Name(id=name, ctx=ast.Store())], value=c0)
            rep = self._rewrite(fake, names_all + [name])
            if not rep:
                return None

            class _Sub(ast.NodeTransformer):
                def visit_ListComp(self_, n_):
                    return ast.Name(id=name, ctx=ast.Load()) if n_ is c0 else n_
                visit_DictComp = visit_ListComp
            st.value = _Sub().visit(st.value)
            return rep + [st]
        comp, gen, name = st.value, st.value.generators[0], st.targets[0].id
        if gen.is_async or any(isinstance(x, (ast.Lambda, ast.ListComp, ast.DictComp, ast.SetComp, ast.GeneratorExp, ast.NamedExpr, ast.Yield, ast.Await))
                               for x in ast.walk(comp) if x is not comp):
            return None
        tvars = [x.id for x in ast.walk(gen.target) if isinstance(x, ast.Name)]
        inside = [x.id for x in ast.walk(comp) if isinstance(x, ast.Name)]
        if name in inside or any(names_all.count(v) != inside.count(v) for v in tvars):
            return None
        if isinstance(comp, ast.ListComp):
            init = ast.Assign(targets=[ast.Name(id=name, ctx=ast.Store())], value=ast.List(elts=[], ctx=ast.Load()))
            inner = ast.Expr(value=ast.Call(func=ast.Attribute(value=ast.Name(id=name, ctx=ast.Load()), attr="append", ctx=ast.Load()), args=[comp.elt], keywords=[]))
        else:
            init = ast.Assign(targets=[ast.Name(id=name, ctx=ast.Store())], value=ast.Dict(keys=[], values=[]))
            inner = ast.Assign(targets=[ast.Subscript(value=ast.Name(id=name, ctx=ast.Load()), slice=comp.key, ctx=ast.Store())], value=comp.value)
        body = [inner]
        for c in reversed(gen.ifs):
            body = [ast.If(test=c, body=body, orelse=[])]
        loop = ast.For(target=gen.target, iter=gen.iter, body=body, orelse=[])
        CompToLoop.n += 1
        return [init, loop]


def _comp_apply(dst):
    CompToLoop.n = 0
    for root, _d, files in os.walk(os.path.join(dst, core.PKG)):
        for f in files:
            if f.endswith(".py"):
                path = os.path.join(root, f)
                src = open(path, encoding="utf-8").read()
                tree = CompToLoop().visit(ast.parse(src))
                ast.fix_missing_locations(tree)
                new = "\n".join(l for l in src.split("\n")[:3] if l.startswith("#")) + "\n" + ast.unparse(tree) + "\n"
                compile(new, path, "exec")
                open(path, "w", encoding="utf-8").write(new)
    return CompToLoop.n


# ---- default-if:  `if c: x = A` / `else: x = B`  (single assignments to the same plain name, B a constant or a plain name other than x,
#      c not reading x)  ->  `x = B` / `if c: x = A`.   early-continue: a loop body that ENDS with `if c: A else: B`  ->
#      `if c: A; continue` followed by B (nothing follows in the body, and the loop has no else clause that could see a break).
class DefaultIf(ast.NodeTransformer):
    n = 0

    def visit_If(self, node):
        self.generic_visit(node)
        if len(node.body) == 1 and len(node.orelse) == 1 and all(isinstance(b, ast.Assign) and len(b.targets) == 1 and isinstance(b.targets[0], ast.Name)
                                                                  for b in (node.body[0], node.orelse[0])):
            a, b = node.body[0], node.orelse[0]
            x = a.targets[0].id
            if b.targets[0].id == x and (isinstance(b.value, ast.Constant) or (isinstance(b.value, ast.Name) and b.value.id != x)) and \
                    not any(isinstance(y, ast.Name) and y.id == x for y in ast.walk(node.test)) and \
                    not any(isinstance(y, ast.Name) and y.id == x for y in ast.walk(a.value)):
                DefaultIf.n += 1
                return [b, ast.If(test=node.test, body=[a], orelse=[])]
        return node


class EarlyContinue(ast.NodeTransformer):
    n = 0

    def visit_For(self, node):
        self.generic_visit(node)
        last = node.body[-1] if node.body else None
        if isinstance(last, ast.If) and last.orelse and not node.orelse and not (len(last.orelse) == 1 and isinstance(last.orelse[0], ast.If)) and \
                not any(isinstance(y, (ast.Break, ast.Continue, ast.Return)) for st in last.body + last.orelse for y in ast.walk(st)):
            EarlyContinue.n += 1
            node.body = node.body[:-1] + [ast.If(test=last.test, body=last.body + [ast.Continue()], orelse=[])] + last.orelse
        return node


def _simple_apply(dst, cls):
    cls.n = 0
    for root, _d, files in os.walk(os.path.join(dst, core.PKG)):
        for f in files:
            if f.endswith(".py"):
                path = os.path.join(root, f)
                src = open(path, encoding="utf-8").read()
                tree = cls().visit(ast.parse(src))
                ast.fix_missing_locations(tree)
                new = "\n".join(l for l in src.split("\n")[:3] if l.startswith("#")) + "\n" + ast.unparse(tree) + "\n"
                compile(new, path, "exec")
                open(path, "w", encoding="utf-8").write(new)
    return cls.n


# ---- extract-helper: `x = E` (E a call / arithmetic / subscript expression over locals)  ->
#          def _hN(a, b): return E
#          x = _hN(a, b)
#      with a, b the local names E reads (parameters and assigned locals of the enclosing function, in order of appearance).  The helper
#      is defined right in front of the statement, takes everything it reads as arguments and has no effect: behaviour preserving.
class ExtractHelper(ast.NodeTransformer):
    n = 0
    every = 3

    def visit_FunctionDef(self, node):
        self.generic_visit(node)
        a = node.args
        locals_ = {x.arg for x in a.posonlyargs + a.args + a.kwonlyargs} | ({a.vararg.arg} if a.vararg else set()) | ({a.kwarg.arg} if a.kwarg else set())
        locals_ |= {x.id for x in ast.walk(node) if isinstance(x, ast.Name) and isinstance(x.ctx, ast.Store)}
        taken = {x.id for x in ast.walk(node) if isinstance(x, ast.Name)}
        node.body = self._block(node.body, locals_, taken)
        return node

    def _block(self, body, locals_, taken):
        out = []
        for st in body:
            for fld in ("body", "orelse", "finalbody"):
                if isinstance(getattr(st, fld, None), list) and not isinstance(st, (ast.FunctionDef, ast.ClassDef, ast.AsyncFunctionDef)):
                    setattr(st, fld, self._block(getattr(st, fld), locals_, taken))
            if isinstance(st, ast.Assign) and len(st.targets) == 1 and isinstance(st.targets[0], ast.Name) and \
                    isinstance(st.value, (ast.Call, ast.BinOp, ast.Subscript)) and \
                    not any(isinstance(x, (ast.Lambda, ast.Yield, ast.YieldFrom, ast.Await, ast.NamedExpr, ast.Starred, ast.ListComp, ast.DictComp, ast.SetComp,
                                           ast.GeneratorExp)) for x in ast.walk(st.value)) and \
                    not any(isinstance(x, ast.Call) and isinstance(x.func, ast.Name) and x.func.id in ("super", "locals", "vars") for x in ast.walk(st.value)):
                ExtractHelper.n += 1
                if ExtractHelper.n % ExtractHelper.every == 0:
                    reads = []
                    for x in ast.walk(st.value):
                        if isinstance(x, ast.Name) and isinstance(x.ctx, ast.Load) and x.id in locals_ and x.id not in reads:
                            reads.append(x.id)
                    name = f"_h{ExtractHelper.n}"
                    if name not in taken:
                        fn = ast.FunctionDef(name=name, args=ast.arguments(posonlyargs=[], args=[ast.arg(arg=r) for r in reads], kwonlyargs=[], kw_defaults=[], defaults=[]),
                                             body=[ast.Return(value=st.value)], decorator_list=[], type_params=[])
                        call = ast.Call(func=ast.Name(id=name, ctx=ast.Load()), args=[ast.Name(id=r, ctx=ast.Load()) for r in reads], keywords=[])
                        out += [fn, ast.Assign(targets=st.targets, value=call)]
                        continue
            out.append(st)
        return out


# ---- rows-alias: inside the methods of the module classes `self._nodes_in_view` -> `self.nodes.index.to_numpy()` and
#      `self._edges_in_view` -> `self.edges.index.to_numpy()` (loads only; not where the lists are defined: __init__, _init_view,
#      _set_inds_in_view, nor in functions that assign them).  A view's tables are cut out of the base's tables with exactly these labels
#      and a module's lists are read off its tables, so both spellings denote the same labels.
class RowsAlias(ast.NodeTransformer):
    n = 0
    SKIP = {"__init__", "_init_view", "_set_inds_in_view", "_update_view", "view"}

    def visit_ClassDef(self, node):
        if node.name not in ("Module", "Network", "Cell", "Branch", "Compartment"):
            return node
        for st in node.body:
            if isinstance(st, ast.FunctionDef) and st.name not in self.SKIP and \
                    not any(isinstance(x, ast.Attribute) and isinstance(x.ctx, ast.Store) and x.attr in ("_nodes_in_view", "_edges_in_view") for x in ast.walk(st)):
                self._fn(st)
        return node

    def _fn(self, fn):
        outer = self

        class R(ast.NodeTransformer):
            def visit_Attribute(self, x):
                self.generic_visit(x)
                if isinstance(x.ctx, ast.Load) and x.attr in ("_nodes_in_view", "_edges_in_view") and isinstance(x.value, ast.Name) and x.value.id == "self":
                    outer.__class__.n += 1
                    tbl = ast.Attribute(value=ast.Name(id="self", ctx=ast.Load()), attr="nodes" if x.attr == "_nodes_in_view" else "edges", ctx=ast.Load())
                    return ast.Call(func=ast.Attribute(value=ast.Attribute(value=tbl, attr="index", ctx=ast.Load()), attr="to_numpy", ctx=ast.Load()), args=[], keywords=[])
                return x
        fn.body = [R().visit(st) for st in fn.body]


_old_apply3 = apply


def apply(dst, mode):   # noqa: F811
    if mode == "comp-to-loop":
        return _comp_apply(dst)
    if mode == "extract-helper":
        ExtractHelper.n = 0
        n_ = _simple_apply(dst, ExtractHelper)
        return n_ // ExtractHelper.every
    if mode == "rows-alias":
        return _simple_apply(dst, RowsAlias)
    if mode == "default-if":
        return _simple_apply(dst, DefaultIf)
    if mode == "early-continue":
        return _simple_apply(dst, EarlyContinue)
    return _old_apply3(dst, mode)


if __name__ == "__main__":
    main()
