#!/venv/bin/python
"""Development aid: behaviour-preserving stress tests done on the syntax tree (the package is re-generated with ast.unparse, so
formatting, comments and line numbers change as well).

  invert-if : `if c: A else: B`  ->  `if not (c): B else: A`   (every if with a non-empty else that is not an elif chain link)
  swap-mul  : `a * b` -> `b * a`                                 (numbers / arrays: commutative; sequence repetition too)
  reformat  : nothing but ast.unparse (formatting only)

usage: tools/ast_variants.py <mode> [--props C01,C02]"""
import ast, os, shutil, subprocess, sys, tempfile
sys.path.insert(0, "/verif")
from sa import core


class InvertIf(ast.NodeTransformer):
    n = 0

    def visit_If(self, node):
        self.generic_visit(node)
        if node.orelse and not (len(node.orelse) == 1 and isinstance(node.orelse[0], ast.If)):
            InvertIf.n += 1
            return ast.If(test=ast.UnaryOp(op=ast.Not(), operand=node.test), body=node.orelse, orelse=node.body)
        return node


class SwapMul(ast.NodeTransformer):
    n = 0

    def visit_BinOp(self, node):
        self.generic_visit(node)
        if isinstance(node.op, ast.Mult) and not any(isinstance(x, (ast.Call, ast.NamedExpr)) for s_ in (node.left, node.right) for x in ast.walk(s_)
                                                      if isinstance(x, ast.NamedExpr)):
            SwapMul.n += 1
            return ast.BinOp(left=node.right, op=node.op, right=node.left)
        return node


def transform(path, mode):
    src = open(path, encoding="utf-8").read()
    tree = ast.parse(src)
    if mode == "invert-if":
        tree = InvertIf().visit(tree)
    elif mode == "swap-mul":
        tree = SwapMul().visit(tree)
    ast.fix_missing_locations(tree)
    new = ast.unparse(tree)
    head = "\n".join(l for l in src.split("\n")[:3] if l.startswith("#"))
    new = head + "\n" + new + "\n"
    compile(new, path, "exec")
    open(path, "w", encoding="utf-8").write(new)


def apply(dst, mode):
    for root, _d, files in os.walk(os.path.join(dst, core.PKG)):
        for f in files:
            if f.endswith(".py"):
                transform(os.path.join(root, f), mode)
    return InvertIf.n + SwapMul.n


def main():
    mode = sys.argv[1]
    d = tempfile.mkdtemp(prefix="astv-")
    try:
        shutil.copytree(os.path.join(core.REPO, core.PKG), os.path.join(d, core.PKG), ignore=shutil.ignore_patterns("__pycache__"))
        n = apply(d, mode)
        print(mode, "sites:", n, flush=True)
        env = dict(os.environ, VERIF_REPO=d, VERIF_NOEVID="1")
        props = sys.argv[sys.argv.index("--props") + 1].split(",") if "--props" in sys.argv else [f"C{i:02d}" for i in range(1, 21)]
        bad = 0
        for P in props:
            r = subprocess.run(["/verif/check", P], env=env, capture_output=True, text=True)
            print(r.stdout.strip().split("\n")[-1][:150], flush=True)
            if r.returncode != 0:
                bad += 1
                for l in r.stdout.split("\n"):
                    if l.startswith(("  R-", "ANALYSIS-ERROR")):
                        print("   ", l[:int(os.environ.get("ALPHA_W", "300"))])
        print("checks not silent:", bad)
    finally:
        if "--keep" in sys.argv:
            print("kept:", d)
        else:
            shutil.rmtree(d, ignore_errors=True)




# ---- inline-temp: `x = E` immediately followed by a statement that uses x exactly once (and x is used nowhere else in the function)
#      -> the use is replaced by (E) and the assignment removed.  Adjacent statements: the order of evaluation cannot change except
#      within the consuming statement, so only uses that are evaluated FIRST in it are inlined conservatively: the use must be the
#      first Name/Call/Subscript evaluated -- approximated by requiring that no Call precedes it in source order.
class InlineTemp(ast.NodeTransformer):
    n = 0

    def visit_FunctionDef(self, node):
        self.generic_visit(node)
        loads = {}
        stores = {}
        for x in ast.walk(node):
            if isinstance(x, ast.Name):
                (loads if isinstance(x.ctx, ast.Load) else stores).setdefault(x.id, []).append(x)
        params = {a.arg for a in ast.walk(node.args) if isinstance(a, ast.arg)}

        def process(stmts):
            i = 0
            while i + 1 < len(stmts):
                a, b = stmts[i], stmts[i + 1]
                if isinstance(a, ast.Assign) and len(a.targets) == 1 and isinstance(a.targets[0], ast.Name):
                    nm = a.targets[0].id
                    uses_in_b = [x for x in ast.walk(b) if isinstance(x, ast.Name) and x.id == nm and isinstance(x.ctx, ast.Load)]
                    simple_b = isinstance(b, (ast.Assign, ast.Return, ast.Expr, ast.AugAssign))
                    if nm not in params and len(stores.get(nm, [])) == 1 and len(loads.get(nm, [])) == 1 and len(uses_in_b) == 1 and simple_b \
                            and not any(isinstance(x, (ast.Lambda, ast.ListComp, ast.GeneratorExp, ast.DictComp, ast.SetComp)) for x in ast.walk(b)) \
                            and not any(isinstance(x, (ast.Lambda, ast.NamedExpr, ast.Yield, ast.Await, ast.Starred)) for x in ast.walk(a.value)):
                        use = uses_in_b[0]
                        # nothing with an effect is evaluated in b before the use
                        before = [x for x in ast.walk(b) if isinstance(x, ast.Call) and (x.lineno, x.col_offset) < (use.lineno, use.col_offset)
                                  and not any(y is use for y in ast.walk(x))]
                        if not before:
                            class Sub(ast.NodeTransformer):
                                def visit_Name(self_, n_):
                                    return a.value if n_ is use else n_
                            stmts[i + 1] = Sub().visit(b)
                            del stmts[i]
                            InlineTemp.n += 1
                            continue
                i += 1
            for st in stmts:
                for fld in ("body", "orelse", "finalbody"):
                    sub = getattr(st, fld, None)
                    if isinstance(sub, list) and sub and isinstance(sub[0], ast.stmt) and not isinstance(st, (ast.FunctionDef, ast.ClassDef)):
                        process(sub)
        process(node.body)
        return node


_old_transform = transform


def transform(path, mode):   # noqa: F811
    if mode != "inline-temp":
        return _old_transform(path, mode)
    src = open(path, encoding="utf-8").read()
    tree = InlineTemp().visit(ast.parse(src))
    ast.fix_missing_locations(tree)
    new = "\n".join(l for l in src.split("\n")[:3] if l.startswith("#")) + "\n" + ast.unparse(tree) + "\n"
    compile(new, path, "exec")
    open(path, "w", encoding="utf-8").write(new)


_old_apply = apply


def apply(dst, mode):   # noqa: F811
    r = _old_apply(dst, mode)
    return r + InlineTemp.n




# ---- kwargs: f(a, b, c) -> f(p0=a, p1=b, p2=c) for calls of module-level functions of the package whose signature is known
#      (no *args in the signature, no starred argument at the call); evaluation order of the arguments is unchanged.
def _kwargs_apply(dst):
    repo = core.Repo(dst)
    n = 0
    for rel, mi in repo.mods.items():
        path = os.path.join(dst, rel)
        src = open(path, encoding="utf-8").read()
        tree = ast.parse(src)
        changed = False
        for c in ast.walk(tree):
            if isinstance(c, ast.Call) and isinstance(c.func, ast.Name) and c.args and not any(isinstance(a, ast.Starred) for a in c.args) \
                    and not any(k.arg is None for k in c.keywords):
                r = repo.resolve_name(mi, c.func.id)
                if not isinstance(r, core.FuncInfo) or r.cls is not None:
                    continue
                fa = r.node.args
                if fa.vararg is not None or fa.posonlyargs or r.node.decorator_list:
                    continue
                names = [a.arg for a in fa.args]
                if len(c.args) > len(names):
                    continue
                c.keywords = [ast.keyword(arg=names[i], value=a) for i, a in enumerate(c.args)] + c.keywords
                c.args = []
                n += 1
                changed = True
        if changed:
            ast.fix_missing_locations(tree)
            new = "\n".join(l for l in src.split("\n")[:3] if l.startswith("#")) + "\n" + ast.unparse(tree) + "\n"
            compile(new, path, "exec")
            open(path, "w", encoding="utf-8").write(new)
    return n


_old_apply2 = apply


def apply(dst, mode):   # noqa: F811
    if mode == "kwargs":
        return _kwargs_apply(dst)
    return _old_apply2(dst, mode)


if __name__ == "__main__":
    main()
