"""C07 -- simulations compose in time."""
from __future__ import annotations

import ast

from sa.core import AnalysisError, unparse, walk_no_nested
from sa.terms import Expander, T
from . import idx, c08

LEVEL = "other"
IG = "jaxley/integrate.py"
EXPLANATION = (
    "R-C07-stepcount: on every path of integrate the number of scan steps that produced the returned "
    "carry (`length`) equals the number of recorded steps returned (`nsteps_to_return`), as provenance "
    "terms per branch. R-C07-single-step: the scan body reaches Module.step only through the step_fn of "
    "build_init_and_step_fn with the same solver / voltage_solver / delta_t / external_inds that a manual "
    "stepper would use; init_fn hands back the caller's all_states *unchanged* when given and forwards "
    "(params, all_states, param_state, delta_t) in that order; the initial recording is gathered from "
    "exactly the state handed to the scan; the returned states are the scan's final carry. R-C07-recs: "
    "recs = concat([initial, recordings[:n]]).T (shared with C08)."
)
ASSUMPTIONS = ["determinism of the step function (C06)", "equality of numbers is not decided, only that the same step function and state are used"]


def check(repo, col, tier):
    col.rule("R-C07-stepcount", "steps behind the returned state == steps returned", 2)
    col.rule("R-C07-single-step", "one step function, unchanged hand-over of states", 10)
    col.rule("R-C08-recs", "recs = concat([init, recordings[:n]]).T", 3)
    fi = repo.func(IG, "integrate")
    ex = idx.expander(repo, fi)
    _stepcount(repo, col, fi, ex)
    _single(repo, col, fi, ex)
    c08._recs(repo, col)
    from . import c06
    col.rule("R-C07-padding", "over-long checkpoint layouts extend the inputs after the samples", 1)
    c06.checkpoint_padding(repo, col, "R-C07-padding")
    col.rule("R-C07-time", "every call steps through exactly the inputs of its own time window", 6)
    c08._time(repo, col, "R-C07-time")
    col.rule("R-C07-scan", "the checkpointed (nested) scan threads the carry through every block", 6)
    c06._scan(repo, col, "R-C07-scan")
    # a run continued in segments feeds each segment's inputs with data_stimulate / data_clamp: values and row indices of the
    # inputs must be merged in the same order (shared with C05/C08/C11/C19)
    col.rule("R-C07-pairing", "inputs and their row indices are merged in the same order", 3)
    c08._pairing(repo, col, "R-C07-pairing")
    # stepping by hand past the end of a stimulus passes `externals={}`: what the step applies is decided by the inputs it is GIVEN
    col.rule("R-C07-inputs", "stimulus, voltage clamp and state clamps are applied exactly when the inputs of this step have them", 7)
    c08.input_guards(repo, col, "R-C07-inputs")
    col.rule("R-C07-stepargs", "the step function leaves its inputs (externals, their indices, the parameters) as it received them", 3)
    step_args(repo, col, "R-C07-stepargs")


def step_args(repo, col, R):
    """`Module.step(u, delta_t, external_inds, externals, params, ...)` advances `u` and returns it.  Every other argument is
    read only: the step function built by build_init_and_step_fn holds `external_inds` in its closure and integrate hands the same
    `all_params` / `external_inds` to every step, so a store into one of them is seen again by the next step (an index converted a
    second time, a parameter scaled twice): stepping by hand then differs from integrate, which traces the step once."""
    from sa.effects import Effects
    E = Effects(repo)
    fi = repo.method("Module", "step")
    params = [a.arg for a in fi.node.args.args if a.arg not in ("self", "u")]
    watched = [p for p in params if p in ("external_inds", "externals", "params")]
    if len(watched) < 3:
        raise AnalysisError(f"Module.step no longer takes externals / external_inds / params (has {params})")
    hits = {}
    for e in E.summary(fi):
        if not e.root.startswith("param:") or e.root[6:] not in watched:
            continue
        n = e.node
        store = isinstance(n, (ast.Subscript, ast.Attribute)) or isinstance(n, (ast.Assign, ast.AugAssign, ast.Delete)) and any(
            isinstance(t_, (ast.Subscript, ast.Attribute)) for t_ in (n.targets if isinstance(n, (ast.Assign, ast.Delete)) else [n.target]))
        call = isinstance(n, ast.Call) or (isinstance(n, ast.Expr) and isinstance(n.value, ast.Call))
        if store or call:
            hits.setdefault(e.root[6:], []).append(e)
    for p in watched:
        es = hits.get(p, [])
        chain = (" -> ".join([f.qual for f in es[0].via] + [es[0].fi.qual])) if es else ""
        col.check(not es, R, fi, f"Module.step does not store into its argument `{p}`", "read only",
                  f"`{unparse(es[0].node)[:80] if es else ''}` ({chain}) stores into the caller's `{p}`: the step function keeps "
                  f"`external_inds` in its closure and every step receives the same dictionaries, so the second step sees the rewritten "
                  f"value (e.g. an index converted twice); manual stepping and integrate (which traces one step) then differ",
                  node=es[0].node if es else fi.node)


def _alts(t: T):
    """Flatten a conditional term into [(condition description, value)]."""
    if t.op == "ifexp":
        c = t.args[0].pretty()
        return [(c + " / " + a, v) for a, v in _alts(t.args[1])] + [("not(" + c + ") / " + a, v) for a, v in _alts(t.args[2])]
    return [("", t)]


def _stepcount(repo, col, fi, ex, R="R-C07-stepcount"):
    call = next((c for c in ex.calls if isinstance(c.func, ast.Name) and c.func.id == "nested_checkpoint_scan"), None)
    if call is None:
        raise AnalysisError("integrate no longer calls nested_checkpoint_scan")
    t = ex.term(call)
    length = idx.call_arg(repo, fi.file, t, "length")
    if length is None:
        col.unk(R, fi, "length passed to the scan", "not found", node=call)
        return
    # the slice bound of the returned recordings
    # (the statement that cuts the scan's outputs `<scan result>[1][:n]`, whatever its target is called)
    bound = None
    for n_ in walk_no_nested(fi.node):
        if isinstance(n_, (ast.Assign, ast.Return)) and n_.value is not None and bound is None:
            rt = ex.term(n_.value)
            sl = T.find(rt, lambda x: x.op == "sub" and x.args[1].op == "slice" and x.args[0].op == "item" and
                        T.find(x.args[0], lambda y: y.op == "call" and y.name == "nested_checkpoint_scan") is not None)
            if sl is not None:
                bound = sl.args[1].args[1]
    if bound is None:
        col.unk(R, fi, "number of returned steps", "slice bound of the recordings not found", node=fi.node)
        return
    # the state returned with return_states=True must be the scan's final carry
    rets = [r for r in ex.returns]
    def path_label(conds):
        """'un-checkpointed path' / 'checkpointed path' from the polarity of the test of checkpoint_lengths against None,
        however the if/else is arranged; other conditions are spelled out"""
        lab, rest = None, []
        for c, pol in conds:
            c0, p0 = c, pol
            while c0.op == "not" or (c0.op == "unary" and c0.name == "Not"):
                c0, p0 = c0.args[0], not p0
            if c0.op == "cmp" and c0.name in ("is", "is not", "==", "!=") and len(c0.args) == 2 and \
                    any(a_.op == "param" and a_.name == "checkpoint_lengths" for a_ in c0.args) and \
                    any(a_.op == "const" and a_.name is None for a_ in c0.args):
                is_none = (c0.name in ("is", "==")) == p0
                lab = "un-checkpointed path" if is_none else "checkpointed path"
            else:
                rest.append(("" if pol else "not ") + c.pretty())
        return (lab or "path") + ((" / " + " / ".join(rest)) if rest else "")

    def alts_t(t, conds=()):
        if t.op == "ifexp":
            return alts_t(t.args[1], conds + ((t.args[0], True),)) + alts_t(t.args[2], conds + ((t.args[0], False),))
        return [(conds, t)]
    for conds, lv in alts_t(length):
        cond = path_label(conds) if conds else ""
        # resolve the bound under the same condition: both are conditional on `checkpoint_lengths is None`
        same = lv.key() == bound.key() or any(bv.key() == lv.key() for _c, bv in _alts(bound))
        what = cond
        node = next((n for n in walk_no_nested(fi.node) if isinstance(n, ast.Assign) and isinstance(n.targets[0], ast.Name)
                     and n.targets[0].id == "length" and (lv.node is None or n.value is lv.node)), call)
        col.check(same, R, fi, f"scan length on the {what.strip()}" if cond else "scan length",
                  f"length = {lv.short(60)} = number of returned steps",
                  f"on this path the scan runs for `{lv.short(60)}` steps while `{bound.short(60)}` steps are returned: the "
                  f"states returned with return_states=True are the model state after `{lv.short(40)}` steps, not at the "
                  f"last returned time point", node=node)


def _single(repo, col, fi, ex):
    R = "R-C07-single-step"
    b = repo.func(IG, "build_init_and_step_fn")
    exb = idx.expander(repo, b)
    init, step = exb.nested.get("init_fn"), exb.nested.get("step_fn")
    if init is None or step is None:
        raise AnalysisError("init_fn / step_fn vanished")
    # ---- init_fn returns the caller's states unchanged
    r = init.returns[0] if init.returns else None
    ok = False
    detail = r.short(200) if r is not None else None
    if r is not None and r.op == "tuple" and len(r.args) == 2:
        st = r.args[0]
        for cond, v in _alts(st):
            pass
        alts = _alts(st)
        given = [v for c, v in alts if "not(cmp(all_states, None))" in c or ("cmp(all_states, None)" in c and c.startswith("not("))]
        computed = [v for c, v in alts if v.op == "mcall" and v.name == "get_all_states"]
        passthrough = [v for c, v in alts if v.op == "param" and v.name == "all_states"]
        ok = len(alts) == 2 and len(computed) == 1 and len(passthrough) == 1
    col.check(ok, R, init.fi, "init_fn returns the given all_states unchanged (else the freshly computed ones)",
              "all_states if given else module.get_all_states(...)",
              f"init_fn returns {detail}: a state handed over from a previous run is modified before the run continues, "
              f"so a split simulation does not continue from the returned states", node=init.fi.node)
    ok = r is not None and r.op == "tuple" and len(r.args) == 2 and r.args[1].op == "mcall" and r.args[1].name == "get_all_parameters"
    col.check(ok, R, init.fi, "init_fn returns (states, parameters)", "", f"returns {detail}", node=init.fi.node)
    # ---- step_fn -> module.step with the closure's solver settings
    sc = next((c for c in step.calls if isinstance(c.func, ast.Attribute) and c.func.attr == "step"), None)
    if sc is None:
        raise AnalysisError("step_fn no longer calls module.step")
    t = step.term(sc)
    stepf = repo.method("Module", "step")
    names = stepf.params[1:]
    bound = {}
    for i, a in enumerate(t.args[1:]):
        bound[names[i]] = a
    bound.update(t.kw)
    want = {"u": ("param", "all_states"), "delta_t": ("param", "delta_t"), "external_inds": ("param", "external_inds"),
            "externals": ("param", "externals"), "params": ("param", "all_params"), "solver": ("param", "solver"),
            "voltage_solver": ("param", "voltage_solver")}
    for k, (op, nm) in want.items():
        a = bound.get(k)
        col.check(a is not None and a.op == op and a.name == nm, R, step.fi, f"step_fn: Module.step({k}={nm})",
                  "argument forwarded in its role", f"`{k}` of Module.step receives {a.short() if a is not None else None}",
                  node=sc)
    rs = step.returns[0] if step.returns else None
    col.check(rs is not None and rs.op == "mcall" and rs.name == "step", R, step.fi, "step_fn returns the stepped state", "",
              f"returns {rs.short() if rs else None}", node=step.fi.node)
    # ---- integrate: builds the same functions with its own settings and feeds them in order
    bc = next((c for c in ex.calls if isinstance(c.func, ast.Name) and c.func.id == "build_init_and_step_fn"), None)
    if bc is None:
        raise AnalysisError("integrate no longer calls build_init_and_step_fn")
    bt = ex.term(bc)
    okb = bt.args and bt.args[0].op == "param" and bt.args[0].name == "module" and \
        all((lambda a_: a_ is not None and a_.op == "param" and a_.name == nm_)(idx.call_arg(repo, fi.file, bt, nm_)) for nm_ in ("voltage_solver", "solver"))
    col.check(okb, R, fi, "integrate builds init_fn/step_fn with its own solver settings", "",
              f"called as {bt.short(120)}", node=bc)
    def built(t_, k):
        """t_ is element k of what build_init_and_step_fn returned (0: init_fn, 1: step_fn), whatever the local is called"""
        return T.find(t_, lambda x: x.op == "item" and x.name == k and x.args[0].op == "call" and x.args[0].name == "build_init_and_step_fn") is not None
    ic = next((n for n in walk_no_nested(fi.node) if isinstance(n, ast.Assign) and isinstance(n.value, ast.Call)
               and isinstance(n.value.func, ast.Name) and built(ex.term(n.value.func), 0)), None)
    if ic is None:
        raise AnalysisError("integrate no longer calls init_fn")
    a = [unparse(x) for x in ic.value.args]
    col.check(a == ["params", "all_states", "param_state", "delta_t"], R, fi, "init_fn(params, all_states, param_state, delta_t)", str(a),
              f"init_fn is called with {a}", node=ic)
    tg = [unparse(x) for x in ic.targets[0].elts] if isinstance(ic.targets[0], ast.Tuple) else []
    col.check(len(tg) == 2 and tg[0] == "all_states", R, fi, "init_fn's results bound as (all_states, <parameters>)", str(tg),
              f"bound to {tg}", node=ic)
    from . import c08
    body = c08.scan_body(repo, fi, ex)
    if body is None:
        raise AnalysisError("the scan body handed to nested_checkpoint_scan was not found")
    sc2 = next((c for c in body.calls if isinstance(c.func, ast.Name) and built(body.term(c.func), 1)), None)
    if sc2 is None:
        raise AnalysisError("the scan body no longer calls step_fn")
    bp = body.fi.params
    at = [body.term(x) for x in sc2.args]
    roles = []
    if len(at) == 5 and len(bp) >= 2:
        roles = [at[0].op == "param" and at[0].name == bp[0],                                       # the carry
                 T.find(at[1], lambda x: x.op == "item" and x.name == 1) is not None and
                 T.find(at[1], lambda x: x.op == "localfn" or (x.op == "item" and x.name == 0 and x.args[0].op == "call"
                                                               and x.args[0].name == "build_init_and_step_fn")) is not None,  # all_params of init_fn
                 at[2].op == "param" and at[2].name == bp[1],                                       # the per-step inputs
                 T.find(at[3], lambda x: x.op == "param" and x.name == "external_inds") is not None or
                 T.find(at[3], lambda x: x.op == "attr" and x.name == "external_inds") is not None,
                 at[4].op == "param" and at[4].name == "delta_t"]
    col.check(bool(roles) and all(roles), R, body.fi,
              "scan body: step_fn(carry, all_params, inputs of this step, external_inds, delta_t)", str([a.short(30) for a in at]),
              f"step_fn is called with {[unparse(x) for x in sc2.args]} (roles recognised: {roles}): the scan must step with the carry, the "
              f"parameters returned by init_fn, the inputs of this step, the input rows and the requested delta_t", node=sc2)
    rb = body.returns[0] if body.returns else None
    ok = False
    if rb is not None and rb.op == "tuple" and rb.args[0].op == "callv":
        stepped = idx.inline(repo, body.fi, rb.args[0])  # both sides in the same normal form
        ok = T.find(idx.inline(repo, body.fi, rb.args[1]), lambda x: x.key() == stepped.key()) is not None
    col.check(ok, R, body.fi, "scan body returns the stepped state and records from it", "(state, recs(state))",
              f"returns {rb.short(120) if rb else None}", node=body.fi.node)
    # scan is seeded with the states that the initial recording was taken from, and its carry is returned
    call = next((c for c in ex.calls if isinstance(c.func, ast.Name) and c.func.id == "nested_checkpoint_scan"), None)
    t = ex.term(call)
    seed = t.args[1] if len(t.args) > 1 else None
    src = None
    for n in walk_no_nested(fi.node):
        if isinstance(n, ast.Assign) and isinstance(n.targets[0], ast.Name) and \
                T.find(ex.term(n.value), lambda y: y.op == "mcall" and y.name == "concatenate") is not None and \
                T.find(ex.term(n.value), lambda y: y.op == "call" and y.name == "nested_checkpoint_scan") is not None:
            tt = ex.term(n.value)
            cat = T.find(tt, lambda x: x.op == "mcall" and x.name == "concatenate")
            if cat is not None and len(cat.args) > 1 and cat.args[1].op in ("list", "tuple") and cat.args[1].args:
                first = idx.inline(repo, fi, cat.args[1].args[0])
                g = T.find(first, lambda x: x.op == "sub" and x.args[0].op == "sub" and x.args[1].op in ("elem", "item"))
                if g is not None:
                    src = g.args[0].args[0]
    col.check(seed is not None and src is not None and seed.key() == src.key(), R, fi,
              "initial recording is taken from the state that seeds the scan", "same all_states",
              f"scan is seeded with {seed.short(60) if seed else None}, initial recording reads {src.short(60) if src else None}", node=call)
    rr = ex.returns[-1] if ex.returns else None
    ok = False
    if rr is not None:
        tup = T.find(rr, lambda x: x.op == "tuple" and len(x.args) == 2)
        if tup is not None:
            stt = tup.args[1]
            ok = stt.op == "item" and stt.name == 0 and stt.args[0].op == "call" and stt.args[0].name == "nested_checkpoint_scan"
    col.check(ok, R, fi, "return_states hands out the final carry of the scan", "(recs, all_states) with all_states = scan carry",
              f"returns {rr.short(160) if rr else None}", node=fi.node)
