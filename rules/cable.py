"""Shared rules on the axial-conductance and unit algebra (used by C02 and C15).

The call sites in `compute_axial_conductances` are read with the terms engine to learn
*which end* (sink/source) and *which parameter* each argument of the conductance helpers
is gathered from; the helper is then evaluated with atoms named after those roles and
compared with the textbook formula written in the documented units.
"""
from __future__ import annotations

import ast
from fractions import Fraction as Fr

from sa.algebra import Und, Rat, PW, rat_of, as_pw, ONE, ZERO, rat_sign, parse_ref
from sa.core import AnalysisError, unparse
from sa.terms import Expander, T
from . import kin

CU = "jaxley/utils/cell_utils.py"

# documented units -> cm / S / A based reference; um = 1e-4 cm
UM = "(1/10000)"


def _vmap_call(t: T):
    """(function name, arg terms) for `vmap(f, ...)(args)` or `f(args)`."""
    if t.op == "callv" and t.args and t.args[0].op == "call" and t.args[0].name == "vmap":
        f = t.args[0].args[0]
        return (f.name if f.op in ("free", "name") else None), list(t.args[1:])
    if t.op == "call":
        return t.name, list(t.args)
    return None, []


def _role_of(arg: T):
    """params[KEY][IDX] -> (KEY, end, types) where IDX derives from comp_edges[cond][end]."""
    while arg.op in ("mcall", "call") and arg.name in ("asarray", "array") and arg.args:
        arg = arg.args[-1]  # a conversion of the gathered values is not a different quantity
    if not (arg.op == "sub" and arg.args[0].op == "sub"):
        return None
    key = arg.args[0].args[1]
    if key.op != "const":
        return None
    idx = arg.args[1]
    ends = {x.name for x in idx.walk() if x.op == "const" and x.name in ("sink", "source")}
    if len(ends) != 1:
        return None
    types = _types_of(idx)
    return key.name, ends.pop(), types


def _types_of(idx: T):
    """The set of edge types selected by the row condition inside an index term."""
    for x in idx.walk():
        if x.op == "cmp" and x.name == "==" and x.args[1].op == "const" and isinstance(x.args[1].name, int):
            if any(c.op == "const" and c.name == "type" for c in x.args[0].walk()):
                return frozenset({x.args[1].name})
        if x.op == "mcall" and x.name == "isin" and len(x.args) == 2 and x.args[1].op == "list":
            if any(c.op == "const" and c.name == "type" for c in x.args[0].walk()):
                return frozenset(c.name for c in x.args[1].args if c.op == "const")
        if x.op == "mcall" and x.name == "isin" and len(x.args) == 3:  # np.isin(types, [..])
            if x.args[2].op == "list":
                return frozenset(c.name for c in x.args[2].args if c.op == "const")
    return None


class Conductances:
    """Result of analysing compute_axial_conductances."""

    def __init__(self):
        self.blocks = []  # dict(fn, roles, cap_role, node, types)


def analyse_axial(repo, col, rule_roles):
    fi = repo.func(CU, "compute_axial_conductances")
    ex = Expander(repo, fi)
    out = []
    # the returned concatenation lists the three blocks
    if not ex.returns:
        raise AnalysisError("compute_axial_conductances has no return")
    from . import idx as _idx
    from sa.terms import fuse_comprehensions
    ret = fuse_comprehensions(_idx.inline(repo, fi, ex.returns[-1], keep=("compute_coupling_cond", "compute_coupling_cond_branchpoint",
                                                                         "compute_impact_on_node")))
    lst = T.find(ret, lambda x: x.op == "list")
    if lst is None:
        raise AnalysisError("compute_axial_conductances no longer returns a concatenation of blocks")
    for block in lst.args:
        alts = block.args if block.op == "phi" else ([block.args[1], block.args[2]] if block.op == "ifexp" else [block])
        for alt in alts:
            # X = vmap(f)(...) / params["capacitance"][idx]   or  vmap(f)(...) [*= const]
            t = alt
            scale = None
            cap = None
            while True:
                if t.op == "binop" and t.name == "/" and _role_of(t.args[1]) is not None:
                    cap = _role_of(t.args[1])
                    t = t.args[0]
                    continue
                if t.op == "binop" and t.name == "*" and t.args[1].op == "const":
                    scale = t.args[1].name
                    t = t.args[0]
                    continue
                break
            fn, args = _vmap_call(t)
            if fn is None or not fn.startswith("compute_"):
                continue
            roles = [_role_of(a) for a in args]
            out.append(dict(fn=fn, roles=roles, cap=cap, scale=scale, node=t.node or fi.node, fi=fi))
    if len(out) < 3:
        raise AnalysisError("compute_axial_conductances: fewer than three conductance blocks recognised")
    return fi, out


def eval_block(repo, blk):
    """Evaluate the helper with atoms named <key>_<end>; returns the Rat (before /capacitance)."""
    ev = kin.new_eval(repo)
    fi = repo.func(CU, blk["fn"])
    args = []
    for r in blk["roles"]:
        if r is None:
            raise Und("argument role not recognised")
        key, end, _ = r
        args.append(kin.A(f"{key}_{end}"))
    val = rat_of(ev.call(fi, args))
    return ev, val


POS = {"pi"} | {f"{k}_{e}" for k in ("radius", "length", "axial_resistivity", "capacitance") for e in ("sink", "source")}


def textbook_c2c(ev, a, b):
    """Axial conductance between the centres of compartments a and b per membrane area of a,
    in mS/cm^2, from radius/length in um and axial resistivity in ohm*cm."""
    txt = (f"1000 * (1 / (axial_resistivity_{a}*(length_{a}*{UM}/2)/(pi*(radius_{a}*{UM})^2)"
           f" + axial_resistivity_{b}*(length_{b}*{UM}/2)/(pi*(radius_{b}*{UM})^2)))"
           f" / (2*pi*(radius_{a}*{UM})*(length_{a}*{UM}))")
    return parse_ref(ev, txt)


def textbook_bp2c(ev, a):
    """Half-compartment conductance from the (zero-length) branch point into compartment a,
    per membrane area of a, in mS/cm^2."""
    txt = (f"1000 * (1 / (axial_resistivity_{a}*(length_{a}*{UM}/2)/(pi*(radius_{a}*{UM})^2)))"
           f" / (2*pi*(radius_{a}*{UM})*(length_{a}*{UM}))")
    return parse_ref(ev, txt)


def textbook_half_abs(ev, a):
    """Absolute half-compartment conductance (S) of compartment a."""
    return parse_ref(ev, f"1 / (axial_resistivity_{a}*(length_{a}*{UM}/2)/(pi*(radius_{a}*{UM})^2))")


def check_axial(repo, col, R, want=("roles", "oracle", "recip", "kirchhoff", "sign", "cap")):
    """R: dict mapping aspect -> rule id (aspects not in R are skipped)."""
    fi, blocks = analyse_axial(repo, col, None)
    seen_types = {}
    for blk in blocks:
        fn, roles = blk["fn"], blk["roles"]
        node = blk["node"]
        if any(r is None for r in roles):
            col.unk(R.get("roles", "R-C02-call-roles"), fi, f"{fn}(...) arguments",
                    "an argument is not of the form params[key][index-from-comp_edges]", node=node)
            continue
        types = {r[2] for r in roles}
        tset = roles[0][2]
        try:
            ev, val = eval_block(repo, blk)
        except Und as e:
            col.unk(R.get("oracle", "R-C02-oracle"), fi, f"{fn}", f"outside the analysable fragment: {e}", node=node)
            continue
        ends = {r[1] for r in roles}
        is_c2c = len(ends) == 2
        cap = blk["cap"]
        if "roles" in R:
            col.check(len(types) == 1 and tset is not None, R["roles"], fi, f"{fn}: one edge-type filter for all arguments",
                      f"all arguments are gathered from rows of edge types {sorted(tset) if tset else '?'}",
                      f"the arguments of {fn} are gathered under different row filters {types}", node=node)
        if is_c2c:
            want_types = frozenset({0})
            oracle = textbook_c2c(ev, "sink", "source")
            col.check(tset == want_types, R.get("roles", R.get("oracle")), fi, f"{fn}: rows of type 0",
                      "compartment-to-compartment conductances are computed for type-0 rows",
                      f"{fn} is applied to rows of types {sorted(tset or [])}, expected [0]", node=node)
            if "oracle" in R:
                col.check(val.eq(oracle), R["oracle"], fi, f"{fn}: conductance into the sink row",
                          "equals 1/(R_sink/2 + R_source/2) per membrane area of the sink, in mS/cm^2 "
                          "(um, ohm*cm inputs; factor 10^7)",
                          f"the value {fn} yields for a (sink, source) row is not the centre-to-centre axial "
                          f"conductance per unit area of the *sink* compartment in mS/cm^2", node=node,
                          sides={"code": repr(val)[:300], "oracle": repr(oracle)[:300]})
            if "recip" in R:
                A_sink = parse_ref(ev, "radius_sink*length_sink")
                A_src = parse_ref(ev, "radius_source*length_source")
                # swap roles: the conductance seen from the other end
                blk2 = dict(blk)
                blk2["roles"] = [(k, "source" if e == "sink" else "sink", t) for (k, e, t) in roles]
                _ev2, val2 = eval_block(repo, blk2)
                col.check((val * A_sink).eq(val2 * A_src), R["recip"], fi, f"{fn}: reciprocity",
                          "g(i<-j)*area_i == g(j<-i)*area_j as a polynomial identity (absolute conductance is symmetric)",
                          "the absolute axial conductance between two compartments differs depending on which "
                          "end it is computed from: charge is not conserved", node=node)
        else:
            end = ends.pop()
            if end == "sink":
                oracle = textbook_bp2c(ev, "sink")
                col.check(tset == frozenset({1, 2}), R.get("roles", R.get("oracle")), fi, f"{fn}: rows of types 1, 2",
                          "branchpoint-to-compartment conductances are computed for type-1 and type-2 rows",
                          f"{fn} is applied to rows of types {sorted(tset or [])}, expected [1, 2]", node=node)
                if "oracle" in R:
                    col.check(val.eq(oracle), R["oracle"], fi, f"{fn}: conductance from the branch point into the sink row",
                              "equals 1/(R_sink/2) per membrane area of the sink, in mS/cm^2",
                              f"{fn} is not the half-compartment conductance per unit area of the sink in mS/cm^2",
                              node=node, sides={"code": repr(val)[:300], "oracle": repr(oracle)[:300]})
                seen_types["bp2c"] = (ev, val, blk)
            else:
                col.check(tset == frozenset({3, 4}), R.get("roles", R.get("kirchhoff")), fi, f"{fn}: rows of types 3, 4",
                          "compartment-to-branchpoint weights are computed for type-3 and type-4 rows",
                          f"{fn} is applied to rows of types {sorted(tset or [])}, expected [3, 4]", node=node)
                if "kirchhoff" in R:
                    half = textbook_half_abs(ev, "source")
                    ratio = val / half
                    r2 = kin.eliminate_all(ratio, sorted(ratio.atoms() - {"pi"}))
                    col.check(r2 is not None, R["kirchhoff"], fi, f"{fn}: weight in the branch-point row",
                              "proportional, with one constant for all compartments, to the absolute half-compartment "
                              "conductance 2*pi*r^2/(rho*l) (Kirchhoff's law at the branch point)",
                              f"the weight with which a compartment enters its branch-point row is not proportional "
                              f"to its absolute axial conductance: ratio = {ratio}", node=node)
                seen_types["c2bp"] = (ev, val, blk)
                if "cap" in R:
                    col.check(cap is None, R["cap"], fi, f"{fn}: not divided by a capacitance",
                              "branch-point rows have zero capacitance",
                              "the branch-point weight is divided by a capacitance, branch points have none", node=node)
        if "sign" in R:
            s = rat_sign(val, POS)
            col.add(R["sign"], fi, f"{fn} > 0", "DISCHARGED" if s == 1 else ("VIOLATED" if s == -1 else "UNDECIDED"),
                    "positive-coefficient numerator and denominator over positive atoms" if s == 1 else
                    f"sign of {fn} is {s}", node=node)
        if "cap" in R and (is_c2c or end == "sink"):
            ok = cap is not None and cap[0] == "capacitance" and cap[1] == "sink"
            col.check(ok, R["cap"], fi, f"{fn}: divided by capacitance[sink]",
                      "conductance into a row is divided by the capacitance of that row's compartment",
                      f"{fn} is divided by {cap}, expected ('capacitance', 'sink')", node=node)
    return blocks


def check_point_process(repo, col, rule):
    fi = repo.func(CU, "convert_point_process_to_distributed")
    ev = kin.new_eval(repo)
    try:
        val = rat_of(ev.call(fi, [kin.A("I"), kin.A("r"), kin.A("l")]))
        oracle = parse_ref(ev, f"(I/1000) / (2*pi*(r*{UM})*(l*{UM}))")  # nA -> uA, um -> cm
        col.check(val.eq(oracle), rule, fi, "nA / membrane area -> uA/cm^2",
                  "equals I/(2*pi*r*l) with the factor 10^5 that nA, um -> uA/cm^2 forces",
                  "point-process current is not converted to I/(2*pi*r*l) in uA/cm^2 (factor 10^5)",
                  node=fi.node, sides={"code": repr(val), "oracle": repr(oracle)})
    except Und as e:
        col.unk(rule, fi, "convert_point_process_to_distributed", f"outside the analysable fragment: {e}", node=fi.node)
