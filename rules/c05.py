"""C05 -- gradients through a simulation (gradient-path hygiene only)."""
from __future__ import annotations

import ast

from sa.algebra import Und, Rat, PW, rat_of, as_pw, ONE
from sa.core import AnalysisError, unparse, walk_no_nested
from sa.effects import Effects
from sa.terms import Expander, T
from . import idx, kin, c06

LEVEL = "other"
EXPLANATION = (
    "The property (gradient VALUES equal the derivative of the simulated loss) is NOT decidable "
    "statically. Claimed only: gradient-path hygiene -- three necessary conditions whose breach makes "
    "jax.grad wrong, NaN or impossible. R-C05-taint: no Python control flow, numpy call or scalar "
    "conversion on a traced value in the functions reachable from integrate's scan body and parameter "
    "assembly (shared with C06). R-C05-block: no gradient-blocking primitive (stop_gradient, "
    "custom_jvp/vjp, round/floor/ceil/sign/argmax/argmin, integer casts) is applied to a traced value. "
    "R-C05-where: inside every jnp.where-guarded helper each division is safe in EVERY region, including "
    "the unselected one (double-where idiom); otherwise the backward pass multiplies 0 by inf. "
    "R-C05-pad: scatters of trainable values drop padded entries (mode='drop') instead of writing them, "
    "so shared parameters of unequal groups receive no spurious gradient contribution."
)
ASSUMPTIONS = ["numerical correctness of derivatives, checkpointing equivalence of gradients and accumulation over shared parameters are NOT decided"]

BLOCKERS = {"stop_gradient", "custom_jvp", "custom_vjp", "round", "floor", "ceil", "sign", "argmax", "argmin", "rint", "trunc",
            "floor_divide", "digitize", "searchsorted"}
FILES = ["jaxley/integrate.py", "jaxley/solver_voltage.py", "jaxley/solver_gate.py", "jaxley/channels/hh.py",
         "jaxley/channels/pospischil.py", "jaxley/synapses/ionotropic.py", "jaxley/synapses/test.py", "jaxley/synapses/tanh_rate.py",
         "jaxley/utils/syn_utils.py", "jaxley/utils/jax_utils.py", "jaxley/optimize/transforms.py"]
METHODS = ["step", "_step_channels", "_step_channels_state", "_channel_currents", "_step_synapse", "_step_synapse_state",
           "_synapse_currents", "_get_external_input", "get_all_parameters", "get_all_states", "_compute_axial_conductances"]
CU_FUNCS = ["compute_axial_conductances", "compute_coupling_cond", "compute_coupling_cond_branchpoint", "compute_impact_on_node",
            "convert_point_process_to_distributed", "group_and_sum", "query_channel_states_and_params", "params_to_pstate"]


def _scope(repo):
    out = []
    for f in FILES:
        mi = repo.mod(f)
        out += list(mi.functions.values())
        for c in mi.classes.values():
            out += list(c.methods.values())
    for m in METHODS:
        for c in ("Module", "Network"):
            if m in repo.classes[c].methods:
                out.append(repo.classes[c].methods[m])
    for n in CU_FUNCS:
        out.append(repo.func("jaxley/utils/cell_utils.py", n))
    return out


def check(repo, col, tier):
    col.rule("R-C05-taint", "no Python control flow / numpy / scalar conversion on traced values", 20)
    col.rule("R-C05-block", "no gradient-blocking primitive on the simulation path", 40)
    col.rule("R-C05-where", "divisions inside where-guarded helpers are safe in every region", 2)
    col.rule("R-C05-pad", "padded trainable indices are dropped, not written", 2)
    c06.taint(repo, col, "R-C05-taint")
    _block(repo, col)
    _where(repo, col)
    _pad(repo, col)
    col.rule("R-C05-padding", "surplus checkpoint steps are fed zeros (0 * NaN poisons the backward pass)", 1)
    c06.checkpoint_padding(repo, col, "R-C05-padding")
    col.rule("R-C05-promise", "no scatter on the gradient path promises unique / sorted indices, and shared groups are padded with the -1 sentinel", 3)
    _promises(repo, col)
    col.rule("R-C05-taylor", "the value substituted at a removable singularity carries the derivative of the function it replaces", 2)
    _taylor(repo, col)
    col.rule("R-C05-gatediv", "divisions written in the gate functions have no unguarded removable singularity", 10)
    gate_divisions(repo, col, "R-C05-gatediv")
    col.rule("R-C05-nan", "mechanisms are evaluated only on compartments that have them (NaN placeholders stay out of traced arithmetic)", 4)
    _nan(repo, col)
    from . import c10
    col.rule("R-C05-derived", "geometry given at simulation time reaches the coupling conductances", 1)
    c10.derived_after_overrides(repo, col, "R-C05-derived")
    # the gradient with respect to a data-fed input is the sensitivity to the current in ITS compartment: values and row
    # indices of inputs must be merged in the same order (shared with C08/C11/C19)
    from . import c08
    col.rule("R-C05-pairing", "data-fed inputs and their row indices are merged in the same order", 3)
    c08._pairing(repo, col, "R-C05-pairing")
    # a trainable that is bypassed on one use (read from the tables instead of `params`) gets only part of its derivative
    from . import c10 as _c10
    col.rule("R-C05-order", "data fed later overrides data fed earlier (the value given last receives the gradient)", 1)
    _c10.override_order(repo, col, "R-C05-order")
    col.rule("R-C05-paramsource", "the step reads every physical quantity from the `params` it is given, never from the module's tables", 6)
    _c10.param_source(repo, col, "R-C05-paramsource")


def _promises(repo, col):
    """Parameter sharing makes the index arrays of the trainable scatters carry padding and (for overlapping groups)
    duplicates.  `unique_indices=True` / `indices_are_sorted=True` tell XLA to skip the accumulation of duplicates: the
    forward value is unchanged when duplicates carry equal values, but the transposed gather in the backward pass
    over-counts them.  The padding must be the sentinel -1 (dropped out of range), not a repeated real index."""
    R = "R-C05-promise"
    n = 0
    for fi in _scope(repo):
        for c in ast.walk(fi.node):
            if isinstance(c, ast.Call) and isinstance(c.func, ast.Attribute) and c.func.attr in ("set", "add", "get", "multiply", "min", "max") and \
                    isinstance(c.func.value, ast.Subscript) and isinstance(c.func.value.value, ast.Attribute) and c.func.value.value.attr == "at":
                n += 1
                bad = [k for k in c.keywords if k.arg in ("unique_indices", "indices_are_sorted") and
                       not (isinstance(k.value, ast.Constant) and k.value.value is False)]
                col.check(not bad, R, fi, f"{fi.qual}: `{unparse(c)[:60]}` makes no promise about its indices", "duplicates are accumulated",
                          f"`{unparse(c)[:90]}` passes `{bad[0].arg if bad else ''}=True`: index arrays of shared parameters contain padding and "
                          f"duplicates; with this promise the backward pass counts them more than once (gradient of the smaller groups "
                          f"is too large) although the forward value is unchanged", node=c)
    pad_sentinel(repo, col, R)
    col.info["scatters_examined"] = n
    if n < 5:
        raise AnalysisError(f"only {n} scatters found on the simulation path")


def pad_sentinel(repo, col, R):
    """make_trainable pads groups of unequal size with the sentinel -1 (shared with C10 / C19: the readers drop negative entries; a
    pad of 0 -- numpy's default -- is a real row, which is then overwritten with the shared value)."""
    mt = repo.method("Module", "make_trainable")
    pads = [c for c in ast.walk(mt.node) if isinstance(c, ast.Call) and isinstance(c.func, ast.Attribute) and c.func.attr == "pad"]
    if not pads:
        col.unk(R, mt, "make_trainable pads groups of unequal size with -1", "padding call not found", node=mt.node)
    for c in pads:
        cv = next((k.value for k in c.keywords if k.arg == "constant_values"), None)
        mode = next((k.value for k in c.keywords if k.arg == "mode"), None)
        ok = cv is not None and unparse(cv).replace(" ", "") == "-1" and (mode is None or (isinstance(mode, ast.Constant) and mode.value == "constant"))
        col.check(ok, R, mt, "make_trainable pads groups of unequal size with the sentinel -1", "np.pad(..., constant_values=-1)",
                  f"`{unparse(c)[:80]}` pads with {('mode=' + unparse(mode)) if mode is not None else ('constant_values=' + (unparse(cv) if cv is not None else '0'))}: "
                  f"a padded entry that is a real row index is written (and differentiated) again instead of being dropped", node=c)


def _taylor(repo, col):
    """Inside the guard window autodiff differentiates the substituted expression, not the original one: the
    substitute must therefore agree with the main branch to FIRST order at the singular point (value K and slope
    -K/2 for K*u/(exp(u)-1)), however narrow the window is."""
    R = "R-C05-taylor"
    from . import c03
    from sa.core import Collector
    n = 0
    for f in kin.CHANNEL_FILES:
        for fi in kin.module_helpers(repo, f):
            scratch = Collector("C05")
            info = c03._analyse_helper(repo, scratch, fi)
            if not info.ok or not info.guarded:
                continue
            n += 1
            col.add(R, fi, f"{fi.name}: derivative of the value used on |u| < {float(info.eps)}",
                    "DISCHARGED" if info.first_order is True else ("VIOLATED" if info.first_order is False else "UNDECIDED"),
                    "first-order Taylor polynomial of the main branch" if info.first_order is True else
                    f"on the guard window `{fi.name}` returns an expression whose derivative at the singular point differs from the limit of the "
                    f"derivative of the main branch (slope -K/2): the forward value is off by O(eps) only, but jax.grad at a voltage inside the "
                    f"window returns the wrong derivative", node=fi.node)
    if n < 2:
        raise AnalysisError(f"only {n} guarded rate helpers found")


def _nan(repo, col):
    """Rows of the node table without a channel hold NaN in that channel's parameter/state columns.  Evaluating the channel
    there and masking the result with jnp.where keeps the forward value but sends 0 * NaN through the backward pass.  The
    update/current functions must therefore receive values GATHERED at the channel's own compartments."""
    R = "R-C05-nan"
    n = 0

    def restricted(t):
        return T.find(t, lambda x: x.op == "attr" and x.name == "_name") is not None

    for mname in ("_step_channels_state", "_channel_currents"):
        fi = repo.method("Module", mname)
        ex = idx.expander(repo, fi)
        sites = []
        for c in ex.calls:
            if isinstance(c.func, ast.Name) and c.func.id == "query_channel_states_and_params" and len(c.args) >= 3:
                sites.append((c, ex.term(c.args[2])))
        # direct gathers  params[key][IDX] / states[key][IDX] / voltages[IDX]  that feed the mechanism
        for node in walk_no_nested(fi.node):      # (a local helper's gathers are judged where it is called: its parameters are not rows)
            if isinstance(node, ast.Subscript) and isinstance(node.ctx, ast.Load) and isinstance(node.value, ast.Subscript) and \
                    isinstance(node.value.value, ast.Name) and node.value.value.id in ("params", "states"):
                sites.append((node, ex.term(node.slice)))
            if isinstance(node, ast.Subscript) and isinstance(node.ctx, ast.Load) and isinstance(node.value, ast.Name) and \
                    node.value.id == "voltages" and not isinstance(node.slice, (ast.Constant, ast.Slice, ast.Tuple)):
                sites.append((node, ex.term(node.slice)))
        for c, t in sites:
            n += 1
            col.check(restricted(t), R, fi, f"{mname}: `{unparse(c)[:60]}` gathers at the compartments that have the channel",
                      "index restricted by the channel's presence column",
                      f"`{unparse(c)[:80]}` gathers with {t.short(60)}, not restricted to the rows where the channel is present: the channel "
                      f"is evaluated on NaN placeholders; masking afterwards keeps the forward pass but makes every gradient NaN", node=c)
    if n < 4:
        raise AnalysisError(f"only {n} gathers of channel states/parameters found")


def _block(repo, col):
    R = "R-C05-block"
    n = 0
    for fi in _scope(repo):
        for c in ast.walk(fi.node):
            if isinstance(c, ast.Call):
                fn = unparse(c.func)
                last = fn.split(".")[-1]
                root = fn.split(".")[0]
                if last in ("custom_linear_solve", "custom_root", "custom_gradient", "defjvp", "defvjp", "defjvps", "custom_transpose", "linear_call"):
                    # the derivative of this call is what the caller DECLARES, not what autodiff derives
                    n += 1
                    sym = next((k_.value for k_ in c.keywords if k_.arg == "symmetric"), None)
                    tsolve = next((k_.value for k_ in c.keywords if k_.arg == "transpose_solve"), c.args[4] if len(c.args) > 4 else None)
                    if last == "custom_linear_solve" and sym is not None and isinstance(sym, ast.Constant) and sym.value is True:
                        why = (f"`{unparse(c)[:80]}` declares the operator symmetric: the reverse-mode pass then solves with A where it needs A^T. The voltage-step "
                               f"matrix is not symmetric (conductances are divided by the capacitance and area of the RECEIVING compartment), so the value is "
                               f"unchanged and every jax.grad through it is wrong as soon as two neighbouring compartments differ")
                    elif last == "custom_linear_solve" and tsolve is None:
                        why = f"`{unparse(c)[:80]}` gives no transpose solve: reverse-mode differentiation through the solve is not defined by this call"
                    else:
                        why = f"`{unparse(c)[:80]}` replaces autodiff by a hand-written derivative rule; its correctness is not established by this analysis"
                    col.bad(R, fi, f"{fn}(...) in {fi.qual}: derivative is derived, not declared", why, node=c)
                    continue
                if root in ("jnp", "jax", "np", "lax") or last in ("stop_gradient",):
                    n += 1
                    bad = last in BLOCKERS
                    if bad and root == "np":
                        # numpy on static index arrays is judged by the taint rule
                        continue
                    col.check(not bad, R, fi, f"{fn}(...) in {fi.qual}: {unparse(c)[:50]}", "differentiable primitive",
                              f"`{unparse(c)[:80]}` blocks or zeroes the gradient on the simulation path (piecewise-constant / "
                              f"non-differentiable primitive)", node=c)
                elif isinstance(c.func, ast.Attribute) and c.func.attr == "astype" and c.args and unparse(c.args[0]) in ("int", "jnp.int32", "jnp.int64", "bool"):
                    recv = unparse(c.func.value)
                    traced = any(k in recv for k in ("voltages", "states", "params[", "u["))
                    n += 1
                    col.check(not traced, R, fi, f"{unparse(c)[:60]} in {fi.qual}", "integer cast of an index array",
                              f"`{unparse(c)[:80]}` casts a traced value to an integer: the gradient is cut", node=c)
        # ... also when the primitive is handed on as a function: tree_map(jax.lax.stop_gradient, xs), vmap(stop_gradient)(x)
        called = {id(c.func) for c in ast.walk(fi.node) if isinstance(c, ast.Call)}
        for x in ast.walk(fi.node):
            nm_ = x.attr if isinstance(x, ast.Attribute) else (x.id if isinstance(x, ast.Name) else None)
            if nm_ in ("stop_gradient",) and id(x) not in called and isinstance(getattr(x, "ctx", None), ast.Load):
                n += 1
                col.bad(R, fi, f"{unparse(x)} handed on as a function in {fi.qual}", f"`{unparse(x)}` is applied through a higher-order call (tree_map / vmap / map): "
                        f"whatever it is mapped over reaches the simulation as a constant, its gradient is exactly 0", node=x)
        for d in getattr(fi.node, "decorator_list", []):
            dn = unparse(d)
            if any(b in dn for b in ("custom_jvp", "custom_vjp")):
                col.bad(R, fi, f"decorator {dn}", "a hand-written derivative rule replaces autodiff; its correctness is not checked here", node=d)
    # value-dependent selection between branches that are EQUAL IN VALUE but not in their derivative
    nsel = 0
    for fi in _scope(repo):
        for c in ast.walk(fi.node):
            if not isinstance(c, ast.Call):
                continue
            fn = unparse(c.func)
            last = fn.split(".")[-1]
            if last == "where" and len(c.args) == 3 and fn.split(".")[0] in ("jnp", "jax", "lax"):
                nsel += 1
                ties = [q for q in ast.walk(c.args[0]) if isinstance(q, ast.Compare) and len(q.ops) == 1 and isinstance(q.ops[0], (ast.Eq, ast.NotEq))
                        and not any(isinstance(o_, ast.Constant) or (isinstance(o_, ast.UnaryOp) and isinstance(o_.operand, ast.Constant))
                                    for o_ in (q.left, q.comparators[0]))]
                col.check(not ties, R, fi, f"{fn}(...) in {fi.qual}: `{unparse(c.args[0])[:40]}` selects on an inequality or against a constant",
                          "no tie between two traced quantities",
                          f"`{unparse(c)[:90]}` takes one branch exactly where two traced quantities are EQUAL: the branches may agree in value there, but autodiff "
                          f"differentiates only the selected one, with the other quantity held fixed -- the partial derivatives at the tie (e.g. equal radii of "
                          f"neighbouring compartments, the default) are those of another function", node=c)
            if last in ("cond", "switch", "select") and (fn.split(".")[0] in ("lax", "jax") or fn in ("cond", "switch")) and c.args:
                nsel += 1
                data = [x.id for x in ast.walk(c.args[0]) if isinstance(x, ast.Name) and x.id in fi.params]
                col.check(not data, R, fi, f"{fn}(...) in {fi.qual}: no branch is chosen by the values of the inputs", "static control flow",
                          f"`{unparse(c)[:90]}` chooses a branch from the VALUES of `{data[0] if data else ''}`: where the constant branch is taken (an input that is "
                          f"exactly 0 at a time step) the derivative with respect to that input is 0, although the result depends on it", node=c)
    col.info["primitive_calls_examined"] = n
    if n < 40:
        raise AnalysisError(f"only {n} library calls found on the simulation path")


def _where(repo, col):
    R = "R-C05-where"
    found = 0
    for f in kin.CHANNEL_FILES + ["jaxley/solver_gate.py"]:
        for fi in kin.module_helpers(repo, f):
            # every helper with a division is examined: a helper that lost its guard (or never had one) is the case to find
            has_div = any(isinstance(n, ast.BinOp) and isinstance(n.op, ast.Div) for n in ast.walk(fi.node))
            if not has_div:
                continue
            ev = kin.new_eval(repo)
            ev.trace_div = True
            try:
                ev.call(fi, [kin.A(p) for p in fi.params])
            except Und as e:
                uses_exp = any(isinstance(n, ast.Call) and unparse(n.func).split(".")[-1] in ("exp", "save_exp", "expm1") for n in ast.walk(fi.node))
                if not uses_exp:
                    col.ok(R, fi, fi.name, f"no exponential in this helper: its divisions are judged at the call sites ({e})", node=fi.node)
                    continue
                col.unk(R, fi, fi.name, f"outside the analysable fragment: {e}", node=fi.node)
                continue
            for node, a, b, stack in ev.divisions:
                found += 1
                den = as_pw(b)
                for conds, d in den.pieces:
                    reg = kin.region_name(ev, conds)
                    status, why = _nonzero(ev, d, conds)
                    col.add(R, fi, f"{fi.name}: `{unparse(node)[:50]}` on region [{reg}]", status,
                            why if status == "DISCHARGED" else
                            f"on the region [{reg}] the denominator of `{unparse(node)[:60]}` is {d}: {why}. jnp.where evaluates both "
                            f"branches, so the unselected branch yields inf/NaN and the backward pass returns NaN gradients at the "
                            f"guarded voltage (use the double-where idiom: neutralise the argument under the same mask)", node=node)
    col.info["helper_divisions_examined"] = found
    if found < 2:
        raise AnalysisError("fewer than two divisions found in the rate helpers (channel files moved?)")


def gate_divisions(repo, col, R):
    """Divisions written directly in the gate functions of the mechanisms (not inside the guarded helpers): a denominator
    exp(u) - 1 with u affine in v vanishes at a voltage inside the range, where the numerator vanishes too (0/0 = NaN in the
    forward pass and in the gradient).  The published formulas have such removable singularities; the code must route them
    through a guarded helper."""
    spec = kin.load_spec()
    n = 0
    for name, sp in spec.items():
        for fn in sp["gates"]:
            fi = repo.method(name, fn)
            ev = kin.new_eval(repo)
            ev.trace_div = True
            try:
                from sa.algebra import ObjV
                ev.call(fi, [kin.A(a) for a in sp["gates"][fn][0]], selfv=ObjV(name))
            except Und as e:
                col.unk(R, fi, f"{name}.{fn}", f"outside the analysable fragment: {e}", node=fi.node)
                continue
            for node, a, b, stack in ev.divisions:
                if not stack.endswith("." + fn):
                    continue  # inside a helper: judged by the helper rules
                for conds, d in as_pw(b).pieces:
                    n += 1
                    status, why = _nonzero(ev, d, conds)
                    if status == "UNDECIDED":
                        status, why = "DISCHARGED", "no exp(u) - 1 shape (positivity of rates is R-C03-sign's obligation)"
                    col.add(R, fi, f"{name}.{fn}: `{unparse(node)[:50]}`", status,
                            why if status == "DISCHARGED" else
                            f"the denominator of `{unparse(node)[:60]}` in {name}.{fn} is {d}: {why}. The rate is 0/0 = NaN at that voltage "
                            f"(the guarded helper for x/(exp(x)-1) is bypassed)", node=node)
    col.info["gate_divisions_examined"] = n


def _nonzero(ev, d: Rat, conds):
    """Is the denominator form provably non-zero on the region?"""
    import math

    atoms = d.atoms()
    if not atoms - {"exp[1]", "pi"}:
        # a constant: evaluate numerically
        def val(p):
            s = 0.0
            for mono, c in p.t.items():
                t = float(c)
                for a, e in mono:
                    t *= (math.e if a == "exp[1]" else math.pi) ** float(e)
                s += t
            return s
        v = val(d.n) / val(d.d)
        return ("DISCHARGED", f"constant {v:.4g} != 0") if abs(v) > 1e-12 else ("VIOLATED", "the denominator is zero")
    from sa.algebra import rat_sign
    pos = kin.positive_atoms(ev, [d])
    # parameters of helpers (y, etc.) have no sign; try exp(u) - 1 shape
    from rules.c03 import _exprel_arg
    u, E = _exprel_arg(ev, Rat(ONE.n, d.n) if False else Rat(d.d, d.n))  # 1/d has denominator d.n
    if u is not None:
        # zero iff u == 0: excluded iff the region contains not(|u'| < eps) with u' ~ u
        for g, bval in conds:
            kind, lhs, bound = ev.guards[g]
            if kind == "abs<" and not lhs.is_zero() and (u / lhs).is_const():
                if not bval:
                    return "DISCHARGED", f"|{lhs}| >= {bound} on this region, so exp(u) - 1 != 0"
                return "VIOLATED", f"exp(u) - 1 with u = {u} vanishes at u = 0, which lies inside this region"
        return "VIOLATED", f"exp(u) - 1 with u = {u} vanishes at u = 0 and no guard excludes it"
    s = rat_sign(d, pos)
    if s is not None:
        return "DISCHARGED", "definite sign"
    # a bare parameter (e.g. division by y): not a where-related singularity
    if len(d.n.t) == 1 and len(d.d.t) == 1:
        return "DISCHARGED", "monomial in the helper's parameters (caller's constant)"
    if not any(a.startswith(("exp[", "log[", "tanh[", "abs[")) for a in atoms):
        return "DISCHARGED", "polynomial in the helper's own parameters (rates / time step supplied by the caller; their positivity is R-C03's obligation)"
    return "UNDECIDED", "cannot decide whether the denominator vanishes"


def _pad(repo, col):
    R = "R-C05-pad"
    from . import c10
    from sa.spaces import Classifier
    cl = idx.compute_slots(repo, col, "R-C05-pad", emit=())
    # a trainable value that is scattered into the wrong row receives the gradient of another compartment / synapse
    c10.scatter_sites(repo, col, cl, "R-C05-scatter", "R-C05-pad")
    col.rule("R-C05-scatter", "trainable values are scattered in the index space of the array they override", 2)
    n = 0
    for name in ("get_all_parameters", "get_all_states"):
        fi = repo.method("Module", name)
        ex = idx.expander(repo, fi)
        for c in ast.walk(fi.node):
            if isinstance(c, ast.Call) and isinstance(c.func, ast.Attribute) and c.func.attr in ("set", "add") and \
                    isinstance(c.func.value, ast.Subscript) and isinstance(c.func.value.value, ast.Attribute) and c.func.value.value.attr == "at":
                from sa.terms import fuse_comprehensions as _fuse_ix
                ix = _fuse_ix(idx.inline(repo, fi, ex.term(c.func.value.slice)))
                raw, remapped = c10._strip_drop_remap(ix, c, _fuse_ix(ex.term(c.func.value.value.value)))
                sp = cl.space(raw, "node")
                if sp is None or not sp.sentinel:
                    continue
                n += 1
                col.check(remapped, R, fi, f"{name}: {unparse(c)[:70]}", "pad entries are moved out of range and dropped",
                          "padded (-1) entries of shared parameters are written to the last row: the shared parameter receives the "
                          "gradient of an unrelated compartment", node=c)
    if n < 2:
        raise AnalysisError("scatter sites of trainable values with padded indices not found")
