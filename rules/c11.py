"""C11 -- views select exactly the described compartments, in local or global scope."""
from __future__ import annotations

import ast

from sa.core import AnalysisError, unparse, walk_no_nested
from sa.spaces import table_kind
from sa.terms import Expander, T
from . import idx

LEVEL = "other"
BASE = "jaxley/modules/base.py"
EXPLANATION = (
    "R-C11-confine (row-selector provenance): every store into the base module's node/edge tables made "
    "by a method that can be called on a View selects its rows through the view (self._nodes_in_view / "
    "self._edges_in_view / the view's own table / rows created in the same call); whole-column or "
    "whole-table stores are allowed only at listed structural sites with their guards (new channel "
    "column under 'channel unknown to the BASE module', constructors, module-only methods). Registry "
    "stores (groups, recordings, externals, xyzr) take their rows/branches from the view. R-C11-filter: "
    "_at_nodes/_at_edges build the column name from the live scope, filter the view's own table and "
    "return its row labels; cell/branch/comp/edge pass their own name; lazy indexing, iteration and the "
    "cells/branches/comps generators funnel into _at_nodes with keys from the hierarchy. R-C11-index: "
    "slices are expanded over the base module's row count (an upper bound of every local or global "
    "index). R-C11-rerank: local indices are dense ranks of cell globally, branch within cell, comp "
    "within (cell, branch). R-C11-edges: a node-selected view keeps an edge iff BOTH ends are in view "
    "and intersects with the parent's edges; an edge-selected view keeps the end compartments. "
    "R-C11-loc: loc() restores the caller's scope and uses each branch's own compartment count. "
    "R-C11-basestate: updates of the base module's registries are decided on (and accumulated from) the "
    "base's current entries, not a view's snapshot. R-C11-keyclass: node/edge classification of registry "
    "keys uses the base module's synaptic name lists."
)
ASSUMPTIONS = ["pandas isin/rank/loc semantics", "value-level handling of index forms in _reformat_index beyond the slice range is not decided"]


def check(repo, col, tier):
    col.rule("R-C11-confine", "stores into the base module are confined to the rows in view", 25)
    col.rule("R-C11-filter", "selection funnels through _at_nodes/_at_edges with scope-dependent columns", 12)
    col.rule("R-C11-index", "slice indices are expanded over the base module's rows", 1)
    col.rule("R-C11-rerank", "dense local ranks within each parent", 3)
    col.rule("R-C11-edges", "edges in a node view need both ends; intersect with the parent's", 4)
    col.rule("R-C11-loc", "loc keeps scope and uses per-branch compartment counts", 3)
    _confine(repo, col)
    _filter(repo, col)
    select_expansion(repo, col, "R-C11-filter")
    _index(repo, col)
    _rerank(repo, col)
    _edges(repo, col)
    _loc(repo, col)
    _named(repo, col)
    _basestate(repo, col)
    keyclass_on_base(repo, col, "R-C11-keyclass")
    # a group keeps naming its own compartments after set_ncomp renumbered the rows (shared with C10/C13/C19)
    from . import c13 as _c13
    col.rule("R-C11-relabel", "row-label registries (groups, ...) are guarded or rewritten when rows are renumbered", 4)
    _c13.relabel(repo, col, "R-C11-relabel")
    col.rule("R-C11-inview", "what a view lists (channels, local edge numbers) is computed from the rows in view", 3)
    channels_in_view(repo, col, "R-C11-inview")
    synapse_view_local_index(repo, col, "R-C11-inview")
    listed_in_view(repo, col, "R-C11-inview")
    col.rule("R-C11-refresh", "a view refreshed after an edit of the base keeps its rows, scope and kind", 3)
    refreshed_view(repo, col, "R-C11-refresh")
    col.rule("R-C11-groups", "groups hold sorted, unique row labels", 2)
    group_normal_form(repo, col)
    col.rule("R-C11-structure", "a view's structure attributes describe its own branches", 2)
    view_structure(repo, col)
    # inputs given through a view land on that view's rows: values and row indices stay paired (shared with C08/C19)
    col.rule("R-C11-pairing", "stimuli / clamps given through a view stay attached to the rows of that view", 3)
    from . import c08
    c08._pairing(repo, col, "R-C11-pairing")
    col.rule("R-C11-labels", "a table of a view that is re-derived from itself keeps its row labels", 3)
    table_labels(repo, col, "R-C11-labels")
    col.rule("R-C11-chain", "every link of a selection chain derives its view from the view it is called on", 8)
    derived_from_receiver(repo, col, "R-C11-chain")
    # recording through a view adds exactly (row, state) pairs: another state of a row already recorded is a new recording (shared with C08/C19)
    from . import c19 as _c19
    col.rule("R-C11-recs", "recordings are (rec_index, state) pairs; duplicates are judged on both", 2)
    _c19.recordings_matching(repo, col, "R-C11-recs")
    _c19.record_dedup(repo, col, "R-C11-recs")


def _basestate(repo, col, R="R-C11-basestate"):
    """A view holds SNAPSHOTS of the module's registries (groups, channels, synapses, recordings, externals, ... --
    whatever View.__init__ assigns on self), taken when the view was created.  A method that updates the registry
    of the base module must decide on the base's CURRENT registry: a guard that consults the snapshot (`self.groups`
    instead of `self.base.groups`) takes the 'new entry' branch for a view created earlier and overwrites what other
    views added meanwhile."""
    vi = repo.method("View", "__init__")
    exv = idx.expander(repo, vi)
    snap = {s.key.name for s in exv.stores if s.kind == "attr" and s.base.op == "param" and s.base.name == "self"}
    snap -= {"base", "_scope", "_current_view", "nodes", "edges"}
    if len(snap) < 8:
        raise AnalysisError(f"View.__init__ assigns only {sorted(snap)}: snapshot attributes not recognised")
    col.info["view_snapshot_attributes"] = sorted(snap)

    def base_registry(t):
        """X if t is rooted at self.base.X"""
        cur = t
        while cur.op in ("attr", "sub", "mcall"):
            if cur.op == "attr" and cur.args[0].op == "attr" and cur.args[0].name == "base" and _is_self(cur.args[0].args[0]):
                return cur.name
            cur = cur.args[0]
        return None

    n = 0
    n_acc = []
    from . import common
    cg = common._callgraph(repo)
    ctor_only = set()
    for m in repo.classes["Module"].methods.values():
        callers = [k for k, v in cg.items() if (m.file, m.qual) in v and k != (m.file, m.qual)]
        if callers and all(q.endswith(".__init__") and not q.startswith("View.") for _f, q in callers):
            ctor_only.add(m.name)  # runs while `self` is the module under construction: self.X is the base's X
    col.info["constructor_only_methods"] = sorted(ctor_only)
    for m in repo.classes["Module"].methods.values():
        if m.name in ctor_only:
            continue
        ex = idx.expander(repo, m)
        for s_ in ex.stores:
            if s_.kind not in ("sub", "mcall", "attr", "aug"):
                continue
            reg = base_registry(s_.base) or (s_.key.name if s_.kind == "attr" and s_.base.op == "attr" and s_.base.name == "base"
                                             and _is_self(s_.base.args[0]) else None)
            if reg not in snap:
                continue
            # an update that EXTENDS the registry entry (union / concatenation with what is there) must extend the base's
            # current entry: the view's snapshot holds only the part of it that lies inside the view
            val = s_.value
            if val is not None:
                stale_ops, accs = [], 0
                for x in val.walk():
                    acc = (x.op in ("mcall", "call") and x.name in ("concatenate", "union1d", "hstack", "append", "concat", "union")) or \
                          (x.op == "binop" and x.name in ("+", "|"))
                    if not acc:
                        continue
                    ops = []
                    for a_ in (x.args[1:] if x.op == "mcall" else x.args):
                        ops += list(a_.args) if a_.op in ("list", "tuple") else [a_]
                    if x.op == "mcall":
                        ops.append(x.args[0])
                    roots = []
                    for o in ops:
                        cur = o
                        while cur.op in ("mcall", "call", "sub") and cur.args and (cur.op != "call" or cur.name in ("list", "asarray", "array")):
                            cur = cur.args[-1] if cur.op == "call" else cur.args[0]
                        roots.append((o, cur))
                    # only accumulations ONTO the registry (one operand is the registry's entry, of the base or of the view)
                    if any(c.op == "attr" and c.name == reg for _o, c in roots):
                        accs += 1
                        stale_ops += [o for o, c in roots if c.op == "attr" and c.name == reg and _is_self(c.args[0])]
                if accs:
                    n_acc.append(1)
                    col.check(not stale_ops, R, m, f"{m.name}: `{unparse(s_.node)[:50]}` extends the base's current entry of {reg}",
                              f"accumulates onto self.base.{reg}",
                              f"the new value of `self.base.{reg}` is built from `{stale_ops[0].short(50) if stale_ops else ''}`, the view's own "
                              f"(filtered) copy of the registry: the members that lie outside this view are dropped from the entry", node=s_.node)
            if not s_.guards:
                continue
            n += 1
            stale = None
            for g in s_.guards:
                # polarity of the guard: "the entry is ABSENT from <registry>" is the create-if-absent decision
                neg = False
                cur = g
                while cur.op in ("not", "unary") and (cur.op == "not" or cur.name == "Not"):
                    neg = not neg
                    cur = cur.args[0]
                if cur.op != "cmp" or cur.name not in ("in", "not in") or len(cur.args) != 2:
                    continue
                absent = (cur.name == "not in") != neg
                hit = T.find(cur.args[1], lambda x: x.op == "attr" and x.name == reg and _is_self(x.args[0]))
                if absent and hit is not None:
                    stale = g
            col.check(stale is None, R, m, f"{m.name}: update of base.{reg} `{unparse(s_.node)[:50]}` is decided on the base's current registry",
                      "guards read self.base." + reg,
                      f"the guard `{stale.short(80) if stale else ''}` reads `self.{reg}`, the view's snapshot taken when the view was created, "
                      f"but the statement updates `self.base.{reg}`: a view object created before another view added an entry takes the "
                      f"wrong branch and overwrites it", node=s_.node)
    col.rule(R, "updates of the base module's registries are decided on the base's current state, not on the view's snapshot", 3)
    if n < 3:
        raise AnalysisError(f"only {n} guarded updates of base registries found")


KEYCLASS_SETS = ("synapse_state_names", "synapse_param_names")
KEYCLASS_OWN_OK = {
    ("Module", "step"): "step() runs on the module handed to integrate(), i.e. on the base module itself (self is self.base)",
}


def keyclass_on_base(repo, col, R):
    """Whether a key names a synaptic (edge) or a compartment (node) quantity decides which table a stored row label refers
    to.  (1) The registries of the base module hold entries of ALL synapse types; a view's own `synapse_state_names` /
    `synapse_param_names` list only the types inside the view.  Classifying an entry of a base registry with the view's list
    treats the synaptic entries of types outside the view as compartment entries.  (2) record() / clamp() accept, as edge
    quantities, the synaptic states AND the synaptic currents `i_<synapse>` (second component of `_get_state_names`); wherever
    the NAME of a recorded / clamped quantity is classified, the list must contain both, or the global edge index of a synaptic
    current is used as a position in an array that is stored per synapse type."""
    n = 0
    # what record()/clamp() accept as edge quantities
    gs_fi = repo.method("Module", "_get_state_names")
    gs_ret = idx.expander(repo, gs_fi).merged_return()
    edge_part = gs_ret.args[1] if (gs_ret is not None and gs_ret.op == "tuple" and len(gs_ret.args) == 2) else None
    accepts_currents = edge_part is not None and T.find(edge_part, lambda x: x.op == "attr" and x.name == "synapse_current_names") is not None
    fis = [(cn, m) for cn in ("Module", "View") for m in repo.classes[cn].methods.values()]
    fis.append((None, repo.func("jaxley/integrate.py", "integrate")))
    for cn, m in fis:
        who = f"{cn}.{m.name}" if cn else m.name
        ex = idx.expander(repo, m)
        terms = list(ex.returns)
        for s_ in ex.stores:
            terms += [t_ for t_ in (s_.value, s_.key) if t_ is not None] + list(s_.guards)
        for gs in ex.stmt_guards.values():
            terms += [g for g in gs if isinstance(g, T)]
        for gs in ex.return_guards:
            terms += [g for g in gs if isinstance(g, T)]
        done = set()
        for t_ in terms:
            for x in t_.walk():
                coll = elem = None
                if x.op == "cmp" and x.name in ("in", "not in") and len(x.args) == 2:
                    elem, coll = x.args
                elif x.op == "mcall" and x.name == "isin" and len(x.args) >= 2:
                    elem, coll = (x.args[0] if len(x.args) == 2 else x.args[1]), x.args[-1]
                if coll is None:
                    continue
                colli = idx.inline(repo, m, coll)  # a helper that returns the list is looked through
                sets = [y for y in colli.walk() if y.op == "attr" and y.name in KEYCLASS_SETS + ("synapse_current_names",)]
                if not any(y.name in KEYCLASS_SETS for y in sets) or coll.key() in done:
                    continue
                done.add(coll.key())
                n += 1
                own = [y for y in sets if _is_self(y.args[0]) and y.name in KEYCLASS_SETS]
                if own and (cn, m.name) in KEYCLASS_OWN_OK:
                    col.ok(R, m, f"{who}: key class decided with `{coll.pretty()}`", KEYCLASS_OWN_OK[(cn, m.name)], node=x.node or m.node)
                elif cn is not None:
                    col.check(not own, R, m, f"{who}: key class (node / edge) decided with the base module's list of synaptic names",
                              coll.pretty(),
                              f"`{x.short(80)}` consults `{own[0].pretty() if own else ''}`; on a view this lists only the synapse types inside the "
                              f"view, so a synaptic entry of another type is classified as a compartment entry and its edge label is matched "
                              f"against compartment labels", node=x.node or m.node)
                # (2) names of recorded / clamped quantities: the list must contain the synaptic currents as well
                about_states = any(y.name == "synapse_state_names" for y in sets)
                from_registry = T.find(elem, lambda y: (y.op == "attr" and y.name in ("recordings", "externals", "external_inds")) or
                                       (y.op == "param" and y.name in ("externals", "external_inds", "state_name"))) is not None
                if about_states and from_registry and accepts_currents:
                    has_cur = any(y.name == "synapse_current_names" for y in sets)
                    col.check(has_cur, R, m, f"{who}: synaptic currents are classified as edge quantities too",
                              "synapse_state_names + synapse_current_names",
                              f"`{x.short(80)}` classifies the name of a recorded / clamped quantity with `{coll.pretty()}` only; record() and "
                              f"clamp() also accept the synaptic currents `i_<synapse>` as edge quantities (Module._get_state_names), which "
                              f"are stored per synapse type: their global edge index is then used as a position (wrong synapse, or the "
                              f"last one when out of range)", node=x.node or m.node)
    col.rule(R, "node/edge classification of registry keys uses the base module's complete lists of synaptic names", 5)
    if n < 5:
        raise AnalysisError(f"only {n} key-class tests found")


def group_normal_form(repo, col, R="R-C11-groups"):
    """Every value written into the group registry is a sorted array without duplicates: `select(nodes=group)` keeps the
    order and multiplicity it is given, so `net.group._cells_in_view`, the rows a group's trainable is applied to and the
    population order of the connectivity builders all rest on it.  A fresh entry (the rows of a view) is sorted and unique by
    construction; an extension must re-establish the form (np.unique / np.union1d / sort of provably unique parts)."""
    n = 0
    for m in repo.classes["Module"].methods.values():
        ex = idx.expander(repo, m)
        for s_ in ex.stores:
            if s_.kind != "sub" or not (s_.base.op == "attr" and s_.base.name == "groups" and
                                        s_.base.args[0].op == "attr" and s_.base.args[0].name == "base"):
                d = None
                # or: a local dictionary merged into the registry with .update(...)
                if s_.kind == "mcall" and s_.key.name == "update" and s_.base.op == "attr" and s_.base.name == "groups" and \
                        s_.value is not None and len(s_.value.args) == 2:
                    d = s_.value.args[1]
                    accs = {id(y.node) for y in d.walk() if y.op == "dictacc" and y.node is not None}
                    vals = [x for x in ex.stores if x.kind == "sub" and x.value is not None and (x.base.key() == d.key() or id(x.node) in accs)]
                else:
                    continue
            else:
                vals = [s_]
            for w in vals:
                v = w.value
                if v is None:
                    continue
                v = idx.inline(repo, m, v, value_only=True)   # a local helper that computes the entry is looked through
                n += 1
                merges = T.find(v, lambda x: x.op in ("mcall", "call") and x.name in ("concatenate", "hstack", "append", "union1d", "extend")) is not None
                normal = T.find(v, lambda x: x.op in ("mcall", "call") and x.name in ("unique", "union1d")) is not None
                sorted_ = T.find(v, lambda x: x.op in ("mcall", "call") and x.name in ("sort", "sorted")) is not None
                fresh = v.op == "attr" and v.name == "_nodes_in_view"
                ok = fresh or normal or (sorted_ and m.name == "set_ncomp")  # set_ncomp re-sorts disjoint parts of a unique array
                col.add(R, m, f"{m.name}: group entry `{unparse(w.node)[:50]}` is sorted and free of duplicates",
                        "DISCHARGED" if ok else ("VIOLATED" if merges else "UNDECIDED"),
                        "rows of a view / np.unique(...) / np.union1d(...)" if ok else
                        f"the entry is {v.short(90)}: members appear in the order of the add_to_group calls and can repeat; "
                        f"`net.<group>` then lists its cells in that order (the connectivity matrix is matched with the wrong cell pairs) "
                        f"and a repeated member is selected twice", node=w.node)
                # an EXTENSION keeps the members the group already has: on the path where the name is registered, the new entry
                # is built from the old one
                is_new = [g_ for g_ in w.guards if g_.op == "cmp" and g_.name == "not in" and len(g_.args) == 2 and
                          g_.args[1].op == "attr" and g_.args[1].name == "groups" and g_.args[0].key() == w.key.key()]
                if not is_new and m.name == "add_to_group":
                    keeps = T.find(v, lambda x: (x.op == "sub" and x.args[0].op == "attr" and x.args[0].name == "groups" and
                                                 x.args[1].key() == w.key.key()) or
                                   (x.op == "mcall" and x.name in ("get", "setdefault", "pop") and x.args and x.args[0].op == "attr" and
                                    x.args[0].name == "groups" and len(x.args) > 1 and x.args[1].key() == w.key.key())) is not None
                    col.check(keeps, R, m, f"{m.name}: an existing group is extended, not replaced", "old members + rows in view",
                              f"for a name that is already a group the entry becomes {v.short(70)}: the members added earlier are dropped", node=w.node)
    if n < 2:
        raise AnalysisError(f"only {n} writes into the group registry found")


def view_structure(repo, col, R="R-C11-structure"):
    """The structure attributes a View carries are those of ITS OWN branches: the per-branch compartment counts are the base's
    counts at the branches in view, and the cumulative count is the leading-zero cumulative sum of exactly these counts (not a
    prefix of the base's cumulative sum, which is right only for a view that starts at branch 0).  Network construction and
    sparse_connect read them from per-cell views."""
    vi = repo.method("View", "__init__")
    ex = idx.expander(repo, vi)
    st = {}
    for s_ in ex.stores:
        if s_.kind == "attr" and s_.base.op == "param" and s_.base.name == "self" and s_.key.name in ("ncomp_per_branch", "cumsum_ncomp"):
            st[s_.key.name] = s_
    npb, cs = st.get("ncomp_per_branch"), st.get("cumsum_ncomp")
    ok = npb is not None and npb.value.op == "sub" and npb.value.args[0].op == "attr" and npb.value.args[0].name == "ncomp_per_branch" and \
        T.find(npb.value.args[0], lambda x: x.op == "attr" and x.name == "base") is not None and \
        npb.value.args[1].op == "attr" and npb.value.args[1].name == "_branches_in_view" and _is_self(npb.value.args[1].args[0])
    col.check(ok, R, vi, "View.ncomp_per_branch = the base's counts at the branches in view", "base.ncomp_per_branch[self._branches_in_view]",
              f"ncomp_per_branch is {npb.value.short(80) if npb else None}", node=npb.node if npb else vi.node)
    v = idx.inline(repo, vi, cs.value, keep=("cumsum_leading_zero",)) if cs is not None else None
    lz = v is not None and v.op == "call" and v.name == "cumsum_leading_zero" and len(v.args) == 1
    own = lz and npb is not None and v.args[0].key() == npb.value.key()
    col.add(R, vi, "View.cumsum_ncomp = leading-zero cumulative sum of the view's own per-branch counts",
            "DISCHARGED" if own else ("VIOLATED" if v is not None else "UNDECIDED"),
            "cumsum_leading_zero(self.ncomp_per_branch)" if own else
            f"cumsum_ncomp is {v.short(100) if v is not None else None}: for a view that does not start at the module's first branch (a cell "
            f"of a network) or whose branches have other counts than the first ones, the offsets of its branches / its total number of "
            f"compartments are wrong", node=cs.node if cs else vi.node)


def _named(repo, col, R="R-C11-filter"):
    """Selection by group / channel name / synapse type name, and the tables a View shows."""
    fi = repo.method("Module", "__getattr__")
    ex = idx.expander(repo, fi)
    # the views handed out for a group name / channel name / synapse-type name, searched in everything __getattr__ can return
    # (one `if` per kind with its own return, or one if/elif chain with a common tail -- the returned terms are the same)
    terms = list(ex.returns) + [s_.value for s_ in ex.stores if s_.value is not None]
    # a local closure that builds the view (select + bookkeeping on the fresh view) is looked through for the value it returns
    terms = [idx.inline(repo, fi, t_, value_only=True) for t_ in terms]
    sel_calls = [x for t_ in terms for x in t_.walk() if x.op == "mcall" and x.name == "select" and len(x.args) > 1]
    key_p = fi.params[1]
    # groups
    def group_lookup(y, own_only=False):
        """self.groups[key] / self.groups.get(key, ...)"""
        if y.op == "sub" and y.args[0].op == "attr" and y.args[0].name == "groups":
            return (not own_only) or (_is_self(y.args[0].args[0]) and y.args[1].op == "param" and y.args[1].name == key_p)
        if y.op == "mcall" and y.name == "get" and y.args and y.args[0].op == "attr" and y.args[0].name == "groups" and len(y.args) >= 2:
            return (not own_only) or (_is_self(y.args[0].args[0]) and y.args[1].op == "param" and y.args[1].name == key_p)
        return False
    grp = [x for x in sel_calls if T.find(x.args[1], lambda y: group_lookup(y)) is not None]
    ok = any(T.find(x.args[1], lambda y: group_lookup(y, True)) is not None and _is_self(x.args[0]) for x in grp)
    # the whole view (`select(None)`) stands in only for a group the view does not know at all -- never for a group whose part in
    # view is EMPTY (that selection is empty and `select` refuses it; falling back to everything in view would let `set` through
    # `view.<group>` write compartments that are not in the group)
    for t_ in terms:
        for ie in [y for y in t_.walk() if y.op == "ifexp"]:
            alts = [ie.args[1], ie.args[2]]
            whole = [a_ for a_ in alts if a_.op == "mcall" and a_.name == "select" and len(a_.args) > 1 and a_.args[1].op == "const" and a_.args[1].name is None]
            part = [a_ for a_ in alts if a_.op == "mcall" and a_.name == "select" and len(a_.args) > 1 and T.find(a_.args[1], lambda y: group_lookup(y)) is not None]
            if whole and part:
                c_ = ie.args[0]
                while c_.op == "not" or (c_.op == "unary" and c_.name == "Not"):
                    c_ = c_.args[0]
                member = c_.op == "cmp" and c_.name in ("in", "not in") and c_.args[0].op == "param" and c_.args[0].name == key_p and \
                    T.find(c_.args[1], lambda y: y.op == "attr" and y.name == "groups") is not None
                col.check(member, R, fi, "the whole view stands in only for a group the view does not list", "if key in self.groups",
                          f"the fallback to everything in view is decided by `{c_.short(60)}`: a group whose part in this view is empty then "
                          f"selects the WHOLE view instead of nothing", node=fi.node)
    wrong = bool(grp) and not ok
    col.add(R, fi, "group name selects the view's own part of the group", "DISCHARGED" if ok else ("VIOLATED" if wrong else "UNDECIDED"),
            "self.select(self.groups[key])" if ok else f"group selection is {grp[0].short(100) if grp else None}: a group reached through a view must "
            f"be restricted to the view (self.groups, not self.base.groups)", node=fi.node)
    # channel name
    chs = [x for x in sel_calls if T.find(x.args[1], lambda y: y.op == "attr" and y.name == "index") is not None]
    ok = False
    for x in chs:
        ix = T.find(x.args[1], lambda y: y.op == "sub" and y.args[0].op == "attr" and y.args[0].name == "index")
        if ix is not None and ix.args[0].args[0].op == "attr" and ix.args[0].args[0].name == "nodes" and _is_self(ix.args[0].args[0].args[0]) and \
                ix.args[1].op == "sub" and ix.args[1].args[1].op == "param" and ix.args[1].args[1].name == key_p and \
                ix.args[1].args[0].op == "attr" and ix.args[1].args[0].name == "nodes" and _is_self(ix.args[1].args[0].args[0]):
            ok = True
    col.add(R, fi, "channel name selects the rows of the view where the channel's presence column is set",
            "DISCHARGED" if ok else ("VIOLATED" if chs else "UNDECIDED"),
            "self.nodes.index[self.nodes[key]]" if ok else f"channel selection is {chs[0].short(100) if chs else None}", node=fi.node)
    # synapse type name
    edge_calls = [x for t_ in terms for x in t_.walk() if x.op == "mcall" and x.name == "edge" and len(x.args) > 1]
    ok = False
    for x in edge_calls:
        arg = x.args[1]
        eq = T.find(arg, lambda y: y.op == "cmp" and y.name == "==" and y.args[1].op == "param" and y.args[1].name == key_p)
        own_edges = T.find(arg, lambda y: y.op == "attr" and y.name == "edges" and _is_self(y.args[0])) is not None
        gidx = T.find(arg, lambda y: y.op == "const" and y.name == "global_edge_index") is not None
        glob = x.args[0].op == "mcall" and x.args[0].name == "scope" and len(x.args[0].args) > 1 and x.args[0].args[1].op == "const" and \
            x.args[0].args[1].name == "global" and _is_self(x.args[0].args[0])
        restored = any(y.op == "mcall" and y.name == "scope" and y.args[0] is x and len(y.args) > 1 and
                       T.find(y.args[1], lambda z: z.op == "attr" and z.name == "_scope") is not None for t_ in terms for y in t_.walk())
        if eq is not None and T.find(eq.args[0], lambda y: y.op == "const" and y.name == "type") is not None and own_edges and gidx and glob and restored:
            ok = True
    col.add(R, fi, "synapse type name selects the view's edges of that type (global edge indices, caller's scope restored)",
            "DISCHARGED" if ok else ("VIOLATED" if edge_calls else "UNDECIDED"),
            "self.edges[self.edges['type'] == key]['global_edge_index'] -> scope('global').edge(...).scope(orig)" if ok else
            f"synapse selection is {edge_calls[0].short(120) if edge_calls else None}", node=fi.node)
    # what a View shows
    vi = repo.method("View", "__init__")
    exv = idx.expander(repo, vi)
    st = {s.key.name: s for s in exv.stores if s.kind == "attr" and s.base.op == "param" and s.base.name == "self"}
    n_ = st.get("nodes")
    ok = n_ is not None and n_.value.op == "sub" and n_.value.args[0].op == "attr" and n_.value.args[0].name == "loc" and \
        n_.value.args[0].args[0].pretty() == "pointer.nodes"
    col.check(ok, R, vi, "a View's node table = the pointer's node table restricted to the rows in view", "pointer.nodes.loc[self._nodes_in_view]",
              f"nodes = {n_.value.short(80) if n_ else None}", node=n_.node if n_ else vi.node)
    e_ = st.get("edges")
    ok = e_ is not None and T.find(e_.value, lambda x: x.op == "sub" and x.args[0].op == "attr" and x.args[0].name == "loc" and
                                   T.find(x.args[0], lambda y: y.op == "attr" and y.name == "edges" and y.args[0].op == "param") is not None) is not None
    col.check(ok, R, vi, "a View's edge table = the pointer's edge table restricted to the edges in view", "ptr_edges.loc[self._edges_in_view]",
              f"edges = {e_.value.short(80) if e_ else None}", node=e_.node if e_ else vi.node)
    gr = st.get("groups")
    from sa.terms import fuse_comprehensions as _fuse_g
    grv = _fuse_g(gr.value) if gr is not None else None      # a dictionary filled in a loop is the comprehension
    ok = gr is not None and grv.op == "dictcomp" and T.find(grv, lambda x: x.op == "mcall" and x.name == "intersect1d") is not None and \
        T.find(grv, lambda x: x.op == "attr" and x.name == "groups" and x.args[0].op == "param" and x.args[0].name == "pointer") is not None
    col.check(ok, R, vi, "a View's groups = the pointer's groups intersected with the rows in view", "np.intersect1d(v, self._nodes_in_view)",
              f"groups = {gr.value.short(80) if gr else None}", node=gr.node if gr else vi.node)
    # order: indices in view are set before anything that reads them
    calls = [unparse(n.func) for n in ast.walk(vi.node) if isinstance(n, ast.Call) and unparse(n.func).startswith("self._")]
    first = next((n for n in vi.node.body if isinstance(n, ast.Expr) and isinstance(n.value, ast.Call) and unparse(n.value.func).startswith("self._")), None)
    col.check(first is not None and unparse(first.value.func) == "self._set_inds_in_view", R, vi,
              "View.__init__ fixes the rows in view before deriving anything from them", "_set_inds_in_view first",
              f"first derived attribute comes from {unparse(first.value.func) if first else None}", node=first or vi.node)


# --------------------------------------------------------------------------------------


def _is_self(t: T) -> bool:
    return t.op == "param" and t.name == "self"


def _rooted_view_attr(t: T, names) -> bool:
    """t contains `self.<name>` (the view's own attribute, not self.base.<name>)."""
    for x in t.walk():
        if x.op == "attr" and x.name in names and _is_self(x.args[0]):
            return True
    return False


def row_class(rows: T, kind: str) -> str:
    """InView / NewRows / AllRows / Base / Unknown for a row selector of the `kind` table."""
    inview = "_nodes_in_view" if kind == "nodes" else "_edges_in_view"
    if _rooted_view_attr(rows, {inview}):
        return "InView"
    # rows / masks computed from the view's own table: self.nodes[...] / self.nodes.index
    for x in rows.walk():
        if x.op == "attr" and x.name == kind and _is_self(x.args[0]):
            return "InView"
    if rows.op == "slice" and all(a.op == "const" and a.name is None for a in rows.args):
        return "AllRows"
    if any(x.op == "attr" and x.name in ("nodes", "edges") and x.args[0].op == "attr" and x.args[0].name == "base"
           for x in rows.walk()):
        return "Base"
    return "Unknown"


def _module_only(fi) -> bool:
    if any(isinstance(d, ast.Name) and d.id == "only_allow_module" for d in fi.node.decorator_list):
        return True
    for n in walk_no_nested(fi.node):
        if isinstance(n, ast.Assert) and "self.__class__.__name__ in" in unparse(n.test):
            return True
    return False


STRUCTURAL = {
    # (method, what) : reason
    ("_append_params_and_states", "column"): "constructor only: default parameters of a freshly built module",
    ("_append_multiple_synapses", "edges"): "appends the new rows to the whole edge table (old rows are carried over by concat)",
    ("_append_multiple_synapses", "controlled_by_param"): "resets the parameter-sharing helper column of all edges",
    ("set_ncomp", "nodes"): "re-discretisation replaces the node table; judged by C13",
    ("_update_synapse_state_names", "*"): "registry of synapse types of the network",
    ("_init_morph_for_debugging", "*"): "debug bookkeeping",
}


_CTOR_ONLY = {}


def _ctor_only(repo, name: str) -> bool:
    """True if every call `<x>.<name>(...)` in the package sits in an `__init__` of a module class (or in a method that is itself only
    called from there): such a method never runs with a View as its receiver."""
    key = (id(repo), name)
    if key in _CTOR_ONLY:
        return _CTOR_ONLY[key]
    _CTOR_ONLY[key] = False   # cycles: not constructor-only
    sites = []
    for f in repo.all_functions():
        for c in ast.walk(f.node):
            if isinstance(c, ast.Call) and isinstance(c.func, ast.Attribute) and c.func.attr == name:
                sites.append(f)
    ok = bool(sites) and all((f.name == "__init__" and f.cls != "View") or (f.cls and f.name != name and _ctor_only(repo, f.name)) for f in sites)
    _CTOR_ONLY[key] = ok
    return ok


def _confine(repo, col, R="R-C11-confine"):
    n_table = 0
    for cls in ("Module", "Network"):
        for name, fi in repo.classes[cls].methods.items():
            if _module_only(fi) or name in ("__init__",):
                continue
            ex = idx.expander(repo, fi)
            for s in ex.stores:
                b = s.base
                # ---- stores through .loc into a base table
                if s.kind == "sub" and b.op == "attr" and b.name in ("loc", "iloc"):
                    tbl = b.args[0]
                    kind = table_kind(tbl)
                    if kind is None or not any(x.op == "attr" and x.name == "base" for x in tbl.walk()):
                        continue
                    n_table += 1
                    rows = s.key.args[0] if s.key.op == "tuple" else s.key
                    rc = row_class(rows, kind)
                    if rc == "Unknown" and name == "_add_params_to_edges" and rows.op == "param":
                        rc = "NewRows"
                    status = "DISCHARGED" if rc in ("InView", "NewRows") else ("VIOLATED" if rc in ("AllRows", "Base") else "UNDECIDED")
                    col.add(R, fi, f"{name}: {unparse(s.node)[:70]}", status,
                            f"rows are {rc}" if status == "DISCHARGED" else
                            f"`{unparse(s.node)[:90]}` writes the base {kind} table with row selector {rows.short(60)} "
                            f"({rc}): rows outside the view are changed when the method is called on a View", node=s.node)
                    continue
                # ---- whole-column / whole-table stores into base tables
                whole = None
                if s.kind == "sub" and table_kind(b) and b.op == "attr" and b.args[0].op == "attr" and b.args[0].name == "base":
                    whole = ("column", table_kind(b))
                elif s.kind == "attr" and s.key.name in ("nodes", "edges") and b.op == "attr" and b.name == "base":
                    whole = ("table", s.key.name)
                elif s.kind == "mcall" and s.key.name == "drop" and b.op == "attr" and b.name in ("nodes", "edges") and \
                        b.args[0].op == "attr" and b.args[0].name == "base":
                    whole = ("dropcols", b.name)
                if whole is None:
                    continue
                n_table += 1
                what, kind = whole
                txt = unparse(s.node)[:80]
                if name == "insert" and what == "column":
                    # new channel column: guarded by "channel unknown to the BASE", constant False
                    g = [x for x in s.guards if x.op == "cmp" and x.name == "not in"]
                    base_guard = bool(g) and T.find(g[0].args[1], lambda x: x.op == "attr" and x.name == "channels" and
                                                    x.args[0].op == "attr" and x.args[0].name == "base") is not None
                    const_false = s.value.op == "const" and s.value.name is False
                    col.check(base_guard and const_false, R, fi, f"insert: new presence column `{txt}`",
                              "created with False for all rows only when the channel is unknown to the base module",
                              f"the whole presence column is (re)set by `{txt}` under the guard "
                              f"{g[0].short(80) if g else 'none'}: when the channel already exists elsewhere in the module but "
                              f"not in this view, every other compartment loses the channel", node=s.node)
                    continue
                if name == "delete_channel" and what == "dropcols":
                    g = [x for x in s.guards if idx.none_true(x) is not None]
                    ok = bool(g) and T.find(idx.none_true(g[0]), lambda y: y.op == "attr" and y.name == "nodes" and y.args[0].op == "attr"
                                            and y.args[0].name == "base") is not None
                    col.check(ok, R, fi, f"delete_channel: columns dropped only if no compartment of the base keeps the channel",
                              "guard np.all(~self.base.nodes[name])", f"columns are dropped under guard {[x.short(60) for x in s.guards]}",
                              node=s.node)
                    continue
                key = (name, "column" if what == "column" and not (s.key.op == "const" and s.key.name == "controlled_by_param") else
                       ("controlled_by_param" if what == "column" else kind))
                reason = STRUCTURAL.get(key) or STRUCTURAL.get((name, "*"))
                if reason is None and _ctor_only(repo, name):
                    reason = "called from the constructors of the module classes only: the receiver is the freshly built module, never a view"
                col.add(R, fi, f"{name}: {txt}", "DISCHARGED" if reason else "VIOLATED",
                        f"structural site: {reason}" if reason else
                        f"`{txt}` writes a whole {what} of the base {kind} table from a method that can be called on a View",
                        node=s.node)
    if n_table < 12:
        raise AnalysisError(f"only {n_table} table stores found in Module/Network methods")
    # ---- registries
    _registry(repo, col, R)
    widened_receivers(repo, col, R)


def widened_receivers(repo, col, R):
    """A method that writes the rows IN VIEW OF ITS RECEIVER (`self.base.<table>.loc[self._nodes_in_view, ...] = ...`: insert, set,
    delete_channel, compute_compartment_centers, and whatever calls them on self) edits the whole module when it is called on
    `self.base`: the base's view is everything.  No method calls one of them with the base as receiver."""
    W = set()
    mods = [c for c in ("Module", "Network", "View", "Cell", "Branch", "Compartment") if c in repo.classes]
    for cls in mods:
        for name, fi in repo.classes[cls].methods.items():
            ex = idx.expander(repo, fi)
            for s_ in ex.stores:
                if s_.kind == "sub" and s_.base.op == "attr" and s_.base.name in ("loc", "iloc") and s_.key is not None and \
                        T.find(s_.key, lambda x: x.op == "attr" and x.name in ("_nodes_in_view", "_edges_in_view") and _is_self(x.args[0])) is not None:
                    W.add(name)
    if len(W) < 3:
        raise AnalysisError(f"only {sorted(W)} methods found that write the rows in view")
    grew = True
    while grew:
        grew = False
        for cls in mods:
            for name, fi in repo.classes[cls].methods.items():
                if name in W:
                    continue
                if any(isinstance(c, ast.Call) and isinstance(c.func, ast.Attribute) and c.func.attr in W and isinstance(c.func.value, ast.Name)
                       and c.func.value.id == "self" for c in ast.walk(fi.node)):
                    W.add(name)
                    grew = True
    n = 0
    for cls in mods:
        for name, fi in sorted(repo.classes[cls].methods.items()):
            bad = [c for c in ast.walk(fi.node) if isinstance(c, ast.Call) and isinstance(c.func, ast.Attribute) and c.func.attr in W
                   and isinstance(c.func.value, ast.Attribute) and c.func.value.attr == "base"]
            n += 1
            if bad or name in W:
                col.check(not bad, R, fi, f"{cls}.{name}: methods that edit the rows in view are called on the view, not on its base", "",
                          f"`{unparse(bad[0])[:70] if bad else ''}`: `{bad[0].func.attr if bad else ''}` writes the rows in view of its receiver; called on the base it "
                          f"rewrites every row of the module, also those outside the view the user is editing", node=bad[0] if bad else fi.node)
    return n


def _registry(repo, col, R="R-C11-confine"):
    M = lambda n: repo.method("Module", n)
    # add_to_group
    fi = M("add_to_group")
    ex = idx.expander(repo, fi)
    st = [s for s in ex.stores if s.kind == "sub" and s.base.op == "attr" and s.base.name == "groups"]
    if len(st) < 1:
        raise AnalysisError("add_to_group: stores into groups not found")
    for s in st:
        ok = _rooted_view_attr(s.value, {"_nodes_in_view"}) and s.key.op == "param"
        extra = [x for x in s.value.walk() if x.op == "attr" and x.name in ("index", "nodes") and not _is_self(x.args[0])]
        col.check(ok, R, fi, f"add_to_group: {unparse(s.node)[:50]} takes the rows in view", "self._nodes_in_view (united with the group)",
                  f"group receives {s.value.short(80)}", node=s.node)
    # move / rotate
    for name in ("move", "rotate"):
        fi = M(name)
        ex = idx.expander(repo, fi)
        st = [s for s in ex.stores if "xyzr" in s.base.pretty()]
        if not st:
            raise AnalysisError(f"{name}: store into xyzr not found")
        for s in st:
            b = s.base
            ok = b.op == "sub" and b.args[1].op == "elem" and _rooted_view_attr(b.args[1], {"_branches_in_view"})
            col.check(ok, R, fi, f"{name}: coordinates of the branches in view", "for i in self._branches_in_view",
                      f"{name} writes {b.short(80)}", node=s.node)
    fi = M("move_to")
    ex = idx.expander(repo, fi)
    st = [s for s in ex.stores if "xyzr" in s.base.pretty()]
    for s in st:
        ok = T.find(s.base, lambda x: x.op == "attr" and x.name == "_branches_in_view") is not None and \
            T.find(s.base, lambda x: x.op == "attr" and x.name == "cells" and _is_self(x.args[0])) is not None
        col.check(ok, R, fi, "move_to: coordinates of the branches of the cells in view", "cell._branches_in_view for cell in self.cells",
                  f"move_to writes {s.base.short(100)}", node=s.node)
    # compute_compartment_centers handled by the table rule; record / _external_input rows from the view
    fi = M("record")
    ex = idx.expander(repo, fi)
    st = [s for s in ex.stores if s.kind == "attr" and s.key.name == "recordings"]
    ok = any(_rooted_view_attr(s.value, {"_nodes_in_view", "_edges_in_view"}) for s in st)
    col.check(ok, R, fi, "record: recorded rows are the rows in view", "in_view", "recorded rows do not come from the view", node=fi.node)
    fi = M("_external_input")
    ex = idx.expander(repo, fi)
    st = [s for s in ex.stores if s.kind == "sub" and s.base.op == "attr" and s.base.name == "external_inds"]
    for s in st:
        ok = _rooted_view_attr(s.value, {"_nodes_in_view", "_edges_in_view"})
        col.check(ok, R, fi, f"_external_input: {unparse(s.node)[:50]} stores the rows in view", "in-view rows",
                  f"stores {s.value.short(80)}", node=s.node)
    # delete_recordings on a view removes the view's recordings only
    fi = M("delete_recordings")
    ex = idx.expander(repo, fi)
    st = [s for s in ex.stores if s.kind == "attr" and s.key.name == "recordings"]
    for s in st:
        is_view_branch = any("isinstance(self, View)" in g.pretty() and g.op != "not" for g in s.guards)
        if is_view_branch:
            ok = T.find(s.value, lambda x: x.op == "mcall" and x.name == "isin" and _rooted_view_attr(x, {"recordings"})) is not None \
                and T.find(s.value, lambda x: x.op == "unary" and x.name == "Invert") is not None
            col.check(ok, R, fi, "delete_recordings on a view keeps the recordings outside the view",
                      "base_recs[~base_recs.isin(self.recordings).all(axis=1)]", f"assigns {s.value.short(100)}", node=s.node)
    # insert: registry appends guarded by the base's lists
    fi = M("insert")
    ex = idx.expander(repo, fi)
    for s in ex.stores:
        if s.kind == "mcall" and s.key.name == "append":
            which = s.base.name if s.base.op == "attr" else None
            g = [x for x in s.guards if x.op == "cmp" and x.name == "not in"]
            want = "channels" if which == "channels" else "membrane_current_names"
            ok = bool(g) and T.find(g[-1].args[1], lambda x: x.op == "attr" and x.name == want and x.args[0].op == "attr"
                                    and x.args[0].name == "base") is not None
            col.check(ok, R, fi, f"insert: `{unparse(s.node)[:50]}` guarded by membership in the base's {want}",
                      f"not in self.base.{want}", f"guard is {g[-1].short(80) if g else None}", node=s.node)


# --------------------------------------------------------------------------------------


def _str_parts(t):
    """A string built by `+` and f-strings as the list of its pieces (adjacent literals merged)."""
    if t.op == "binop" and t.name == "+":
        raw = _str_parts(t.args[0]) + _str_parts(t.args[1])
    elif t.op == "fstr":
        raw = [p for a in t.args for p in _str_parts(a)]
    elif t.op == "const" and isinstance(t.name, str):
        raw = [t.name]
    elif t.op in ("fmt", "formatted") and t.args:
        raw = _str_parts(t.args[0])
    else:
        raw = [t]
    out = []
    for p_ in raw:
        if isinstance(p_, str) and out and isinstance(out[-1], str):
            out[-1] += p_
        elif p_ != "":
            out.append(p_)
    return out


def lazy_iteration(repo, col, R):
    """`for branch in cell.branches:` must build each view when the loop reaches it: views are snapshots of the row labels,
    and an operation in the loop body that renumbers rows (set_ncomp) makes every view built earlier stale.  The generator
    therefore yields `_at_nodes(level, index)` one by one from a loop over the distinct indices of the live scope; building all
    views first (yield from a list / comprehension, return of a list) splices later edits at the wrong rows."""
    fi = repo.method("Module", "_iter_submodules")
    ys = [n for n in ast.walk(fi.node) if isinstance(n, ast.Yield)]
    yf = [n for n in ast.walk(fi.node) if isinstance(n, ast.YieldFrom)]
    rets = [n for n in ast.walk(fi.node) if isinstance(n, ast.Return) and n.value is not None]
    def builds_views(n):
        return any(isinstance(c, ast.Call) and isinstance(c.func, ast.Attribute) and c.func.attr == "_at_nodes" for c in ast.walk(n))
    lazy = [y for y in ys if y.value is not None and isinstance(y.value, ast.Call) and isinstance(y.value.func, ast.Attribute)
            and y.value.func.attr == "_at_nodes"]
    eager = [n for n in yf + rets if builds_views(n) and any(isinstance(x, (ast.ListComp, ast.List, ast.Tuple)) or
             (isinstance(x, ast.Call) and isinstance(x.func, ast.Name) and x.func.id in ("list", "tuple")) for x in ast.walk(n.value))]
    stored = [n for n in ast.walk(fi.node) if isinstance(n, ast.Assign) and builds_views(n.value) and
              any(isinstance(x, (ast.ListComp, ast.List)) for x in ast.walk(n.value))]
    in_loop = any(isinstance(lp, ast.For) and any(y in ast.walk(lp) for y in lazy) for lp in ast.walk(fi.node))
    if not lazy and not eager and not stored:
        col.unk(R, fi, "_iter_submodules builds one view per index", "neither a lazy nor an eager construction of the views recognised", node=fi.node)
        return
    col.check(bool(lazy) and in_loop and not eager and not stored, R, fi, "_iter_submodules builds each view when the iteration reaches it (lazy)",
              "for idx in idxs: yield self._at_nodes(name, idx)",
              "all views are built before the first one is handed out: an edit made through one view during the loop (set_ncomp renumbers "
              "the rows) leaves the remaining views stale, and they write to other compartments", node=(eager + stored + [fi.node])[0])
    ex = idx.expander(repo, fi)
    src_idx = None
    for lp in ast.walk(fi.node):
        if isinstance(lp, (ast.For, ast.comprehension)):
            src_idx = src_idx or ex.term(lp.iter)
    ok = src_idx is not None and T.find(src_idx, lambda x: x.op == "mcall" and x.name == "unique") is not None and \
        T.find(src_idx, lambda x: x.op == "attr" and x.name == "_scope") is not None and \
        T.find(src_idx, lambda x: x.op == "attr" and x.name == "nodes" and _is_self(x.args[0])) is not None
    col.check(ok, R, fi, "_iter_submodules iterates the distinct <scope>_<level>_index values of the view's own rows", "self.nodes[scope_level_index].unique()",
              f"iterates over {src_idx.short(80) if src_idx is not None else None}", node=fi.node)


def _filter(repo, col, R="R-C11-filter"):
    for name, tbl, inview in (("_at_nodes", "nodes", None), ("_at_edges", "edges", None)):
        fi = repo.method("Module", name)
        ex = idx.expander(repo, fi)
        call = next((c for c in ex.calls if isinstance(c.func, ast.Name) and c.func.id == "View"), None)
        if call is None:
            raise AnalysisError(f"{name} no longer builds a View")
        t = ex.term(call)
        inds = t.kw.get(tbl) or (t.args[1] if len(t.args) > 1 and tbl == "nodes" else (t.args[2] if len(t.args) > 2 else None))
        other = "edges" if tbl == "nodes" else "nodes"
        col.check(inds is not None and other not in t.kw and t.args[0].op == "param" and t.args[0].name == "self", R, fi,
                  f"{name}: View(self, {tbl}=...)", "only this table is filtered", f"View built as {t.short(120)}", node=call)
        ok = False
        ix = isin = colname = None
        if inds is not None:
            inds = idx.inline(repo, fi, inds)  # a row-matching helper shared by _at_nodes/_at_edges is looked through
        detail = inds.short(140) if inds is not None else None
        if inds is not None:
            # self.<tbl>.index[ self.<tbl>[scope + "_<key>_index"].isin(idx) ]
            ix = T.find(inds, lambda x: x.op == "sub" and x.args[0].op == "attr" and x.args[0].name == "index")
            if ix is not None:
                owner = ix.args[0].args[0]
                isin = T.find(ix.args[1], lambda x: x.op == "mcall" and x.name == "isin")
                own_tbl = owner.op == "attr" and owner.name == tbl and _is_self(owner.args[0])
                colname = None
                if isin is not None and isin.args[0].op == "sub":
                    c = isin.args[0]
                    own2 = c.args[0].op == "attr" and c.args[0].name == tbl and _is_self(c.args[0].args[0])
                    colname = c.args[1]
                    k = fi.params[1]
                    parts = _str_parts(colname)
                    name_ok = len(parts) == 4 and not isinstance(parts[0], str) and parts[0].op == "attr" and parts[0].name == "_scope" and \
                        _is_self(parts[0].args[0]) and parts[1] == "_" and not isinstance(parts[2], str) and parts[2].op == "param" and \
                        parts[2].name == k and parts[3] == "_index"
                    ok = own_tbl and own2 and name_ok
                    detail = f"index owner {owner.short()}, column {colname.short()}"
        col.check(ok, R, fi, f"{name}: rows of the view's own table whose <scope>_<key>_index is selected",
                  f"self.{tbl}.index[self.{tbl}[self._scope + '_<key>_index'].isin(idx)]",
                  f"{name} selects {detail}", node=call)
        # ... by MEMBERSHIP, on every path: an index list is a set of numbers in any order, possibly with repetitions and gaps; a path that
        # replaces the membership test by a comparison with some of its entries (`col >= idx[0]`) selects everything in between
        if ix is not None:
            def alts_(t_):
                if t_.op in ("phi", "ifexp"):
                    out_ = []
                    for a_ in (t_.args if t_.op == "phi" else t_.args[1:]):
                        out_ += alts_(a_)
                    return out_
                return [t_]
            for m_ in alts_(ix.args[1]):
                has_isin = T.find(m_, lambda x: x.op == "mcall" and x.name in ("isin", "in1d")) is not None
                of_idx = lambda a_: T.find(a_, lambda y: y.op == "param" and y.name == fi.params[2]) is not None
                rng = T.find(m_, lambda x: (x.op == "cmp" and x.name in ("<", "<=", ">", ">=") and any(of_idx(a_) for a_ in x.args)) or
                             (x.op == "mcall" and x.name in ("between", "clip") and any(of_idx(a_) for a_ in x.args[1:]))) if len(fi.params) > 2 else None
                if has_isin and rng is None:
                    continue
                # every row: the mask that 'all' stands for, written out (np.ones(n, dtype=bool), np.full(n, True))
                all_true = m_.op == "mcall" and ((m_.name == "ones" and m_.kw.get("dtype") is not None and m_.kw["dtype"].name == "bool") or
                                                 (m_.name == "full" and len(m_.args) > 2 and m_.args[2].op == "const" and m_.args[2].name is True) or
                                                 (m_.name == "ones_like" and m_.kw.get("dtype") is not None and m_.kw["dtype"].name == "bool"))
                if all_true and rng is None:
                    continue
                col.add(R, fi, f"{name}: rows are selected by membership of their index in the given list, on every path",
                        "VIOLATED" if rng is not None else "UNDECIDED",
                        (f"on one path the rows are selected with `{rng.short(70)}`: a comparison with single entries of the index list selects every row "
                         f"in between (`branch([0, 3, 2])` would select branches 0..2, `branch([1, 1, 3])` 1..3); the list is a set of indices, in any "
                         f"order, with repetitions and gaps") if rng is not None else f"row mask {m_.short(90)}", node=m_.node or call)
        # "all" is expanded with the values of the SAME column the membership test reads (so it selects every row in view, in any scope)
        if inds is not None and ix is not None and isin is not None and colname is not None:
            arg = next((a_ for a_ in isin.args[1:] if a_.op != "free"), None)
            # the index is `<column of the table> if <idx is "all"> else <reformatted idx>` (the helper that recognises "all" may be inlined)
            is_col = lambda b: b.op == "sub" and b.args[0].op == "attr" and b.args[0].name == tbl
            alt = T.find(arg, lambda x: x.op == "ifexp" and (is_col(x.args[1]) != is_col(x.args[2]))) if arg is not None else None
            if alt is None and any(m_.op == "mcall" and m_.name in ("ones", "full", "ones_like") for m_ in alts_(ix.args[1])):
                col.ok(R, fi, f"{name}: 'all' selects every row in view", "an all-True mask over the view's own rows", node=call)
            elif alt is None:
                col.unk(R, fi, f"{name}: 'all' selects every row in view", "the expansion of 'all' was not found", node=call)
            else:
                allv = alt.args[1] if is_col(alt.args[1]) else alt.args[2]
                same = allv.op == "sub" and allv.args[1].key() == colname.key() and allv.args[0].key() == isin.args[0].args[0].key()
                col.check(same, R, fi, f"{name}: 'all' is expanded with the values of the column that is tested", "self.<table>[col] for the same col",
                          f"'all' becomes `{allv.short(70)}` but membership is tested in `{isin.args[0].short(70)}`: with local scope the two number spaces differ "
                          f"and 'all' selects only part of the view", node=call)
        sc = next((c for c in ex.calls if isinstance(c.func, ast.Attribute) and c.func.attr == "_set_controlled_by_param"), None)
        col.check(sc is not None and unparse(sc.args[0]) == fi.params[1], R, fi, f"{name}: view is labelled with its key", "",
                  "the view is not labelled with the selection key", node=sc or fi.node)
    for name, lit, inner in (("cell", "cell", "_at_nodes"), ("branch", "branch", "_at_nodes"), ("comp", "comp", "_at_nodes"),
                             ("edge", "edge", "_at_edges")):
        fi = repo.method("Module", name)
        ex = idx.expander(repo, fi)
        r = ex.returns[0] if ex.returns else None
        ok = r is not None and r.op == "mcall" and r.name == inner and _is_self(r.args[0]) and r.args[1].op == "const" and \
            r.args[1].name == lit and r.args[2].op == "param"
        col.check(ok, R, fi, f"{name}(idx) == self.{inner}('{lit}', idx)", "own name",
                  f"{name} returns {r.short() if r else None}", node=fi.node)
    # lazy indexing, iteration -- on terms
    from sa.terms import fuse_comprehensions as _fuse
    fi = repo.method("Module", "__getitem__")
    ex = idx.expander(repo, fi)
    at = [c for c in ex.calls if isinstance(c.func, ast.Attribute) and c.func.attr == "_at_nodes"]
    ok, det = False, None
    for c in at:
        raw = ex.term(c)
        t = _fuse(raw)
        det = t.short(120)
        if len(t.args) != 3:
            continue
        recv, lvl, ix = t.args
        chained = recv.op == "phi" and any(a_.op == "carried" for a_ in recv.args) and any(_is_self(a_) for a_ in recv.args)
        lvl_ok = lvl.op == "elem" and lvl.args[0].op == "mcall" and lvl.args[0].name == "_childviews" and _is_self(lvl.args[0].args[0])
        ix_ok = ix.op == "elem" and T.find(ix.args[0], lambda x: x.op == "param" and x.name == fi.params[1]) is not None
        # both come from ONE zip (level k is paired with index k)
        zips = {x.args[0].key() for x in raw.walk() if x.op == "item" and x.args[0].op == "elem" and x.args[0].args[0].op == "call" and x.args[0].args[0].name == "zip"}
        ok = ok or (chained and lvl_ok and ix_ok and len(zips) == 1)
    col.add(R, fi, "__getitem__ applies _at_nodes level by level along the hierarchy", "DISCHARGED" if ok else ("VIOLATED" if at else "UNDECIDED"),
            "view = view._at_nodes(level_k, index_k) for (index_k, level_k) in zip(index, self._childviews()), starting from self" if ok else
            f"the indexing step is {det}: index k must be applied at the k-th level below the current one, each step on the view of the previous one",
            node=at[0] if at else fi.node)
    # only a TUPLE is one index per level; a list / array / slice / int is ONE index for the first level (`net[[0, 2]]` = cells 0 and 2)
    zc = None
    for c in at:
        zc = zc or T.find(ex.term(c), lambda x: x.op == "call" and x.name == "zip")
    seq = next((a_ for a_ in (zc.args if zc is not None else []) if T.find(a_, lambda x: x.op == "param" and x.name == fi.params[1]) is not None), None)
    if seq is None:
        col.unk(R, fi, "__getitem__: only a tuple is split into one index per level", "index sequence not found", node=fi.node)
    else:
        ip = fi.params[1]
        is_p = lambda t: t.op == "param" and t.name == ip
        wrap = lambda t: t.op == "tuple" and len(t.args) == 1 and is_p(t.args[0])
        ok_ = seq.op == "ifexp" and seq.args[0].op == "call" and seq.args[0].name == "isinstance" and is_p(seq.args[0].args[0]) and \
            seq.args[0].args[1].op in ("free", "name", "builtin") and seq.args[0].args[1].name == "tuple" and is_p(seq.args[1]) and wrap(seq.args[2])
        split_other = seq.op == "ifexp" and T.find(seq.args[0], lambda x: x.op in ("free", "name", "builtin") and x.name in ("list", "ndarray", "Sequence", "Iterable")) is not None
        col.add(R, fi, "__getitem__: only a tuple is split into one index per level", "DISCHARGED" if ok_ else ("VIOLATED" if split_other else "UNDECIDED"),
                "index if isinstance(index, tuple) else (index,)" if ok_ else
                f"the per-level indices are `{seq.short(110)}`: a list / array given as ONE index (`net[[0, 2]]`: cells 0 and 2) is split into one entry per "
                f"level (cell 0, branch 2)", node=at[0] if at else fi.node)
    fi = repo.method("Module", "_childviews")
    exc_ = idx.expander(repo, fi)
    mr = exc_.merged_return()
    lv = None
    if mr is not None:
        lv = T.find(mr, lambda x: x.op == "list" and len(x.args) == 4 and all(a_.op == "const" for a_ in x.args))
    ok = lv is not None and [a_.name for a_ in lv.args] == ["network", "cell", "branch", "comp"]
    col.check(ok, R, fi, "hierarchy is network > cell > branch > comp", "", f"levels {lv.short(60) if lv is not None else None}", node=fi.node)
    sl = T.find(mr, lambda x: x.op == "sub" and x.args[1].op == "slice" and x.args[0].op == "list") if mr is not None else None
    ok = False
    if sl is not None:
        lo, hi, st_ = sl.args[1].args
        ok = hi.op == "const" and hi.name is None and lo.op == "binop" and lo.name == "+" and \
            any(a_.op == "const" and a_.name == 1 for a_ in lo.args) and \
            any(a_.op == "mcall" and a_.name == "index" and a_.args[0].key() == sl.args[0].key() and len(a_.args) == 2 and
                a_.args[1].op == "attr" and a_.args[1].name == "_current_view" and _is_self(a_.args[1].args[0]) for a_ in lo.args)
    col.add(R, fi, "children are the levels below the current one", "DISCHARGED" if ok else ("VIOLATED" if sl is not None else "UNDECIDED"),
            "levels[index(current)+1:]" if ok else f"children are {sl.short(100) if sl is not None else None}", node=fi.node)
    fi = repo.method("Module", "_iter_submodules")
    ex = idx.expander(repo, fi)
    lazy_iteration(repo, col, R)

    def iterates(fi_, want):
        """the generator the method hands out is self._iter_submodules(<want>)"""
        ex_ = idx.expander(repo, fi_)
        for c in ex_.calls:
            if isinstance(c.func, ast.Attribute) and c.func.attr == "_iter_submodules":
                t = ex_.term(c)
                if len(t.args) == 2 and _is_self(t.args[0]) and want(t.args[1]):
                    return True, t
                return False, t
        return False, None
    for name, lit in (("cells", "cell"), ("branches", "branch"), ("comps", "comp")):
        fi = repo.method("Module", name)
        ok, t = iterates(fi, lambda a_: a_.op == "const" and a_.name == lit)
        col.add(R, fi, f"{name} iterates level '{lit}'", "DISCHARGED" if ok else ("VIOLATED" if t is not None else "UNDECIDED"),
                f"self._iter_submodules('{lit}')" if ok else f"{name} iterates {t.short(60) if t is not None else None}", node=fi.node)
    fi = repo.method("Module", "__iter__")
    ok, t = iterates(fi, lambda a_: a_.op == "sub" and a_.args[1].op == "const" and a_.args[1].name == 0 and a_.args[0].op == "mcall" and
                     a_.args[0].name == "_childviews" and _is_self(a_.args[0].args[0]))
    col.add(R, fi, "__iter__ iterates the next level of the hierarchy", "DISCHARGED" if ok else ("VIOLATED" if t is not None else "UNDECIDED"),
            "self._iter_submodules(self._childviews()[0])" if ok else f"__iter__ iterates {t.short(80) if t is not None else None}", node=fi.node)
    # scope(): fresh view, only the scope changes
    fi = repo.method("Module", "scope")
    ex = idx.expander(repo, fi)
    r = ex.returns[0] if ex.returns else None
    ok = r is not None and r.op == "attr" and r.name == "view" and _is_self(r.args[0]) and \
        any(isinstance(c.func, ast.Attribute) and c.func.attr == "set_scope" and ex.term(c.func.value).key() == r.key() for c in ex.calls)
    col.check(ok, R, fi, "scope() returns a fresh view with only the scope changed", "view = self.view; view.set_scope(scope)",
              f"scope returns {r.short() if r else None}", node=fi.node)
    fi = repo.method("Module", "view")
    ex = idx.expander(repo, fi)
    r = ex.returns[0] if ex.returns else None
    ok = r is not None and r.op == "call" and r.name == "View" and [a.pretty() for a in r.args] == ["self", "self._nodes_in_view", "self._edges_in_view"]
    col.check(ok, R, fi, "view == View(self, self._nodes_in_view, self._edges_in_view)", "", f"view returns {r.short() if r else None}", node=fi.node)
    # select
    fi = repo.method("Module", "select")
    ex = idx.expander(repo, fi)
    call = next((c for c in ex.calls if isinstance(c.func, ast.Name) and c.func.id == "View"), None)
    t = ex.term(call) if call is not None else None
    ok = t is not None and len(t.args) == 3 and all(T.find(a, lambda x: x.op == "param" and x.name == p) is not None
                                                     for a, p in zip(t.args[1:], ("nodes", "edges")))
    col.check(ok, R, fi, "select(nodes, edges) builds View(self, nodes, edges)", "", f"View built as {t.short(140) if t else None}", node=call or fi.node)


def _index(repo, col, R="R-C11-index"):
    fi = repo.method("Module", "_reformat_index")
    ex = idx.expander(repo, fi)

    def is_slice_test(t):
        return t.op == "call" and t.name == "isinstance" and len(t.args) == 2 and T.find(t.args[1], lambda y: y.op == "free" and y.name == "slice") is not None

    q = None
    for r in ex.returns:
        q = T.find(r, lambda x: x.op == "ifexp" and is_slice_test(x.args[0]))
        if q is not None:
            break
    if q is None:
        col.unk(R, fi, "_reformat_index: slice expansion", "no value of the returned index is conditional on `isinstance(idx, slice)`", node=fi.node)
        return
    X, t = q.args[0].args[0], q.args[1]
    xk = X.key()
    is_x = lambda y: y.key() == xk
    node = next((n_ for n_ in ast.walk(fi.node) if isinstance(n_, ast.Call) and unparse(n_.func) == "isinstance" and len(n_.args) == 2
                 and "slice" in unparse(n_.args[1])), fi.node)
    rng = T.find(t, lambda x: x.op in ("mcall", "call") and x.name in ("arange", "range"))
    # the row count the slice is resolved against: the argument of arange(N)[slice], or of slice.indices(N)
    ind = T.find(t, lambda x: x.op == "mcall" and x.name == "indices" and is_x(x.args[0]))
    rargs = [a for a in (rng.args if rng is not None else []) if a.op != "free"]
    bound = ind.args[1] if ind is not None and len(ind.args) > 1 else (rargs[0] if len(rargs) == 1 else None)
    over_base = bound is not None and T.find(bound, lambda x: x.op == "attr" and x.name in ("nodes",) and x.args[0].op == "attr"
                                             and x.args[0].name == "base") is not None
    over_view = bound is not None and T.find(bound, lambda x: x.op == "attr" and x.name in ("nodes", "_nodes_in_view") and _is_self(x.args[0])) is not None
    col.add(R, fi, "slice indices are expanded over the rows of the base module",
            "DISCHARGED" if over_base else ("VIOLATED" if over_view else "UNDECIDED"),
            "np.arange(len(self.base.nodes))[slice]: an upper bound of every local and global index" if over_base else
            f"a slice is expanded over {bound.short(60) if bound is not None else '?'}: the number of rows of a *view* is not an "
            f"upper bound of global indices, so global slices on sub-views are truncated or empty", node=node)
    # the slice is applied whole: start, stop AND step
    by_subscript = T.find(t, lambda x: x.op == "sub" and is_x(x.args[1]) and T.find(x.args[0], lambda y: y is rng) is not None) is not None if rng is not None else False
    part = lambda a: ("start" if (a.op == "item" and a.name == 0) or (a.op == "attr" and a.name == "start") else
                      "stop" if (a.op == "item" and a.name == 1) or (a.op == "attr" and a.name == "stop") else
                      "step" if (a.op == "item" and a.name == 2) or (a.op == "attr" and a.name == "step") else None) \
        if T.find(a, is_x) is not None else None
    parts = [part(a) for a in rargs]
    starred = len(rargs) == 1 and rargs[0].op == "star" and T.find(rargs[0], lambda x: x.op == "mcall" and x.name == "indices" and is_x(x.args[0])) is not None
    if by_subscript or starred or parts[:3] == ["start", "stop", "step"]:
        col.ok(R, fi, "a slice index keeps its start, stop and step", "np.arange(n)[slice]" if by_subscript else "arange(start, stop, step) of the slice", node=node)
    elif parts and parts[0] == "start" and "step" not in parts:
        col.add(R, fi, "a slice index keeps its start, stop and step", "VIOLATED",
                f"the slice is expanded as {rng.short(90)}: its step is dropped, `net.cell(slice(0, 7, 2))` selects every cell of the range", node=node)
    else:
        col.unk(R, fi, "a slice index keeps its start, stop and step", f"slice expansion {t.short(120)} not recognised", node=node)


def _rerank(repo, col):
    """Local indices: the cell index is the dense rank of the global cell index, the branch index the dense rank of the global
    branch index WITHIN its cell, the compartment index the dense rank WITHIN (cell, branch) -- decided on terms: the columns
    each re-ranking call receives (whatever the lists of column names are called), the ranking function, the grouping."""
    R = "R-C11-rerank"
    from sa.terms import fuse_comprehensions as _fuse
    from sa.termalg import term_rat
    from sa.algebra import Rat, Und
    fi = repo.method("Module", "_update_local_indices")
    ex = idx.expander(repo, fi)

    def colname(t):
        parts = _str_parts(_fuse(t))
        return "".join(parts) if parts and all(isinstance(p_, str) for p_ in parts) else None

    helper = None
    pairs, seen_calls = {}, []
    for c in ex.calls:
        if isinstance(c.func, ast.Name) and c.func.id in ex.nested:
            ne = ex.nested[c.func.id]
            t = _fuse(ex.term(c))
            m = idx._bind(ne.fi.node, list(t.args), t.kw)
            if m is None or len(ne.fi.params) < 3:
                continue
            pa, pb = ne.fi.params[1], ne.fi.params[2]
            a_ = colname(m[pa]) if pa in m else None
            if a_ is None or not a_.startswith("global_"):
                continue
            helper = ne
            bt = _fuse(m[pb]) if pb in m else None
            if bt is None or (bt.op == "const" and bt.name is None):
                b_ = ()
            elif bt.op in ("list", "tuple"):
                b_ = tuple(colname(x) for x in bt.args)
            else:
                b_ = (colname(bt),)
            pairs[a_] = b_
            seen_calls.append(c)
    want = {"global_cell_index": (), "global_branch_index": ("global_cell_index",),
            "global_comp_index": ("global_cell_index", "global_branch_index")}
    labels = {"global_cell_index": "cell ranked globally", "global_branch_index": "branch ranked within cell",
              "global_comp_index": "comp ranked within (cell, branch)"}
    def groups_ok(a_, got):
        # global branch indices are unique across cells, so grouping by the branch alone IS grouping by (cell, branch)
        if a_ == "global_comp_index":
            return "global_branch_index" in got and set(got) <= {"global_cell_index", "global_branch_index"}
        return set(got) == set(want[a_])
    for a_, lab in labels.items():
        got = pairs.get(a_)
        col.add(R, fi, f"local index: {lab}", "DISCHARGED" if (got is not None and groups_ok(a_, got)) else ("VIOLATED" if got is not None else "UNDECIDED"),
                f"{a_} re-ranked within {want[a_] or 'the whole view'}" if got is not None and groups_ok(a_, got) else
                f"{a_} is re-ranked within {got}, required within {want[a_] or 'the whole view'}", node=seen_calls[0] if seen_calls else fi.node)
    if helper is None:
        col.unk(R, fi, "ranking helper", "re-ranking helper not found", node=fi.node)
        return
    pa, pb = helper.fi.params[1], helper.fi.params[2]
    st = [s_ for s_ in helper.stores if s_.kind == "sub" and s_.value is not None]
    dense = grouped = False
    bad_rank = None
    for s_ in st:
        v = idx.inline(repo, helper.fi, s_.value)
        # the ranking function: a lambda / local function applied to the (grouped) column
        body = None
        if v.op == "callv" and v.args and v.args[0].op == "lambda":
            body = v.args[0].args[0]
            arg = v.args[1] if len(v.args) > 1 else None
        else:
            lam = T.find(v, lambda x: x.op == "lambda")  # e.g. grouped[a].transform(lambda col: ...)
            body, arg = (lam.args[0] if lam is not None else v), v
        fz = T.find(body, lambda x: x.op == "mcall" and x.name == "factorize")
        if fz is not None:
            srt = fz.kw.get("sort")
            if srt is not None and srt.op == "const" and srt.name is True:
                dense = True
            else:
                bad_rank = body  # numbered by first appearance: equals the dense rank only for ascending rows
        rk = T.find(body, lambda x: x.op == "mcall" and x.name == "rank")
        if rk is not None:
            meth = rk.kw.get("method")
            try:
                form = term_rat(body, lambda x: Rat.atom("r") if x is rk else (term_rat(x.args[0], lambda y: Rat.atom("r") if y is rk else None)
                                                                               if (x.op == "mcall" and x.name == "astype") else None))
                zero_based = form.eq(Rat.atom("r") - Rat.const(1))
            except Und:
                zero_based = False
            if meth is not None and meth.op == "const" and meth.name == "dense" and zero_based:
                dense = True
            else:
                bad_rank = body
        if arg is not None:
            g = T.find(arg, lambda x: x.op == "mcall" and x.name == "groupby" and len(x.args) == 2 and x.args[1].op == "param" and x.args[1].name == pb)
            sel = T.find(arg, lambda x: x.op == "sub" and x.args[1].op == "param" and x.args[1].name == pa)
            tgt = T.find(s_.key, lambda x: x.op == "param" and x.name == pa) is not None
            grouped = grouped or (g is not None and sel is not None and tgt)
    if bad_rank is not None:
        dense = False
    col.add(R, fi, "ranks are dense and zero-based", "DISCHARGED" if dense else ("VIOLATED" if bad_rank is not None else "UNDECIDED"),
            "rank(method='dense') - 1" if dense else f"ranking is {bad_rank.short(80) if bad_rank is not None else None}: local indices must be the dense, zero-based RANK of the "
            f"global index (0, 1, 2, ... in ascending order of the global index, without gaps), whatever the order of the rows in view", node=fi.node)
    col.add(R, fi, "re-ranking of column a happens within groups of b", "DISCHARGED" if grouped else ("VIOLATED" if st else "UNDECIDED"),
            "df.loc[:, a] = rerank(df.groupby(b)[a])" if grouped else "the helper no longer ranks column a within the groups of b", node=helper.fi.node)


def _edges(repo, col, R="R-C11-edges"):
    fi = repo.method("View", "_set_inds_in_view")
    ex = idx.expander(repo, fi)
    from sa.terms import fuse_comprehensions as _fuse

    class _S:  # a store with its value in normal form (helpers of the class looked through)
        def __init__(self, s_, value, path=()):
            self.key, self.guards, self.node = s_.key, tuple(s_.guards) + tuple(path), s_.node
            self.value = value

    def _alts(t_, path=()):
        """the alternatives of a conditional value: one store per branch, or one store of a value chosen branch by branch -- the same"""
        if t_.op == "ifexp":
            return _alts(t_.args[1], path + (t_.args[0],)) + _alts(t_.args[2], path + (T("not", None, [t_.args[0]]),))
        return [(t_, path)]
    st = {}
    for s in ex.stores:
        if s.kind == "attr" and s.key.name in ("_nodes_in_view", "_edges_in_view"):
            from sa.terms import canon as _canon
            for v_, path_ in _alts(_canon(_fuse(idx.inline(repo, fi, s.value)))):
                o_ = _S(s, v_, path_)
                st[("n" if s.key.name == "_nodes_in_view" else "e", tuple(g.key() for g in o_.guards))] = o_
    # node-selected view: the store of the edges that is computed from the two end columns (whatever the branch is called)
    def has_const(t_, c_):
        return T.find(t_, lambda y: y.op == "const" and y.name == c_) is not None
    cand = [s for (w, g), s in st.items() if w == "e" and s.value.op == "mcall" and s.value.name == "intersect1d"
            and has_const(s.value, "pre_global_comp_index")]
    if not cand:
        # the edges computed from the two end columns, but no longer intersected with anything
        loose = [s for (w, g), s in st.items() if w == "e" and has_const(s.value, "pre_global_comp_index") and has_const(s.value, "post_global_comp_index")]
        if not loose:
            raise AnalysisError("View._set_inds_in_view: edges of a node-selected view not found")
        col.bad(R, fi, "edges are intersected with the parent view's edges",
                f"the edges of a node-selected view are `{loose[0].value.short(90)}`: every edge of the MODULE with both ends in view, also "
                f"edges the parent view does not contain (edges added after the parent view was created, edges excluded by an earlier "
                f"`.edge(...)` selection); sub-views then address rows their parent's tables do not have", node=loose[0].node)
        return
    s = cand[0]
    AND, OTHER = {"&", "logical_and", "*", "multiply"}, {"|", "^", "logical_or", "logical_xor", "+", "add"}
    both = T.find(s.value, lambda x: ((x.op == "binop" and x.name in AND | OTHER) or (x.op == "mcall" and x.name in AND | OTHER)) and
                  has_const(x, "pre_global_comp_index") and has_const(x, "post_global_comp_index") and
                  sum(1 for a_ in x.args if has_const(a_, "pre_global_comp_index") or has_const(a_, "post_global_comp_index")) >= 2)
    col.check(both is not None and both.name in AND, R, fi, "node-selected view keeps an edge iff both ends are in view",
              "pre & post", f"the two end masks are combined with `{both.name if both else '?'}`: an edge with only one end in "
                            f"view would be shown and edited through the view", node=s.node)
    parent = any(x.op == "attr" and x.name == "_edges_in_view" and x.args[0].op == "param" and x.args[0].name == "pointer"
                 for a_ in s.value.args[1:] for x in a_.walk())
    col.check(parent, R, fi, "edges are intersected with the parent view's edges", "np.intersect1d(possible, pointer._edges_in_view)",
              "edges of the parent view are not taken into account", node=s.node)
    incl = T.find(s.value, lambda x: x.op == "mcall" and x.name == "isin")
    ok = incl is not None and T.find(incl, lambda x: x.op == "const" and x.name == "global_comp_index") is not None and \
        T.find(incl, lambda x: x.op == "param" and x.name == "nodes") is not None
    col.check(ok, R, fi, "ends are matched against the compartments of the selected nodes", "isin(incl_comps)",
              "ends are not matched against the selected compartments", node=s.node)
    cand = [s2 for (w, g), s2 in st.items() if w == "n" and s2.value.op == "mcall" and s2.value.name == "intersect1d"]
    if not cand:
        col.unk(R, fi, "edge-selected view keeps the pre and post compartments of its edges (within the parent)", "the nodes of an edge-selected view were not found", node=fi.node)
    if cand:
        s2 = cand[0]
        ok = T.find(s2.value, lambda x: x.op == "list" and {a_.name for a_ in x.args if a_.op == "const"} ==
                    {"pre_global_comp_index", "post_global_comp_index"}) is not None and \
            any(x.op == "attr" and x.name == "_nodes_in_view" and x.args[0].op == "param" for x in s2.value.walk())
        col.check(ok, R, fi, "edge-selected view keeps the pre and post compartments of its edges (within the parent)",
                  "both end columns, intersected with pointer._nodes_in_view", f"nodes are {s2.value.short(120)}", node=s2.node)


def channels_in_view(repo, col, R):
    """View._channels_in_view: a channel belongs to a view iff SOME compartment in view carries it.  `.all` (every compartment) hides a
    channel that covers the view only partly; `view.<Channel>` then no longer restricts the view (Module.__getattr__ falls back to the
    whole view for names that are not among the view's channels) and set() / record() through it touch rows without the channel."""
    fi = repo.method("View", "_channels_in_view")
    ex = idx.expander(repo, fi)
    from sa.terms import fuse_comprehensions as _fuse
    r = ex.merged_return() if len(ex.returns) != 1 else ex.returns[0]
    if r is None:
        raise AnalysisError("View._channels_in_view has no return value")
    r = _fuse(idx.inline(repo, fi, r, value_only=True))
    red = T.find(r, lambda x: x.op == "mcall" and x.name in ("any", "all", "sum", "max", "min", "mean", "prod") and
                 T.find(x, lambda y: y.op == "attr" and y.name == "nodes") is not None)
    if red is None:
        col.unk(R, fi, "a channel is in view iff some compartment in view carries it", f"reduction over the rows in view not found in {r.short(100)}", node=fi.node)
        return
    own = T.find(red.args[0], lambda y: y.op == "attr" and y.name == "nodes" and y.args[0].op == "param" and y.args[0].name == "self") is not None
    ax = red.kw.get("axis") or (red.args[1] if len(red.args) > 1 else None)
    rows = ax is None or (ax.op == "const" and ax.name in (0, "index", "rows"))
    verdict = "DISCHARGED" if (red.name in ("any", "max") and own and rows) else ("VIOLATED" if red.name in ("all", "min", "prod") or not own or not rows else "UNDECIDED")
    if verdict == "UNDECIDED" and red.name in ("sum", "mean"):
        # a count / fraction of the rows: `> 0`, `!= 0`, `>= 1` (sum) say "some row"
        cmp_ = T.find(r, lambda x: x.op == "cmp" and len(x.args) == 2 and x.args[0] is red and x.args[1].op == "const")
        if cmp_ is not None:
            k_, o_ = cmp_.args[1].name, cmp_.name
            some = (o_ == ">" and k_ == 0) or (o_ == "!=" and k_ == 0) or (o_ == ">=" and k_ == 1 and red.name == "sum")
            verdict = "DISCHARGED" if some else "VIOLATED"
    col.add(R, fi, "a channel is in view iff some compartment in view carries it", verdict,
            "self.nodes[names].any(axis=0)" if verdict == "DISCHARGED" else
            f"presence is reduced with `{red.short(70)}`"
            + (": a channel that covers the view only partly is not listed; `view.<Channel>` then selects the WHOLE view" if red.name in ("all", "min", "prod") else
               (": not the view's own node table" if not own else ": not a reduction over the rows")), node=fi.node)
    flt = T.find(r, lambda x: x.op == "comp" and T.find(x, lambda y: y.op == "attr" and y.name == "channels" and y.args[0].op == "param" and y.args[0].name == "pointer") is not None)
    col.check(flt is not None, R, fi, "the view's channels are the pointer's channels that are in view", "[c for c in pointer.channels if ...]",
              f"returns {r.short(100)}", node=fi.node)


def refreshed_view(repo, col, R):
    """Module._update_view re-builds a view after an edit of the base (make_trainable, delete_*, ...) by replacing its __dict__ with
    that of a fresh View over THE SAME rows.  A fresh View takes its scope from the base and starts with the default `_current_view`,
    so both -- the state a view carries beyond its rows -- are saved before and restored after; otherwise `view.cell(0)` after
    `view.make_trainable(...)` counts cells in another scope than before."""
    fi = repo.method("Module", "_update_view")
    ex = idx.expander(repo, fi)
    rep = [s_ for s_ in ex.stores if s_.kind == "attr" and s_.key.name == "__dict__" and _is_self(s_.base)]
    if not rep:
        col.unk(R, fi, "_update_view rebuilds the view over the same rows", "the replacement of the view's __dict__ was not found", node=fi.node)
        return
    ctor = T.find(rep[0].value, lambda x: x.op == "call" and x.name == "View")
    args = list(ctor.args) if ctor is not None else []
    same = len(args) == 3 and args[0].op == "attr" and args[0].name == "base" and \
        all(a.op == "attr" and a.name == n_ and _is_self(a.args[0]) for a, n_ in zip(args[1:], ("_nodes_in_view", "_edges_in_view")))
    col.check(same, R, fi, "_update_view rebuilds the view over the same rows of the base", "View(self.base, self._nodes_in_view, self._edges_in_view)",
              f"rebuilt as {ctor.short(120) if ctor is not None else rep[0].value.short(120)}", node=rep[0].node)
    for a in ("_scope", "_current_view"):
        back = [s_ for s_ in ex.stores if s_.kind == "attr" and s_.key.name == a and _is_self(s_.base) and s_.node.lineno > rep[0].node.lineno]
        ok = any(s_.value.op == "attr" and s_.value.name == a and _is_self(s_.value.args[0]) for s_ in back)
        col.check(ok, R, fi, f"_update_view keeps the view's `{a}`", "saved before and restored after the rebuild",
                  f"`{a}` is " + ("set to " + back[0].value.short(60) if back else "not restored") + " after the rebuild: the refreshed view falls back to the base's "
                  "scope / the default kind, and the next `.cell(i)` / `.comp(i)` on it selects other rows than before the edit", node=(back[0].node if back else rep[0].node))


def listed_in_view(repo, col, R):
    """View._cells_in_view / _branches_in_view / _comps_in_view list the GLOBAL indices of the rows in view: the distinct values of the
    corresponding global_*_index column of the view's own node table, and nothing derived from the local numbering (a view may hold any
    subset, e.g. cells [0, 2, 5]: `first + local` lists [0, 1, 2]).  The connectivity builders take their populations from these lists."""
    WRAP = {"asarray", "array", "to_numpy", "tolist", "to_list", "astype", "sort", "sorted", "list", "copy"}
    for cls_, nm, colname in [(c_, n_, k_) for c_ in ("Module", "View") for n_, k_ in (("_cells_in_view", "global_cell_index"),
                              ("_branches_in_view", "global_branch_index"), ("_comps_in_view", "global_comp_index"))]:
        if nm not in repo.cls(cls_).methods:
            continue
        fi = repo.cls(cls_).methods[nm]
        ex = idx.expander(repo, fi)
        r = ex.merged_return() if len(ex.returns) != 1 else ex.returns[0]
        if r is None:
            raise AnalysisError(f"{cls_}.{nm} has no return value")
        r = idx.inline(repo, fi, r, value_only=True)
        t = r
        uniq = False
        while True:
            if t.op in ("mcall", "call") and t.name in WRAP and t.args:
                t = t.args[0] if not (t.op == "call" and t.args[0].op == "free") else (t.args[1] if len(t.args) > 1 else t.args[0])
                continue
            if t.op in ("mcall", "call") and t.name in ("unique", "drop_duplicates") and t.args:
                uniq = True
                t = t.args[0] if not (t.args[0].op == "free") else t.args[1]
                continue
            if t.op == "attr" and t.name == "values":
                t = t.args[0]
                continue
            break
        column = t.op == "sub" and t.args[0].op == "attr" and t.args[0].name == "nodes" and t.args[0].args[0].op == "param" \
            and t.args[0].args[0].name == "self" and t.args[1].op == "const"
        if column and uniq:
            ok = t.args[1].name == colname
            col.check(ok, R, fi, f"{cls_}.{nm} lists the distinct values of the view's {colname} column", f"self.nodes['{colname}'].unique()",
                      f"lists the column {t.args[1].name!r}", node=fi.node)
        else:
            cols = sorted({str(x.args[1].name) for x in T.find_all(r, lambda x: x.op == "sub" and x.args[0].op == "attr" and x.args[0].name == "nodes" and x.args[1].op == "const")})
            derived = any(c.startswith("local_") for c in cols) or T.find(r, lambda x: x.op in ("bin", "binop", "arith") or (x.op in ("call", "mcall") and x.name in ("arange", "range"))) is not None
            col.add(R, fi, f"{cls_}.{nm} lists the distinct values of the view's {colname} column", "VIOLATED" if derived else "UNDECIDED",
                    f"returns {r.short(110)} (columns {cols}): " + ("the global indices are reconstructed from other numbering, which is right only "
                    "for a contiguous range of cells / branches / compartments; a view may hold any subset (cells [0, 2, 5])" if derived else "form not recognised"),
                    node=fi.node)


def synapse_view_local_index(repo, col, R):
    """`net.<SynapseType>` hands out a view of the edges of that type; its `local_edge_index` must be the dense rank 0..n-1 WITHIN THE VIEW
    (that is what `.edge(i)` in local scope selects by).  A rank computed over the base module's edges of that type agrees only when
    the whole network is in view."""
    fi = repo.method("Module", "__getattr__")
    ex = idx.expander(repo, fi)
    sts = [s_ for s_ in ex.stores if s_.kind == "sub" and s_.key.op == "const" and s_.key.name == "local_edge_index"]
    if not sts:
        raise AnalysisError("Module.__getattr__ no longer renumbers local_edge_index of a synapse-type view")
    from sa.terms import fuse_comprehensions as _fuse
    for s_ in sts:
        v = _fuse(idx.inline(repo, fi, s_.value, value_only=True))
        tbl = s_.base
        dense = v.op == "mcall" and v.name == "arange" and len(v.args) == 2 and v.args[1].op == "call" and v.args[1].name == "len" and \
            v.args[1].args[0].key() == tbl.key()
        from_base = T.find(v, lambda x: (x.op == "mcall" and x.name in ("_edge_inds_within_type",)) or
                           (x.op == "attr" and x.name == "base") or (x.op == "const" and x.name == "global_edge_index" and
                                                                      T.find(v, lambda y: y.op == "mcall" and y.name == "rank") is None)) is not None
        col.add(R, fi, "local edge indices of a synapse-type view are 0 .. n-1 within the view", "DISCHARGED" if dense else ("VIOLATED" if from_base else "UNDECIDED"),
                "np.arange(len(view.edges))" if dense else
                f"local_edge_index = `{v.short(90)}`: numbered within the base module (or by global index), not within the view; "
                f"`net.cell([1, 2]).<Synapse>.edge(1)` then selects another synapse than the second one in view", node=s_.node)


def _loc(repo, col):
    """loc(x): for every branch b in view, the compartment whose interval contains x -- with the package's border
    convention (a location exactly on an inner border belongs to the LOWER compartment, as in
    cell_utils.local_index_of_loc) -- offset by the branch's first compartment; selected in global scope, caller's scope
    restored.  Decided on the term of the index array handed to .comp(...), helpers inlined."""
    R = "R-C11-loc"
    from sa.terms import fuse_comprehensions
    fi = repo.method("Module", "loc")
    ex = idx.expander(repo, fi)
    terms = list(ex.returns) + [s_.value for s_ in ex.stores if s_.value is not None]
    comp_call = next((x for t_ in terms for x in t_.walk() if x.op == "mcall" and x.name == "comp" and len(x.args) > 1), None)
    if comp_call is None:
        raise AnalysisError("Module.loc no longer selects compartments with .comp(...)")
    # every branch interprets the CALLER's location argument: the loop over the branches must not rebind the parameter (F25: after
    # the first branch `at` was no longer "all" but that branch's grid, so later branches with another compartment count were
    # selected only partly)
    p_at = fi.params[1] if len(fi.params) > 1 else None
    rebound = [x for lp in walk_no_nested(fi.node) if isinstance(lp, (ast.For, ast.While)) for st in lp.body for x in ast.walk(st)
               if isinstance(x, ast.Name) and x.id == p_at and isinstance(x.ctx, ast.Store)]
    col.check(not rebound, R, fi, "every branch interprets the location argument of the call", f"`{p_at}` is not rebound inside the loop over the branches",
              f"`{p_at}` is reassigned inside the loop over the branches in view: from the second branch on the argument is what the FIRST "
              f"branch made of it (for 'all': the first branch's grid), so branches with another number of compartments are selected "
              f"only partly", node=rebound[0] if rebound else fi.node)
    arg = fuse_comprehensions(idx.inline(repo, fi, comp_call.args[1]))
    br = T.find(arg, lambda x: x.op == "elem" and x.args[0].op == "attr" and x.args[0].name == "_branches_in_view")
    col.check(br is not None and _is_self(br.args[0].args[0]), R, fi, "loc iterates the branches in view", "for i in self._branches_in_view",
              f"index array is {arg.short(100)}", node=fi.node)
    bkey = br.key() if br is not None else None
    per = lambda nm: T.find(arg, lambda x: x.op == "sub" and x.args[0].op == "attr" and x.args[0].name == nm and
                            T.find(x.args[0], lambda y: y.op == "attr" and y.name == "base") is not None and x.args[1].key() == bkey) is not None
    col.check(bkey is not None and per("ncomp_per_branch") and per("cumsum_ncomp"), R, fi,
              "each branch uses its own compartment count and offset", "base.ncomp_per_branch[i], base.cumsum_ncomp[i]",
              "loc does not use the per-branch count/offset of the branch being processed", node=fi.node)
    dg = T.find(arg, lambda x: x.op == "mcall" and x.name == "digitize")
    floor_form = T.find(arg, lambda x: x.op == "mcall" and x.name in ("astype", "floor", "floor_divide") and
                        T.find(x, lambda y: y.op == "binop" and y.name in ("*", "//")) is not None) is not None
    verdict, why = "UNDECIDED", "index computation not recognised"
    if dg is not None and len(dg.args) >= 3:
        edges = dg.args[2]
        ls = T.find(edges, lambda x: x.op == "mcall" and x.name == "linspace")
        stretched = ls is not None and len(ls.args) >= 4 and T.find(ls.args[2], lambda x: x.op == "binop" and x.name == "+") is not None
        minus1 = T.find(arg, lambda x: x.op == "binop" and x.name == "-" and x.args[1].op == "const" and x.args[1].name == 1 and
                        T.find(x.args[0], lambda y: y is dg) is not None) is not None
        right = dg.kw.get("right")
        if stretched and minus1 and right is None:
            verdict, why = "DISCHARGED", "digitize(x, linspace(0, 1 + eps, n + 1)) - 1: a border k/n belongs to compartment k-1"
        else:
            verdict, why = "VIOLATED", (f"compartment index is {dg.short(80)}{' - 1' if minus1 else ''}: without the stretched upper edge "
                                        f"(1 + eps) a location exactly on an inner border k/n falls into the upper compartment (and x = 1.0 "
                                        f"outside the branch)")
    elif floor_form:
        verdict, why = "VIOLATED", ("the compartment index is floor(x * ncomp): a location exactly on an inner border k/ncomp selects the UPPER "
                                    "compartment, the package's convention (np.digitize against edges stretched by 1e-10, and "
                                    "local_index_of_loc) selects the lower one: loc(0.5) with ncomp=2 picks another compartment")
    col.add(R, fi, "a location on an inner compartment border selects the lower compartment", verdict, why, node=fi.node)
    sc_glob = comp_call.args[0].op == "mcall" and comp_call.args[0].name == "scope" and len(comp_call.args[0].args) > 1 and \
        comp_call.args[0].args[1].op == "const" and comp_call.args[0].args[1].name == "global" and _is_self(comp_call.args[0].args[0])
    restored = any(y.op == "mcall" and y.name == "scope" and y.args[0] is comp_call and len(y.args) > 1 and
                   T.find(y.args[1], lambda z: z.op == "attr" and z.name == "_scope") is not None for t_ in terms for y in t_.walk())
    col.check(sc_glob and restored, R, fi, "loc selects in global scope and restores the caller's scope",
              "self.scope('global').comp(idxs).scope(orig_scope)", "loc does not select globally / restore the scope of the view it was called on",
              node=fi.node)


def derived_from_receiver(repo, col, R):
    """A link of a selection chain derives its view from the view it is called on: `View(self, ...)` or `self.<selector>(...)`.
    A link that goes back to the base module (`self.base.select(rows)`, `View(self.base, ...)`) selects the right rows but forgets what
    the chain has established besides rows -- the scope, and the edges selected so far.  Selectors are found by a fixpoint: methods
    whose result is a `View(...)`, and methods whose result is the result of a selector."""
    sel = {}
    meths = []
    for cls_ in ("Module", "View", "Network", "Cell", "Branch", "Compartment"):
        if cls_ in repo.classes:
            for nm, fi in repo.cls(cls_).methods.items():
                meths.append((cls_, nm, fi))
    rets = {}
    for cls_, nm, fi in meths:
        try:
            ex = idx.expander(repo, fi)
        except Exception:
            continue
        rs = [r for r in ex.returns if r is not None]
        if rs:
            rets[(cls_, nm)] = (fi, ex, rs)

    def makes_view(t, names):
        return [x for x in t.walk() if (x.op == "call" and x.name == "View") or (x.op in ("mcall", "attr") and x.name in names and x.args)]
    names = set()
    for _ in range(6):
        new = set(names)
        for (cls_, nm), (fi, ex, rs) in rets.items():
            if nm.startswith("__") and nm not in ("__getattr__", "__getitem__", "__iter__", "__next__"):
                continue
            for r in rs:
                top = r
                while top.op in ("phi", "ifexp"):
                    top = top.args[-1]
                if (top.op == "call" and top.name == "View") or (top.op in ("mcall", "attr") and top.name in names) or \
                        any((a_.op == "call" and a_.name == "View") or (a_.op in ("mcall", "attr") and a_.name in names) for a_ in (r.args if r.op in ("phi", "ifexp") else [])):
                    new.add(nm)
        if new == names:
            break
        names = new
    col.info["view_selectors"] = sorted(names)
    if len(names) < 8:
        raise AnalysisError(f"only {sorted(names)} recognised as selectors")
    n = 0
    for (cls_, nm), (fi, ex, rs) in sorted(rets.items()):
        if nm not in names or nm == "_update_view":
            continue
        made = []
        for r in rs:
            made += makes_view(r, names)
        for s_ in ex.stores:
            if s_.value is not None:
                made += [x for x in makes_view(s_.value, names)]
        seen = set()
        for x in made:
            if id(x.node) in seen:
                continue
            seen.add(id(x.node))
            recv = x.args[0]
            if recv.op == "free":
                continue
            spine = [recv]  # the receiver chain only: what the arguments are computed from is another matter
            while spine[-1].op in ("mcall", "attr", "sub") and spine[-1].args:
                spine.append(spine[-1].args[0])
            through_base = any(y.op == "attr" and y.name == "base" and _is_self(y.args[0]) for y in spine)
            rooted = _is_self(spine[-1])
            if not rooted:
                continue
            n += 1
            col.check(not through_base, R, fi, f"{cls_}.{nm}: the next view of the chain is derived from the view the method is called on",
                      "View(self, ...) / self.<selector>(...)",
                      f"`{x.short(90)}` derives the view from the BASE module: rows apart, the chain's scope and the edges selected so far are lost "
                      f"(`cell.scope('global').HH.comp(i)` counts locally again; `net.select(edges=[2]).HH` sees every synapse between those compartments)",
                      node=x.node if x.node is not None else fi.node)
    col.info["view_derivations_checked"] = n


def select_expansion(repo, col, R):
    """Module.select hands the given row labels to the new view as they are -- with repetitions, in the given order (the connectivity
    builders rely on `select(nodes=[0, 0, 2, 2]).nodes` having four rows).  The only index that is replaced by `everything in view` is
    the string 'all'; an index that merely has as many entries as the view has rows is not 'all'."""
    fi = repo.method("Module", "select")
    ex = idx.expander(repo, fi)
    ctor = None
    for t_ in list(ex.returns) + [s_.base for s_ in ex.stores if s_.base is not None] + [s_.value for s_ in ex.stores if s_.value is not None]:
        ctor = ctor or (T.find(t_, lambda x: x.op == "call" and x.name == "View" and len(x.args) == 3) if t_ is not None else None)
    if ctor is None:
        raise AnalysisError("Module.select no longer builds View(self, nodes, edges)")
    for which, arg in (("nodes", ctor.args[1]), ("edges", ctor.args[2])):
        # an index that is not given stays not given: View() filters the edges of a node selection (both ends in view) only when it gets
        # no edge index of its own, and the other way round
        pn = which
        tests = [x for x in arg.walk() if x.op == "ifexp" and x.args[0].op == "cmp" and x.args[0].name in ("is", "is not", "==", "!=") and
                 any(a_.op == "param" and a_.name == pn for a_ in x.args[0].args) and any(a_.op == "const" and a_.name is None for a_ in x.args[0].args)]
        seen_ = set()
        for x in tests:
            if x.key() in seen_:
                continue
            seen_.add(x.key())
            when_none = x.args[1] if x.args[0].name in ("is", "==") else x.args[2]
            okn = when_none.op == "const" and when_none.name is None
            col.check(okn, R, fi, f"select: {which} that are not given stay not given (None)", "None",
                      f"without `{which}=` the selection continues with `{when_none.short(50)}`: the new view then gets an explicit {which[:-1]} index and "
                      f"View() no longer derives it from the other one (`select(nodes=...)`, groups and channel-name views keep every synapse of the "
                      f"parent, also those that leave the selection)", node=x.node or fi.node)
    for which, arg, inview in (("nodes", ctor.args[1], "_nodes_in_view"), ("edges", ctor.args[2], "_edges_in_view")):
        subs = [x for x in arg.walk() if x.op == "ifexp" and any(b.op == "attr" and b.name == inview and _is_self(b.args[0]) for b in x.args[1:])]
        if not subs:
            # no expansion of 'all' at all: then 'all' reaches the view as a string; not this rule's business
            col.unk(R, fi, f"select: only the index 'all' is replaced by every {which[:-1]} in view", f"no replacement by self.{inview} found in {arg.short(80)}", node=fi.node)
            continue
        seen = set()
        for x in subs:
            c = x.args[0]
            if c.key() in seen:
                continue
            seen.add(c.key())
            then_is_all = x.args[1].op == "attr" and x.args[1].name == inview
            exact = then_is_all and ((c.op == "call" and c.name == "is_str_all") or
                                     (c.op == "cmp" and c.name == "==" and any(a_.op == "const" and a_.name == "all" for a_ in c.args)))
            sizes = T.find(c, lambda y: (y.op == "call" and y.name == "len") or (y.op == "attr" and y.name in ("size", "shape"))) is not None
            mentions = T.find(c, lambda y: (y.op == "call" and y.name == "is_str_all") or (y.op == "const" and y.name == "all")) is not None
            if exact:
                col.ok(R, fi, f"select: only the index 'all' is replaced by every {which[:-1]} in view", c.short(60), node=x.node or fi.node)
            elif sizes or not mentions or not then_is_all:
                col.bad(R, fi, f"select: only the index 'all' is replaced by every {which[:-1]} in view",
                        f"the given {which} are replaced by self.{inview} when `{c.short(110)}`: an index list is a list of rows, with repetitions and in its "
                        f"own order (`select(nodes=[0, 0, 2, 2])` has four rows); only the string 'all' stands for the rows in view", node=x.node or fi.node)
            else:
                col.unk(R, fi, f"select: only the index 'all' is replaced by every {which[:-1]} in view", f"condition {c.short(100)}", node=x.node or fi.node)


def table_labels(repo, col, R):
    """The row labels of a view's tables ARE the global row numbers (`self.edges.index` is `self._edges_in_view`): `set`, `make_trainable`
    and every child view address the base through them.  A method that re-derives `self.nodes` / `self.edges` from the table itself must
    keep them: `join`, `rename`, `assign`, `drop(columns=...)`, `astype`, column reordering keep the index; `merge` (which always returns a
    fresh 0..n-1 index unless it merges ON the index), `reset_index` and `concat(ignore_index=True)` do not."""
    KEEP = {"join", "rename", "assign", "astype", "copy", "fillna", "sort_index", "reindex", "infer_objects", "convert_dtypes", "loc", "iloc"}
    n = 0
    for cls_ in ("Module", "View"):
        for nm, fi in repo.cls(cls_).methods.items():
            if nm in ("__init__",):
                continue
            ex = idx.expander(repo, fi)
            for s_ in ex.stores:
                if not (s_.kind == "attr" and s_.key.name in ("nodes", "edges") and _is_self(s_.base) and s_.value is not None):
                    continue
                tbl = s_.key.name
                own = T.find(s_.value, lambda x: x.op == "attr" and x.name == tbl and x.args and _is_self(x.args[0]))
                if own is None:
                    continue   # built from something else (the constituents, the base): not a re-derivation
                n += 1
                # operations applied along the receiver spine from the table itself up to the stored value
                loses = None
                for x in s_.value.walk():
                    if x.op != "mcall" or not x.args:
                        continue
                    spine = x.args[0]
                    while spine.op in ("mcall", "sub", "attr") and spine.args and not (spine.op == "attr" and spine.name == tbl and _is_self(spine.args[0])):
                        spine = spine.args[0]
                    if not (spine.op == "attr" and spine.name == tbl):
                        continue
                    if x.name == "merge" and not (x.kw.get("left_index") is not None and x.kw["left_index"].op == "const" and x.kw["left_index"].name is True):
                        loses = loses or x
                    if x.name == "reset_index":
                        loses = loses or x
                cat = T.find(s_.value, lambda x: x.op == "mcall" and x.name == "concat" and x.kw.get("ignore_index") is not None and
                             x.kw["ignore_index"].op == "const" and x.kw["ignore_index"].name is True)
                loses = loses or cat
                restored = T.find(s_.value, lambda x: x.op == "mcall" and x.name in ("set_index", "set_axis")) is not None
                col.check(loses is None or restored, R, fi, f"{cls_}.{nm}: `self.{tbl}` re-derived from itself keeps its row labels",
                          "label-preserving operations only",
                          f"`self.{tbl}` becomes `{s_.value.short(90)}`: `{loses.name if loses is not None else ''}` returns rows labelled 0..n-1, but the labels of "
                          f"a view's {tbl} are the global row numbers that `set`, `make_trainable` and child views address the base with "
                          f"(on `net.TestSynapse` with interleaved types, edges [1, 3] become [0, 1])", node=s_.node)
    col.info["table_rederivations_checked"] = n
