"""Index-space rules shared by C08 / C09 / C10 / C19 (engine E4 on provenance terms).

"Stores define, uses must conform": the spaces forced by the stores into a persistent
slot (recordings.rec_index, external_inds[key], jaxedges' positions, ...) are its
definition, per key class; every use that needs another space is a violation at that use,
and two stores that disagree are a violation at the store that extends the other.
"""
from __future__ import annotations

import ast
import os
from typing import Dict, List, Optional, Tuple

from sa.core import AnalysisError, unparse, FuncInfo
from sa.spaces import Classifier, Sp, key_test, table_kind
from sa.terms import Expander, T

KCS = ("node", "edge")
MODULE_CLASSES = ["Module", "View", "Compartment", "Branch", "Cell", "Network"]

_exp_cache: Dict[Tuple[int, str], Expander] = {}


def expander(repo, fi: FuncInfo) -> Expander:
    k = (id(repo), fi.file + ":" + fi.qual)
    if k not in _exp_cache:
        _exp_cache[k] = Expander(repo, fi)
    return _exp_cache[k]


def reachable(guards, kc: str) -> bool:
    """False if some guard is a key-class test that is false under kc."""
    for g in guards:
        kt = key_test(g)
        if kt is not None:
            cls, pos = kt
            if (cls == kc) != pos:
                return False
    return True


# --------------------------------------------------------------------------------------
# return summaries: which parameter a (tuple element of a) call result aliases


def _return_alias(repo, fis: List[FuncInfo], item: Optional[int], depth=0) -> Optional[int]:
    """Index (into the parameter list without self) of the parameter that all definitions
    return (as tuple element `item`, or as the whole value when item is None)."""
    if depth > 4 or not fis:
        return None
    res = set()
    for fi in fis:
        ex = expander(repo, fi)
        if not ex.returns:
            return None
        for r in ex.returns:
            alts = r.args if r.op == "phi" else [r]
            for a in alts:
                t = a
                if item is not None:
                    if t.op == "tuple" and item < len(t.args):
                        t = t.args[item]
                    else:
                        t = T("item", item, [t])
                p = _alias_param(repo, t, fi, depth)
                if p is None:
                    return None
                res.add(p)
    return res.pop() if len(res) == 1 else None


def _alias_param(repo, t: T, fi: FuncInfo, depth) -> Optional[int]:
    params = [p for p in fi.params if p != "self"]
    seen = 0
    while seen < 10:
        seen += 1
        if t.op == "param" and t.name in params:
            return params.index(t.name)
        if t.op == "phi":
            r = {_alias_param(repo, a, fi, depth) for a in t.args if a.op not in ("carried", "undef")}
            return r.pop() if len(r) == 1 and None not in r else None
        if t.op == "ifexp":
            a, b = _alias_param(repo, t.args[1], fi, depth), _alias_param(repo, t.args[2], fi, depth)
            return a if a == b else None
        r = resolve_alias(repo, t, depth + 1)
        if r is t:
            return None
        t = r
    return None


def _callees(repo, t: T) -> List[FuncInfo]:
    if t.op == "mcall":
        out = []
        for c in MODULE_CLASSES:
            if c in repo.classes and t.name in repo.classes[c].methods:
                out.append(repo.classes[c].methods[t.name])
        return out
    if t.op == "call":
        for mi in repo.mods.values():
            if t.name in mi.functions:
                return [mi.functions[t.name]]
    return []


def resolve_alias(repo, t: T, depth=0) -> T:
    """item(i, call(...)) / call(...) -> the argument term it aliases, when the callee returns
    one of its parameters (in place or not)."""
    item = None
    call = t
    if t.op == "item" and isinstance(t.name, int):
        item, call = t.name, t.args[0]
    if call.op not in ("mcall", "call"):
        return t
    fis = _callees(repo, call)
    if not fis:
        return t
    k = _return_alias(repo, fis, item, depth)
    if k is None:
        return t
    args = list(call.args[1:]) if call.op == "mcall" else list(call.args)
    if k < len(args):
        return args[k]
    # keyword argument
    names = [p for p in fis[0].params if p != "self"]
    if k < len(names) and names[k] in call.kw:
        return call.kw[names[k]]
    return t


def strip_alias(repo, t: T) -> T:
    for _ in range(8):
        r = resolve_alias(repo, t)
        if r is t:
            return t
        t = r
    return t


# --------------------------------------------------------------------------------------
# slots


def compute_slots(repo, col, rule: str, emit=("jaxedges", "rec_index", "external_inds", "pstate")) -> Classifier:
    cl = Classifier({})
    real_col = col

    class _Mute:
        def check(self, *a, **k):
            pass

        ok = bad = unk = add = check

    mute = _Mute()
    # ---- positions of the per-synapse-type arrays (jaxedges): masked by type => S, else E
    col = real_col if "jaxedges" in emit else mute
    fi = repo.method("Module", "to_jax")
    ex = expander(repo, fi)
    st = [s for s in ex.stores if s.kind == "sub" and s.base.op == "attr" and s.base.name == "jaxedges"]
    if not st:
        raise AnalysisError("Module.to_jax no longer fills jaxedges")
    masked = []
    for s in st:
        m = T.find(s.value, lambda x: x.op == "cmp" and x.name == "==" and
                   any(c.op == "const" and c.name == "type_ind" for c in x.args[0].walk()))
        masked.append(m is not None)
    cl.slots[("jaxedges.dom", "edge")] = "S" if all(masked) else ("E" if not any(masked) else None)
    col.check(len(set(masked)) == 1, rule, fi, "to_jax: jaxedges arrays all built with / without the type mask",
              f"per-type arrays are indexed by {'rank within type (S)' if all(masked) else 'global edge row (E)'}",
              "some jaxedges arrays are masked by `type_ind == i` and others are not", node=st[0].node)
    nst = [s for s in ex.stores if s.kind == "sub" and s.base.op == "attr" and s.base.name == "jaxnodes"]
    col.check(bool(nst), rule, fi, "to_jax: jaxnodes arrays cover all node rows", "node arrays are indexed by node row (N)",
              "to_jax no longer fills jaxnodes", node=fi.node)

    # ---- recordings.rec_index
    col = real_col if "rec_index" in emit else mute
    fi = repo.method("Module", "record")
    ex = expander(repo, fi)
    found = False
    for s in ex.stores:
        if s.kind == "attr" and s.key.name == "recordings":
            df = T.find(s.value, lambda x: x.op == "mcall" and x.name == "DataFrame" and
                        any(c.op == "const" and c.name == "rec_index" for c in x.walk()))
            if df is None:
                continue
            found = True
            # the rows: the data of the one-column frame, or the `rec_index` entry of a frame built from a dict of columns
            rows_t = df.args[1] if len(df.args) > 1 else df.kw.get("data")
            if rows_t is not None and rows_t.op == "dict":
                kv_ = next((k_ for k_ in rows_t.args if k_.op == "kv" and k_.args[0].op == "const" and k_.args[0].name == "rec_index"), None)
                rows_t = kv_.args[1] if kv_ is not None else rows_t
            for kc in KCS:
                sp = cl.space(rows_t, kc)
                cl.slots[("rec_index", kc)] = sp.s if sp else None
                want = "N" if kc == "node" else "E"
                col.check(sp is not None and sp.s == want, rule, fi, f"record: rows stored for a {kc} state",
                          f"recordings of {kc} states store {want} row labels",
                          f"record() stores {sp} for a {kc} state, the recording table is keyed by "
                          f"{'compartment' if kc == 'node' else 'synapse'} rows ({want})", node=s.node)
    if not found:
        raise AnalysisError("Module.record no longer builds the rec_index frame")

    # ---- external_inds[key]
    col = real_col if "external_inds" in emit else mute
    fi = repo.method("Module", "_external_input")
    ex = expander(repo, fi)
    stores = [s for s in ex.stores if s.kind == "sub" and s.base.op == "attr" and s.base.name == "external_inds"]
    if not stores:
        raise AnalysisError("Module._external_input no longer stores external_inds")
    from sa.terms import canon as _canon

    def _alts(t, guards):
        """a stored value that is a conditional is one virtual store per alternative"""
        if t.op == "ifexp":
            return _alts(t.args[1], guards + (t.args[0],)) + _alts(t.args[2], guards + (T("not", None, [t.args[0]]),))
        return [(guards, t)]

    class _VS:
        def __init__(self, s_, guards, value):
            self.node, self.guards, self.value = s_.node, guards, value

    vstores = []
    for s_ in stores:
        for g_, v_ in _alts(_canon(s_.value), tuple(s_.guards)):
            vstores.append(_VS(s_, g_, v_))
    for kc in KCS:
        defining, extending = [], []
        for s in vstores:
            if not reachable(s.guards, kc):
                continue
            v = s.value
            selfref = T.find(v, lambda x: x.op == "sub" and Classifier._is_named(x.args[0], "external_inds"))
            if selfref is not None:
                # concatenate([slot, X]) -> X
                lst = T.find(v, lambda x: x.op == "list")
                others = [a for a in (lst.args if lst else []) if a.key() != selfref.key()]
                extending.append((s, others[0] if others else None))
            else:
                defining.append((s, v))
        spaces = {(cl.space(v, kc).s if cl.space(v, kc) else None) for _s, v in defining}
        if len(spaces) == 1 and None not in spaces:
            cl.slots[("external_inds", kc)] = spaces.pop()
        want = "N" if kc == "node" else "E"
        for s, v in defining:
            sp = cl.space(v, kc)
            col.check(sp is not None and sp.s == want, rule, fi, f"_external_input: first input of a {kc} key stores {want} rows",
                      f"stores {sp}", f"the first stimulus/clamp of a {kc} key stores {sp}, expected Idx[{want}]", node=s.node)
        for s, v in extending:
            sp = cl.space(v, kc) if v is not None else None
            d = cl.slots.get(("external_inds", kc))
            col.check(sp is not None and sp.s == d, rule, fi,
                      f"_external_input: further input of a {kc} key extends the stored rows consistently",
                      f"appends {sp} to a table of Idx[{d}]",
                      f"a second stimulus/clamp of a {kc} key appends {sp} "
                      f"({v.short(40) if v is not None else '?'}) to `external_inds[key]`, which holds Idx[{d}] "
                      f"(stored by the first call)", node=s.node)
    # ---- indices carried by pstate entries: make_trainable (indices_set_by_trainables) and data_set
    col = real_col if "pstate" in emit else mute
    prods = []
    fi = repo.method("Module", "make_trainable")
    ex = expander(repo, fi)
    for s in ex.stores:
        if s.kind == "mcall" and s.key.name == "append" and Classifier._is_named(s.base, "indices_set_by_trainables"):
            prods.append((fi, s.node, s.value.args[1], "make_trainable"))
    fi2 = repo.method("Module", "data_set")
    ex2 = expander(repo, fi2)
    for r in ex2.returns:
        for kv in T.find_all(r, lambda x: x.op == "kv" and x.args[0].op == "const" and x.args[0].name == "indices"):
            prods.append((fi2, kv.node or fi2.node, kv.args[1], "data_set"))
            break
    if not any(nm == "data_set" for *_x, nm in prods) and not any(nm == "make_trainable" for *_x, nm in prods):
        raise AnalysisError("producers of pstate indices (make_trainable / data_set) not found")
    for kc in KCS:
        want = "N" if kc == "node" else "E"
        sent = False
        okall = True
        for pfi, node, v, nm in prods:
            v = inline(repo, pfi, v)  # a local helper that pads / converts the indices is looked through
            sp = cl.space(v, kc)
            good = sp is not None and sp.s == want
            okall &= good
            sent |= bool(sp and sp.sentinel)
            col.check(good, rule, pfi, f"{nm}: indices stored for a {kc} parameter are {want} rows",
                      f"stores {sp}", f"{nm} stores {sp} for a {kc} key, expected Idx[{want}]", node=node)
        if okall:
            cl.slots[("pstate_indices", kc)] = want
            cl.slots[("pstate_indices.pad", kc)] = "pad" if sent else None
    # params_to_pstate pairs each trainable with its own index array
    fi3 = repo.func("jaxley/utils/cell_utils.py", "params_to_pstate")
    ex3 = expander(repo, fi3)
    r = ex3.returns[0] if ex3.returns else None
    ok = False
    if r is not None:
        # a comprehension over zip(params, indices) or a list filled in a loop over it: one dictionary per pair
        z = T.find(r, lambda x: x.op == "call" and x.name == "zip")
        kvs = {k.args[0].name: k.args[1] for k in T.find_all(r, lambda x: x.op == "kv") if k.args[0].op == "const"}
        el = lambda t, k: t.op == "item" and t.name == k and t.args[0].op == "elem" and t.args[0].args[0] is z or \
            (t.op == "item" and t.name == k and t.args[0].op == "elem" and z is not None and t.args[0].args[0].key() == z.key())
        ok = z is not None and len(z.args) == 2 and z.args[0].op == "param" and z.args[1].op == "param" \
            and fi3.params.index(z.args[0].name) < fi3.params.index(z.args[1].name) \
            and "indices" in kvs and el(kvs["indices"], 1) \
            and "val" in kvs and T.find(kvs["val"], lambda x: el(x, 0)) is not None and T.find(kvs["val"], lambda x: el(x, 1)) is None
    col.check(ok, rule, fi3, "params_to_pstate zips values with their own index arrays",
              "entry k pairs params[k] with indices_set_by_trainables[k]",
              "params_to_pstate no longer pairs the k-th value with the k-th index array", node=fi3.node)
    return cl


# --------------------------------------------------------------------------------------
# generic use-site checks


def gather_sites(ex: Expander, pred=None):
    """All `A[i]` subscript loads and `A.at[i].set/add(v)` scatters in a function as
    (kind, array term, index term, node)."""
    out = []
    fn = ex.fi.node
    for n in ast.walk(fn):
        if isinstance(n, ast.Call) and isinstance(n.func, ast.Attribute) and n.func.attr in ("set", "add", "get") \
                and isinstance(n.func.value, ast.Subscript) and isinstance(n.func.value.value, ast.Attribute) \
                and n.func.value.value.attr == "at":
            arr = ex.term(n.func.value.value.value)
            idx = ex.term(n.func.value.slice)
            out.append(("scatter." + n.func.attr, arr, idx, n))
        elif isinstance(n, ast.Subscript) and isinstance(n.ctx, ast.Load):
            if isinstance(n.value, ast.Attribute) and n.value.attr in ("at", "loc", "iloc"):
                continue
            out.append(("gather", ex.term(n.value), ex.term(n.slice), n))
    return out


def check_site(repo, col, cl: Classifier, rule, fi, kind, arr, idx, node, kcs=KCS, label=""):
    """Emit one obligation per key class for which both sides have a known space."""
    arr = strip_alias(repo, arr) if arr.op in ("item", "mcall", "call") else arr
    if isinstance(fi, FuncInfo):
        try:
            from sa.terms import fuse_comprehensions as _fuse, counter_entries as _entries
            idx = _fuse(_entries(inline(repo, fi, idx)))  # an index produced by a helper / comprehension is classified through it
        except Exception:
            pass
    if arr.op == "sub":
        arr = T("sub", None, [strip_alias(repo, arr.args[0]), arr.args[1]], node=arr.node)
    n = 0
    from sa import spaces as _sp
    root = arr.args[0] if arr.op == "sub" else arr
    _sp.KEY_KIND[0] = {"u": "state", "state": "state", "states": "state", "all_states": "state",
                       "params": "param", "all_params": "param", "channel_params": "param"}.get(
        root.name if root.op in ("param", "attr", "free") else None)
    try:
        spaces_ = [(kc, cl.domain(arr, kc), cl.space(idx, kc)) for kc in kcs]
    finally:
        _sp.KEY_KIND[0] = None
    for kc, d, s in spaces_:
        if d is not None and s is None and os.environ.get("VERIF_DEBUG_SPACES"):
            print("UNKNOWN-SPACE", fi.qual if isinstance(fi, FuncInfo) else fi, kc, d, idx.short(100))
        if d is not None and s is None:
            # the array is known to be laid out in a specific space but the numbering of the index cannot be derived: never
            # pass silently (a converter that is no longer the rank within the synapse type ends here)
            col.unk(rule, fi, f"{label or unparse(node)} [{kc} key]",
                    f"the array is indexed over {_name(d)} but the space of the index `{idx.short(80)}` is not derivable", node=node)
            n += 1
            continue
        if d is None or s is None:
            continue
        n += 1
        ok = d == s.s or (d == "NB" and s.s == "N")
        txt = label or unparse(node)
        col.check(ok, rule, fi, f"{txt} [{kc} key]",
                  f"array over {d} is indexed with {s}",
                  f"an array whose positions are {_name(d)} is indexed with {_name(s.s)} "
                  f"({s.why or idx.short(50)}): the two numberings differ as soon as "
                  f"{'two synapse types are interleaved' if {d, s.s} == {'S', 'E'} else 'they are not identical'}",
                  node=node)
        if ok and s.sentinel and kind.startswith("scatter"):
            col.bad(rule.replace("space", "sentinel") if "space" in rule else rule, fi, f"{txt}: padded index reaches a scatter",
                    "a -1 pad addresses the last row", node=node)
    return n


def _name(s):
    return {"N": "node rows (N)", "E": "global edge rows (E)", "S": "ranks within a synapse type (S)",
            "M": "padded solver slots (M)", "B": "branch indices (B)", "P": "branch-point indices (P)",
            "C": "cell indices (C)"}.get(s, s)


# --------------------------------------------------------------------------------------
# normal form of a term modulo helper extraction and placement of conditionals


def call_arg(repo, file: str, t: T, pname: str) -> Optional[T]:
    """The argument that the call term `t` binds to the callee's parameter `pname`, whether it is passed by keyword or by position
    (the expander puts keyword arguments of package functions into their positions, so rules must not depend on the call style)."""
    if t is None:
        return None
    if pname in t.kw:
        return t.kw[pname]
    if t.op == "call":
        mi = repo.mods.get(file)
        r = repo.resolve_name(mi, t.name) if mi is not None else None
        if isinstance(r, FuncInfo) and r.cls is None and r.node.args.vararg is None:
            names = [a.arg for a in r.node.args.args]
            if pname in names and names.index(pname) < len(t.args):
                return t.args[names.index(pname)]
    return None


def guard_truth(g: T, param: str, value) -> Optional[bool]:
    """Truth value of condition `g` when the parameter `param` has the constant `value`; None if g says nothing about it.
    Handles ==, !=, in / not in a literal collection, not, and / or -- so every arrangement of an if/elif chain over the values of
    one parameter can be evaluated branch by branch."""
    neg = False
    while g.op == "not" or (g.op == "unary" and g.name == "Not"):
        neg, g = not neg, g.args[0]
    v = None
    if g.op == "bool":
        vs = [guard_truth(a_, param, value) for a_ in g.args]
        if g.name == "Or":
            v = True if any(x is True for x in vs) else (False if all(x is False for x in vs) else None)
        else:
            v = False if any(x is False for x in vs) else (True if all(x is True for x in vs) else None)
    elif g.op == "cmp" and len(g.args) == 2 and any(a_.op == "param" and a_.name == param for a_ in g.args):
        other = next(a_ for a_ in g.args if not (a_.op == "param" and a_.name == param))
        if g.name in ("==", "!=") and other.op == "const":
            v = (other.name == value) == (g.name == "==")
        elif g.name in ("in", "not in") and other.op in ("list", "tuple", "set") and all(x.op == "const" for x in other.args) and g.args[0].op == "param":
            v = (value in {x.name for x in other.args}) == (g.name == "in")
    return None if v is None else (v != neg)


def specialise(t: T, param: str, value) -> T:
    """`t` with every conditional on `param` resolved for param == value"""
    if t.op == "ifexp":
        tv = guard_truth(t.args[0], param, value)
        if tv is True:
            return specialise(t.args[1], param, value)
        if tv is False:
            return specialise(t.args[2], param, value)
    if not t.args and not t.kw:
        return t
    return T(t.op, t.name, [specialise(a_, param, value) for a_ in t.args], {k: specialise(v_, param, value) for k, v_ in t.kw.items()}, t.node)


def constants_compared_with(fn_node: ast.AST, param: str):
    """every constant the parameter is compared with (==, !=, in [...]) anywhere in the function"""
    out = set()
    for n in ast.walk(fn_node):
        if isinstance(n, ast.Compare) and len(n.ops) == 1:
            sides = [n.left, n.comparators[0]]
            if any(isinstance(x, ast.Name) and x.id == param for x in sides):
                for x in sides:
                    if isinstance(x, ast.Constant):
                        out.add(x.value)
                    elif isinstance(x, (ast.List, ast.Tuple, ast.Set)):
                        out |= {e.value for e in x.elts if isinstance(e, ast.Constant)}
    return out


def dict_entry(k: T, v: T) -> Optional[T]:
    """D if (k, v) are the key and the value of one entry of the dictionary D, however the loop is written:
    `for k, v in D.items()`, `for k in D: ... D[k]`, `for k in D.keys(): ... D[k]`, `for k, _ in D.items(): ... D[k]`."""
    if k.op == "item" and k.name == 0 and k.args[0].op == "elem" and k.args[0].args[0].op == "mcall" and k.args[0].args[0].name == "items":
        D = k.args[0].args[0].args[0]
        if v.op == "item" and v.name == 1 and v.args[0].key() == k.args[0].key():
            return D
        if v.op == "sub" and v.args[1].key() == k.key() and v.args[0].key() == D.key():
            return D
        return None
    if k.op == "elem":
        D = k.args[0].args[0] if (k.args[0].op == "mcall" and k.args[0].name == "keys" and len(k.args[0].args) == 1) else k.args[0]
        if v.op == "sub" and v.args[1].key() == k.key() and v.args[0].key() == D.key():
            return D
    return None


def subst(t: T, m: dict) -> T:
    if t.op == "param" and t.name in m:
        return m[t.name]
    if not t.args and not t.kw:
        return t
    return T(t.op, t.name, [subst(a, m) for a in t.args], {k: subst(v, m) for k, v in t.kw.items()}, t.node)


def _pure_helper(ex: Expander, value_only: bool = False) -> Optional[T]:
    """The return term of a helper that only computes a value (one return, no store into anything).  `value_only`: the
    caller is interested in WHAT is returned, not in what else the helper does (effects are checked elsewhere)."""
    def local_fill(s_):
        """a store that only fills a container created inside the helper (result list built with append)"""
        root = s_.base
        while root.op in ("listacc", "phi", "sub") and root.args:
            root = root.args[0]
        return s_.kind == "mcall" and s_.key.name in ("append", "extend") and root.op in ("list", "carried", "dict")
    if not ex.returns or (not value_only and any(not local_fill(s_) for s_ in ex.stores)):
        return None
    # early returns are one conditional value
    ret = ex.returns[0] if len(ex.returns) == 1 else ex.merged_return()
    if ret is None:
        return None
    def hands_out_closure(t, depth=0):
        """the VALUE is a function (or a tuple / list / dict / conditional of functions), not merely an expression that passes a
        lambda to somebody (`df.apply(lambda x: ...)`)"""
        if t.op in ("localfn", "lambda"):
            return True
        if t.op in ("tuple", "list", "dict", "kv", "ifexp", "phi") and depth < 4:
            return any(hands_out_closure(a_, depth + 1) for a_ in t.args)
        return False
    if hands_out_closure(ret):
        return None  # a factory of closures is not a value helper
    return ret


def _bind(fnode, args, kw, skip_self=False):
    a = fnode.args
    names = [x.arg for x in a.posonlyargs + a.args]
    if skip_self and names and names[0] in ("self", "cls"):
        names = names[1:]
    # f(*(a, b)) == f(a, b)
    flat = []
    for x in args:
        flat += list(x.args[0].args) if (x.op == "star" and x.args[0].op in ("list", "tuple")) else [x]
    args = flat
    if any(x.op == "star" for x in args) or a.kwarg or (len(args) > len(names) and not a.vararg):
        return None
    m = dict(zip(names, args))
    if a.vararg:
        m["*" + a.vararg.arg] = T("tuple", None, list(args[len(names):]))
    for k, v in kw.items():
        if k in m or k not in names + [x.arg for x in a.kwonlyargs]:
            return None
        m[k] = v
    defaults = dict(zip([x.arg for x in a.posonlyargs + a.args][-len(a.defaults):] if a.defaults else [], a.defaults))
    defaults.update({k.arg: d for k, d in zip(a.kwonlyargs, a.kw_defaults) if d is not None})
    for n in names + [x.arg for x in a.kwonlyargs]:
        if n not in m:
            d = defaults.get(n)
            if isinstance(d, ast.Constant):
                m[n] = T("const", d.value)
            else:
                return None
    return m


def _is_module_recv(t: T) -> bool:
    while t.op == "attr" and t.name == "base":
        t = t.args[0]
    return t.op == "param" and t.name in ("self", "module", "net", "network", "cell", "view", "pointer")


def inline(repo, fi: FuncInfo, t: T, depth: int = 3, keep=(), value_only: bool = False) -> T:
    """Replace calls of value-only helpers (nested functions of `fi`, module-level functions, methods of fi's class
    called on self) by their return term with the arguments substituted.  `keep`: callee names never inlined (the
    names a rule looks for).  Extracting a sub-expression into such a helper, or inlining one, leaves the result
    unchanged."""
    if depth <= 0:
        return t
    args = [inline(repo, fi, a, depth, keep, value_only) for a in t.args]
    kw = {k: inline(repo, fi, v, depth, keep, value_only) for k, v in t.kw.items()}
    t2 = T(t.op, t.name, args, kw, t.node) if (t.args or t.kw) else t
    callee_ex, call_args, skip_self, recv = None, None, False, None
    if t2.op == "call" and t2.name not in keep:
        top = fi
        while top.parent is not None:
            top = top.parent
        stack = [expander(repo, top)]
        while stack:
            e = stack.pop()
            if t2.name in e.nested:
                callee_ex = e.nested[t2.name]
                break
            stack.extend(e.nested.values())
        if callee_ex is None:
            r = repo.resolve_name(repo.mods[fi.file], t2.name)
            if isinstance(r, FuncInfo):
                callee_ex = expander(repo, r)
        call_args = list(t2.args)
    elif t2.op == "mcall" and t2.name not in keep and t2.args and t2.args[0].op == "param" and t2.args[0].name == "self" and fi.cls:
        for c in repo.mro(fi.cls):
            if t2.name in c.methods:
                callee_ex = expander(repo, c.methods[t2.name])
                call_args = list(t2.args[1:])
                skip_self = True
                recv = t2.args[0]
                break
    elif t2.op == "mcall" and t2.name not in keep and t2.args and t2.name.startswith("_") and _is_module_recv(t2.args[0]):
        # a private method called on a module-typed receiver (module._helper(), self.base._helper())
        for cn in MODULE_CLASSES:
            c = repo.classes.get(cn)
            if c is not None and t2.name in c.methods:
                callee_ex = expander(repo, c.methods[t2.name])
                call_args = list(t2.args[1:])
                skip_self = True
                recv = t2.args[0]
                break
    if callee_ex is None:
        return t2
    ret = _pure_helper(callee_ex, value_only and callee_ex.fi.parent is not None)
    if ret is None:
        return t2
    from sa.terms import fuse_comprehensions as _fuse
    m = _bind(callee_ex.fi.node, [_fuse(x) for x in call_args], t2.kw, skip_self)
    if m is None:
        return t2
    if skip_self:
        m["self"] = recv
    return inline(repo, callee_ex.fi, subst(ret, m), depth - 1, keep, value_only)


def _order_products(t: T) -> T:
    """`a * b` == `b * a` (numbers, arrays, and `[x] * n` == `n * [x]`): the operands of a product are ordered"""
    if not t.args and not t.kw:
        return t
    args = [_order_products(a) for a in t.args]
    kw = {k: _order_products(v) for k, v in t.kw.items()}
    if t.op == "binop" and t.name == "*" and len(args) == 2:
        args = sorted(args, key=lambda x: x.key())
    return T(t.op, t.name, args, kw, t.node)


def norm(repo, fi: FuncInfo, t: T, keep=()) -> T:
    from sa.terms import canon
    return _order_products(canon(inline(repo, fi, t, keep=keep)))


def value_norm(t: T) -> T:
    """Spellings that do not change WHAT is computed, removed on both sides of a comparison of values: container / dtype conversions
    (`np.asarray(x)`, `x.astype(..)`, `x.tolist()`, `list(x)`), `X.shape[0]` for `len(X)`, the number of branches written as
    `len(self.ncomp_per_branch)` for `self.total_nbranches`."""
    t = shape_norm(t)

    def rec(x):
        if not x.args and not x.kw:
            return x
        x = T(x.op, x.name, [rec(a) for a in x.args], {k: rec(v) for k, v in x.kw.items()}, x.node)
        if x.op == "mcall" and x.name in ("asarray", "array", "asanyarray") and len(x.args) >= 2 and x.args[0].op == "free":
            return x.args[1]
        if x.op == "mcall" and x.name in ("astype", "tolist", "to_list", "to_numpy", "copy") and x.args and x.args[0].op != "free":
            return x.args[0]
        if x.op == "call" and x.name in ("list", "tuple") and len(x.args) == 1 and not x.kw:
            return x.args[0]
        if x.op == "call" and x.name == "len" and len(x.args) == 1 and x.args[0].op == "attr" and x.args[0].name == "ncomp_per_branch" and \
                x.args[0].args and x.args[0].args[0].op == "param" and x.args[0].args[0].name == "self":
            return T("attr", "total_nbranches", [x.args[0].args[0]], node=x.node)
        return x
    return rec(t)


def same_expr(repo, fi: FuncInfo, stmt: ast.AST, value: ast.AST, expected_src: str, keep=(), locals_from=None) -> bool:
    """Does `value` (an expression of statement `stmt` in `fi`) compute `expected_src`?  Both sides are expanded through
    local temporaries and value-only helpers and brought to normal form, so renaming / hoisting / helper extraction do
    not matter; anything else does."""
    ex = expander(repo, fi)
    try:
        got = norm(repo, fi, ex.term(value), keep=keep)
    except Exception:
        return False
    # `locals_from={"branch_list": "branches"}`: the name `branch_list` in the expected text stands for ANY local of the function
    # whose value derives from the parameter `branches` (the local may be called anything)
    srcs = [expected_src]
    for ph, par in (locals_from or {}).items():
        import re as _re
        env = ex.env_at.get(id(stmt), {}) if stmt is not None else ex.final_env
        cands = [nm for nm, tv in env.items() if nm not in fi.params and isinstance(tv, T) and
                 T.find(tv, lambda x: x.op == "param" and x.name == par) is not None]
        srcs = [_re.sub(r"\b%s\b" % _re.escape(ph), c_, s_) for s_ in srcs for c_ in (cands or [ph])]
    for src_ in srcs[:40]:
        try:
            want = norm(repo, fi, ex.term_of_source(src_, stmt), keep=keep)
        except Exception:
            continue
        if want.key() == got.key():
            return True
        try:
            if _order_products(value_norm(want)).key() == _order_products(value_norm(got)).key():
                return True
        except Exception:
            pass
    return False


def rows_in_view_alias(t: T) -> T:
    """`self.nodes.index` (also `.to_numpy()` / `.values` of it) IS `self._nodes_in_view`, and `self.edges.index` is
    `self._edges_in_view`: a view's tables are cut out of the base's with exactly these labels (View.__init__), and a module's lists
    are read off its tables (_init_view).  Both spellings are rewritten to the list."""
    def rec(x):
        if x.op == "mcall" and x.name in ("to_numpy", "to_list", "tolist") and len(x.args) == 1:
            inner = rec(x.args[0])
            if inner.op == "attr" and inner.name in ("_nodes_in_view", "_edges_in_view"):
                return inner
        if x.op == "attr" and x.name == "values" and x.args:
            inner = rec(x.args[0])
            if inner.op == "attr" and inner.name in ("_nodes_in_view", "_edges_in_view"):
                return inner
        if x.op == "attr" and x.name == "index" and x.args and x.args[0].op == "attr" and x.args[0].name in ("nodes", "edges") and \
                x.args[0].args and x.args[0].args[0].op == "param" and x.args[0].args[0].name == "self":
            return T("attr", "_nodes_in_view" if x.args[0].name == "nodes" else "_edges_in_view", [x.args[0].args[0]], node=x.node)
        if not x.args and not x.kw:
            return x
        return T(x.op, x.name, [rec(a) for a in x.args], {k: rec(v) for k, v in x.kw.items()}, x.node)
    return rec(t)


def shape_norm(t: T) -> T:
    """One spelling for a few shape idioms, so that rules compare what is computed: `X.shape[0]` is `len(X)`; the number of rows of the
    view's own table is the number of rows in view (`len(self.nodes)` is `len(self._nodes_in_view)`); `X[None]` / `X[None, :]` /
    `X[np.newaxis]` is `expand_dims(X, axis=0)`; `tile(X, (n, 1))` of a 2-d X is `repeat(X, n, axis=0)` when X has one row (the only
    case in which the batching code expands an input)."""
    def is_none(x):
        return (x.op == "const" and x.name is None) or (x.op == "attr" and x.name == "newaxis")

    def full(x):
        return (x.op == "slice" and all(a.op == "const" and a.name is None for a in x.args)) or (x.op == "const" and x.name is Ellipsis)

    def rec(x):
        if not x.args and not x.kw:
            return x
        x = T(x.op, x.name, [rec(a) for a in x.args], {k: rec(v) for k, v in x.kw.items()}, x.node)
        if x.op == "sub" and x.args[0].op == "attr" and x.args[0].name == "shape" and x.args[1].op == "const" and x.args[1].name == 0:
            return rec(T("call", "len", [x.args[0].args[0]], node=x.node))
        if x.op == "call" and x.name == "len" and len(x.args) == 1 and x.args[0].op == "attr" and x.args[0].name in ("nodes", "edges") and \
                x.args[0].args and x.args[0].args[0].op == "param" and x.args[0].args[0].name == "self":
            return T("call", "len", [T("attr", "_nodes_in_view" if x.args[0].name == "nodes" else "_edges_in_view", [x.args[0].args[0]])], node=x.node)
        if x.op == "sub" and (is_none(x.args[1]) or (x.args[1].op == "tuple" and len(x.args[1].args) == 2 and is_none(x.args[1].args[0]) and full(x.args[1].args[1]))):
            return T("mcall", "expand_dims", [T("free", "jnp"), x.args[0]], {"axis": T("const", 0)}, node=x.node)
        if x.op == "mcall" and x.name == "tile" and len(x.args) >= 3 and x.args[2].op in ("tuple", "list") and len(x.args[2].args) == 2 and \
                x.args[2].args[1].op == "const" and x.args[2].args[1].name == 1:
            return T("mcall", "repeat", [x.args[0], x.args[1], x.args[2].args[0]], {"axis": T("const", 0)}, node=x.node)
        if x.op == "mcall" and x.name == "expand_dims" and len(x.args) == 3 and "axis" not in x.kw:
            return T("mcall", "expand_dims", x.args[:2], {"axis": x.args[2]}, node=x.node)
        if x.op == "mcall" and x.name == "repeat" and len(x.args) == 4 and "axis" not in x.kw:
            return T("mcall", "repeat", x.args[:3], {"axis": x.args[3]}, node=x.node)
        return x
    return rec(t)


def none_true(g: T):
    """If the condition `g` says "no entry of X is true", return X; else None.  Spellings: np.all(~X), (~X).all(), not X.any(), not np.any(X),
    X.sum() == 0, np.count_nonzero(X) == 0, not X.sum(), np.all(np.logical_not(X)), np.all(X == False)."""
    neg = False
    while g.op == "not" or (g.op == "unary" and g.name == "Not"):
        neg, g = not neg, g.args[0]

    def arr_of(call):
        a = [x for x in call.args if x.op != "free"]
        return a[0] if a else None

    def inverted(x):
        if x is None:
            return None
        if x.op == "unary" and x.name == "Invert":
            return x.args[0]
        if x.op in ("mcall", "call") and x.name == "logical_not":
            return arr_of(x)
        if x.op == "cmp" and x.name == "==" and len(x.args) == 2 and any(a.op == "const" and a.name is False for a in x.args):
            return next(a for a in x.args if not (a.op == "const" and a.name is False))
        return None
    if g.op == "mcall" and g.name == "all" and not neg:
        return inverted(arr_of(g))
    if g.op == "mcall" and g.name in ("any", "sum", "count_nonzero") and neg:
        x = arr_of(g)
        return x if x is not None and inverted(x) is None else None
    if g.op == "cmp" and g.name == "==" and not neg and len(g.args) == 2 and any(a.op == "const" and a.name == 0 for a in g.args):
        other = next(a for a in g.args if not (a.op == "const" and a.name == 0))
        if other.op == "mcall" and other.name in ("sum", "count_nonzero"):
            return arr_of(other)
    return None
