"""C08 -- recordings and inputs land on the right row, compartment and time step."""
from __future__ import annotations

import ast

from sa.core import AnalysisError, unparse, walk_no_nested
from sa.spaces import Classifier, key_test, table_kind
from sa.terms import Expander, T, canon
from sa.terms import fuse_comprehensions as _fuse_c
from . import idx

LEVEL = "other"
EXPLANATION = (
    "R-C08-space (index-space typing, per key class node/edge): recordings.rec_index, external_inds[key] "
    "and the per-type synapse arrays are slots whose index space is *defined by their stores* (record, "
    "_external_input, to_jax) and every use must conform: the recording gathers in integrate, the clamp "
    "scatters in step, the in-view filters of delete_clamps / View. R-C08-order: in step the clamp of "
    "non-voltage states follows both state updates, the voltage clamp follows the voltage assignment on "
    "every solver path, nothing rewrites a clamped key before return. R-C08-time: externals are "
    "transposed once to (time, n); shorter stimuli are extended with zeros and only for key 'i' (clamps "
    "raise), longer inputs are sliced to the same bound; the two step-current builders agree on window "
    "and length. R-C08-recs: recs = concat([initial, recordings[:n]]).T in record() order. "
    "R-C08-sibling: stimulate/clamp and data_stimulate/data_clamp share one batching normal form. "
    "R-C08-keyclass (shared with C11/C19): recordings and clamps are classified as edge or node entries "
    "with the base module's list of synaptic state names, not a view's filtered list."
)
ASSUMPTIONS = ["pandas concat/duplicated keep record() order", "key classes: node keys vs synapse keys (the code's own membership tests)"]

STATE_DICTS = {"u", "state", "states", "all_states"}


def check(repo, col, tier):
    col.rule("R-C08-space", "index space of the subscript == position space of the array (per key class)", 12)
    col.rule("R-C08-order", "clamps are applied after the updates they override", 4)
    col.rule("R-C08-time", "padding / truncation / transposition of externals", 6)
    col.rule("R-C08-inputs", "stimulus, voltage clamp and state clamps are applied exactly when the inputs have them", 7)
    input_guards(repo, col, "R-C08-inputs")
    col.rule("R-C08-recs", "recs = concat([init, recordings[:n]]).T", 3)
    col.rule("R-C08-sibling", "stimulate/clamp and their data_ twins agree", 6)
    col.rule("R-C08-charge", "a stimulus of I nA adds I*dt of charge to its target compartment, whatever its geometry", 10)
    _charge(repo, col)
    col.rule("R-C08-pairing", "values and row indices of inputs are extended in the same order", 3)
    from . import c19 as _c19
    col.rule("R-C08-recs", "recordings are (rec_index, state) pairs with unique row labels; a view deletes exactly its own", 2)
    _c19.recordings_matching(repo, col, "R-C08-recs")
    # an input given through a group lands once on every member: a group lists each compartment once (shared with C11/C19/C20)
    from . import c11 as _c11g
    col.rule("R-C08-groups", "groups hold sorted, unique row labels", 2)
    _c11g.group_normal_form(repo, col, "R-C08-groups")
    col.rule("R-C08-rows", "one row of input values per row index", 4)
    input_rows(repo, col, "R-C08-rows")
    externals_in_view(repo, col, "R-C08-rows")
    col.rule("R-C08-initial", "recorded currents at t = 0 belong to the initial state of the run", 2)
    initial_currents(repo, col, "R-C08-initial")
    cl = idx.compute_slots(repo, col, "R-C08-space", emit=("jaxedges", "rec_index", "external_inds"))
    _space_uses(repo, col, cl)
    _order(repo, col)
    _time(repo, col)
    _recs(repo, col)
    _sibling(repo, col)
    _pairing(repo, col)
    from . import c06
    c06.checkpoint_padding(repo, col, "R-C08-time")
    from . import c11
    c11.keyclass_on_base(repo, col, "R-C08-keyclass")
    from . import c19
    c19.record_dedup(repo, col, "R-C08-recs")


def _named_dict(node: ast.AST):
    """The local name of the dictionary being subscripted (state dictionaries by name)."""
    if isinstance(node, ast.Subscript) and isinstance(node.value, ast.Name):
        return node.value.id
    return None


def rank_converter(repo, col, R):
    """`_edge_inds_within_type()[e]` must be the RANK of edge e among the edges of its synapse type (0, 1, 2, ... in edge
    order): that is how the per-type state and parameter arrays are laid out (edges.groupby('type') in table order).  The
    distance to the first edge of the type, or any other numbering, differs as soon as two types are interleaved."""
    fi = repo.method("Module", "_edge_inds_within_type")
    ex = idx.expander(repo, fi)
    r = ex.merged_return()
    if r is None:
        col.unk(R, fi, "_edge_inds_within_type", "return value not derivable", node=fi.node)
        return
    from sa.termalg import term_rat
    from sa.algebra import Rat, Und
    rk = T.find(r, lambda x: x.op == "mcall" and x.name == "rank" and x.args[0].op == "mcall" and x.args[0].name == "groupby")
    by_type = rk is not None and len(rk.args[0].args) > 1 and rk.args[0].args[1].op == "const" and rk.args[0].args[1].name == "type" and \
        T.find(rk.args[0].args[0], lambda x: x.op == "attr" and x.name == "edges") is not None
    ok = False
    if by_type:
        def leaf(x):
            if T.find(x, lambda y: y is rk) is not None and x.op != "binop":
                return Rat.atom("rank")
            return None
        try:
            ok = term_rat(_strip_casts(r), leaf).eq(Rat.atom("rank") - Rat.const(1))
        except Und:
            ok = False
    other = T.find(r, lambda x: x.op == "mcall" and x.name in ("transform", "cumcount", "min", "idxmin", "first"))
    cum = T.find(r, lambda x: x.op == "mcall" and x.name == "cumcount")
    if cum is not None and T.find(cum, lambda x: x.op == "const" and x.name == "type") is not None:
        ok = True  # groupby('type').cumcount() is the same numbering
    col.add(R, fi, "global edge index -> position within the synapse type is the rank among the edges of that type",
            "DISCHARGED" if ok else ("VIOLATED" if (other is not None or by_type) else "UNDECIDED"),
            "edges.groupby('type').rank() - 1" if ok else
            f"_edge_inds_within_type returns {r.short(120)}: not the 0-based rank within the type; with interleaved synapse types "
            f"(I, T, T, I, I) recordings and clamps of synaptic states address another synapse", node=fi.node)


def _strip_casts(t: T) -> T:
    while (t.op == "mcall" and t.name in ("to_numpy", "astype", "to_list", "tolist", "copy", "asarray", "array") and t.args) or \
            (t.op == "sub" and t.args[1].op == "const" and isinstance(t.args[1].name, str)):
        t = t.args[-1] if t.op == "mcall" and t.args[0].op == "free" else t.args[0]
    if t.op == "binop":
        return T("binop", t.name, [_strip_casts(a) for a in t.args], node=t.node)
    return t


def _space_uses(repo, col, cl: Classifier):
    R = "R-C08-space"
    rank_converter(repo, col, R)
    # ---- integrate: recording gathers  state[rec_state][rec_ind]
    fi = repo.func("jaxley/integrate.py", "integrate")
    ex = idx.expander(repo, fi)
    sites = 0
    allex, todo = [], [ex]
    while todo:
        e_ = todo.pop()
        allex.append(e_)
        todo.extend(e_.nested.values())
    for sub_ex in allex:  # integrate itself and every function nested in it (scan body, recording helper, ...)
        for n in walk_no_nested(sub_ex.fi.node):
            if isinstance(n, ast.Subscript) and isinstance(n.value, ast.Subscript) and \
                    _named_dict(n.value) in STATE_DICTS and isinstance(n.ctx, ast.Load):
                arr = T("sub", None, [T("param", "states"), sub_ex.term(n.value.slice)])
                ix = sub_ex.term(n.slice)
                sites += idx.check_site(repo, col, cl, R, sub_ex.fi, "gather", arr, ix, n)
    if sites < 1:
        col.unk(R, fi, "integrate: recording gathers state[rec_state][rec_ind]", "index space of the recording gathers is not derivable",
                node=fi.node)

    # ---- step: clamp scatters
    fi = repo.method("Module", "step")
    ex = idx.expander(repo, fi)
    n_sc = 0
    for n in ast.walk(fi.node):
        if isinstance(n, ast.Call) and isinstance(n.func, ast.Attribute) and n.func.attr in ("set", "add") and \
                isinstance(n.func.value, ast.Subscript) and isinstance(n.func.value.value, ast.Attribute) and \
                n.func.value.value.attr == "at":
            arr_node = n.func.value.value.value
            if _named_dict(arr_node) in STATE_DICTS:
                keyt = ex.term(arr_node.slice)
                arr = T("sub", None, [T("param", "states"), keyt])
                ix = ex.term(n.func.value.slice)
                kcs = idx.KCS if keyt.op != "const" else ("node",)
                n_sc += idx.check_site(repo, col, cl, R, fi, "scatter." + n.func.attr, arr, ix, n, kcs=kcs)
                # the value scattered belongs to the same key
                v = _fuse_c(ex.term(n.args[0]))
                # the index may be converted first (global edge index -> position within the synapse type): it must still be
                # DERIVED from external_inds[<the same key>]
                src_ix = T.find(ix, lambda x: x.op == "sub" and x.args[0].op == "param" and x.args[0].name == "external_inds")
                same_key = v.op == "sub" and v.args[1].key() == keyt.key() and src_ix is not None and src_ix.args[1].key() == keyt.key()
                col.check(same_key, R, fi, f"{unparse(n)}: index and value of the same key",
                          "external_inds[k] and externals[k] of the key being clamped",
                          "the clamp mixes indices and values of different keys", node=n)
    if n_sc < 2:
        col.bad("R-C08-order", fi, "step applies the clamps of voltage and of channel/synapse states",
                f"only {n_sc} clamp scatter(s) `u[key].at[external_inds[key]].set(externals[key])` are left in Module.step: clamped "
                f"states are not held at their clamp value", node=fi.node)

    # ---- in-view filters: isin(slot, rows-in-view)
    for cls, name in (("Module", "delete_clamps"), ("View", "_set_externals_in_view"), ("View", "__init__")):
        fi = repo.method(cls, name)
        ex = idx.expander(repo, fi)
        found = 0
        # np.where(<test of the key class>, A, B): membership tests inside A apply to the class for which the test holds, those
        # inside B to the other class
        restrict = {}
        for w in ast.walk(fi.node):
            if isinstance(w, ast.Call) and unparse(w.func).split(".")[-1] == "where" and len(w.args) == 3:
                kt = key_test(ex.term(w.args[0]))
                if kt is not None:
                    cls_true = kt[0] if kt[1] else ("node" if kt[0] == "edge" else "edge")
                    cls_false = "node" if cls_true == "edge" else "edge"
                    for br, kcl in ((w.args[1], cls_true), (w.args[2], cls_false)):
                        for n_ in ast.walk(br):
                            restrict[id(n_)] = kcl
                        # an alternative that was computed into a temporary first: the membership tests inside its DEFINING term
                        # belong to that alternative as well (identified by the syntax node the term was built from)
                        for x_ in ex.term(br).walk():
                            if x_.node is not None:
                                restrict.setdefault(id(x_.node), kcl)
                    for n_ in ast.walk(w.args[0]):
                        restrict[id(n_)] = "test"
                    for x_ in ex.term(w.args[0]).walk():
                        if x_.node is not None:
                            restrict[id(x_.node)] = "test"
        for c in ex.calls:
            if isinstance(c.func, ast.Attribute) and c.func.attr == "isin":
                if restrict.get(id(c)) == "test":
                    continue
                t = ex.term(c)
                if t.op != "mcall":
                    continue
                if key_test(t) is not None:
                    continue  # a test of the key class, not a membership test of stored rows
                if len(t.args) == 3:  # np.isin(a, b)
                    a, b = t.args[1], t.args[2]
                else:  # a.isin(b)
                    a, b = t.args[0], t.args[1]
                for kc in ((restrict[id(c)],) if id(c) in restrict else idx.KCS):
                    sa_, sb = cl.space(a, kc), cl.space(b, kc)
                    if sa_ is None or sb is None:
                        continue
                    if not (sa_.why.startswith("slot") or sb.why.startswith("slot")):
                        continue
                    found += 1
                    col.check(sa_.s == sb.s, R, fi, f"{unparse(c)} [{kc} key]",
                              f"membership test between {sa_} and {sb}",
                              f"rows stored for a {kc} key are {idx._name(sa_.s)} ({sa_.why}) but are tested for "
                              f"membership in {idx._name(sb.s)}: for synapse states the filter compares edge "
                              f"rows with compartment rows", node=c)
        if found == 0 and name != "__init__":
            raise AnalysisError(f"{cls}.{name}: in-view filter of stored rows not found")

    # ---- data_clamp / data_stimulate hand over the table whose index matches the key class
    fi = repo.method("Module", "data_clamp")
    ex = idx.expander(repo, fi)
    calls = [c for c in ex.calls if isinstance(c.func, ast.Attribute) and c.func.attr == "_data_external_input"]
    if not calls:
        raise AnalysisError("data_clamp no longer calls _data_external_input")
    view_arg = ex.term(calls[0].args[3]) if len(calls[0].args) > 3 else None
    for kc in idx.KCS:
        k = None
        if view_arg is not None and view_arg.op == "ifexp":
            kt = key_test(view_arg.args[0])
            if kt:
                pick = view_arg.args[1] if (kt[0] == kc) == kt[1] else view_arg.args[2]
                k = table_kind(pick)
        want = "nodes" if kc == "node" else "edges"
        col.check(k == want, R, fi, f"data_clamp: table handed over for a {kc} state",
                  f"the {want} table (its index is what integrate stores as external_inds)",
                  f"data_clamp hands over the {k} table for a {kc} state", node=calls[0])
    fi = repo.func("jaxley/integrate.py", "add_clamps")
    ex = idx.expander(repo, fi)
    for s in ex.stores:
        if s.kind == "sub" and s.base.op == "param" and s.base.name == "external_inds":
            v = s.value
            uses_index = any(x.op == "attr" and x.name == "index" for x in v.walk())
            col.check(uses_index, R, fi, f"add_clamps: {unparse(s.node)} takes the row labels of the handed-over table",
                      "row labels (.index) of the table", f"stores {v.short()}", node=s.node)


def initial_currents(repo, col, R):
    """Column 0 of a recorded membrane / synaptic current is the current AT THE INITIAL STATE of the run: in get_all_states the
    currents are computed from the states after the initial states given by trainables / data_set (`pstate`) were written into them,
    never from the table values that those overrides replace."""
    fi = repo.method("Module", "get_all_states")
    ex = idx.expander(repo, fi)
    pst = fi.params[1] if len(fi.params) > 1 else None
    ov = [s_ for s_ in ex.stores if s_.kind == "sub" and any(g.op == "loop" and T.find(g, lambda x: x.op == "param" and x.name == pst) is not None for g in s_.guards)
          and T.find(s_.value, lambda x: x.op == "mcall" and x.name in ("set", "add")) is not None]
    calls = [c for c in ex.calls if isinstance(c.func, ast.Attribute) and c.func.attr in ("_channel_currents", "_synapse_currents")]
    if not ov or not calls:
        col.unk(R, fi, "initial currents are computed from the overridden initial states", f"{len(ov)} override stores, {len(calls)} current computations found", node=fi.node)
        return
    last_ov = max(s_.node.lineno for s_ in ov)
    for c in calls:
        col.check(c.lineno > last_ov, R, fi, f"{c.func.attr}: the initial current is computed after the initial states of the run were written",
                  "after the loop over pstate",
                  f"`{unparse(c)[:70]}` runs before the initial states given through make_trainable / data_set are written: the recorded current at t = 0 "
                  f"(and the current a dependent mechanism starts from) belongs to the table values, not to the run", node=c)


def externals_in_view(repo, col, R):
    """What a view shows of the external inputs: values and row indices are cut with ONE mask (the rows / edges of the view, by the kind
    of the key), so row k of the values still belongs to index k."""
    fi = repo.method("View", "_set_externals_in_view")
    ex = idx.expander(repo, fi)
    def into(s_, attr):
        """a subscript store into self.<attr> (the dictionary was created a few lines above, so its term is the fresh dict)"""
        tg = s_.node.targets[0] if isinstance(s_.node, ast.Assign) and s_.node.targets else (s_.node if isinstance(s_.node, ast.Subscript) else
                                                                                               getattr(getattr(s_, "stmt", None), "targets", [None])[0])
        return s_.kind == "sub" and isinstance(tg, ast.Subscript) and isinstance(tg.value, ast.Attribute) and tg.value.attr == attr and \
            isinstance(tg.value.value, ast.Name) and tg.value.value.id == "self"
    sv = [s_ for s_ in ex.stores if into(s_, "externals")]
    si = [s_ for s_ in ex.stores if into(s_, "external_inds")]
    if not sv or not si:
        col.unk(R, fi, "a view's inputs: values and indices cut with one mask", "stores not found", node=fi.node)
        return
    mask = lambda t: next((x.args[1] for x in t.walk() if x.op == "sub" and T.find(x.args[1], lambda y: y.op == "mcall" and y.name == "isin") is not None), None)
    mv, mi = mask(sv[-1].value), mask(si[-1].value)
    ok = mv is not None and mi is not None and mv.key() == mi.key()
    col.check(ok, R, fi, "a view's inputs: values and indices are cut with one mask", "data[in_view], inds[in_view]",
              f"values are `{sv[-1].value.short(60)}`, indices `{si[-1].value.short(60)}`: the rows of the values no longer belong to the rows of the indices "
              f"(delete_stimuli / delete_clamps through the view then remove the wrong inputs)", node=sv[-1].node)
    if mv is not None:
        isin = T.find(mv, lambda y: y.op == "mcall" and y.name == "isin")
        sel = isin.args[-1]
        kt = sel.op == "ifexp" and {x.name for x in T.find_all(sel.args[1], lambda y: y.op == "attr" and y.name.endswith("_in_view"))} == {"_edges_in_view"} and \
            {x.name for x in T.find_all(sel.args[2], lambda y: y.op == "attr" and y.name.endswith("_in_view"))} == {"_nodes_in_view"} and \
            T.find(sel.args[0], lambda y: y.op == "mcall" and y.name == "_edge_state_names") is not None
        neg = sel.op == "ifexp" and (sel.args[0].op == "not" or (sel.args[0].op == "cmp" and sel.args[0].name == "not in"))
        col.check(bool(kt) and not neg, R, fi, "a view's inputs are matched with its edges for synaptic keys and with its compartments otherwise", "",
                  f"membership is tested against `{sel.short(90)}`", node=sv[-1].node)


def input_rows(repo, col, R):
    """One row of values per row index: an input given once for a view of n rows is repeated n times (n = the number of rows the view
    contributes to the index list: compartments for membrane quantities, edges for synaptic ones), and it is taken as it is only when
    it already has exactly n rows.  Otherwise the value table and the index list of the module get out of step with the next call."""
    for nm in ("_external_input", "_data_external_input"):
        fi = repo.method("Module", nm)
        ex = idx.expander(repo, fi)
        terms = [idx.shape_norm(t_) for t_ in list(ex.returns) + [s_.value for s_ in ex.stores] if t_ is not None]
        rep = next((r for t in terms for r in [T.find(t, lambda x: x.op == "mcall" and x.name == "repeat")] if r is not None), None)
        if rep is None:
            col.unk(R, fi, f"{nm}: an input given once is repeated for every row in view", "no repeat found", node=fi.node)
            continue
        vals = [p_ for p_ in fi.params if p_ in ("values", "state_array")] or [fi.params[2] if len(fi.params) > 2 else None]
        ra = [a for a in rep.args if a.op != "free"]
        cnt = rep.kw.get("repeats") or (ra[1] if len(ra) > 1 else None)
        view_rows = lambda t: t is not None and T.find(t, lambda x: x.op == "call" and x.name == "len" and T.find(x.args[0], lambda y: y.op == "attr"
                                                        and y.name in ("_nodes_in_view", "_edges_in_view", "nodes", "edges") and _selfp(y.args[0])) is not None) is not None
        from_vals = lambda t: t is not None and T.find(t, lambda x: x.op == "param" and x.name in vals) is not None
        ax = rep.kw.get("axis") or (ra[2] if len(ra) > 2 else None)
        col.check(view_rows(cnt) and not from_vals(cnt) and ax is not None and ax.op == "const" and ax.name == 0, R, fi,
                  f"{nm}: an input given once is repeated once per row in view (axis 0)", "repeat(values, len(rows in view), axis=0)",
                  f"the input is repeated `{cnt.short(70) if cnt is not None else None}` times along axis {ax.short(10) if ax is not None else None}: the value table "
                  f"gets another number of rows than the index list", node=rep.node or fi.node)
        has_rep = lambda t: T.find(t, lambda y: y.op == "mcall" and y.name == "repeat") is not None
        q = next((x for t in terms for x in [T.find(t, lambda x: x.op == "ifexp" and has_rep(x.args[1]) != has_rep(x.args[2]))] if x is not None), None)
        if q is None:
            col.unk(R, fi, f"{nm}: the input is taken as given only if it has one row per row in view", "condition not found", node=fi.node)
            continue
        c = q.args[0]
        want = "==" if has_rep(q.args[2]) else "!="
        ok = c.op == "cmp" and c.name == want and len(c.args) == 2 and ((view_rows(c.args[0]) and from_vals(c.args[1])) or (view_rows(c.args[1]) and from_vals(c.args[0])))
        col.check(ok, R, fi, f"{nm}: the input is taken as given only if it has exactly one row per row in view", "num rows in view == number of value rows",
                  f"{'taken as given' if want == '==' else 'repeated'} when `{c.short(110)}`", node=rep.node or fi.node)


def _selfp(t):
    return t.op == "param" and t.name == "self"


def _pairing(repo, col, R="R-C08-pairing"):
    """Values and row indices of external inputs are extended in the same order."""
    from . import c19
    c19.pair_delete(repo, col, R)
    c19.delete_scope(repo, col, R)
    from sa.terms import canon as _canon

    def alts(t, guards):
        if t.op == "ifexp":
            return alts(t.args[1], guards + (t.args[0].key(),)) + alts(t.args[2], guards + ("not:" + t.args[0].key(),))
        return [(guards, t)]

    def order_of(v, is_old):
        """position of the previously stored rows inside a concatenation: 'old-first' / 'new-first' / 'assign'"""
        cat = T.find(v, lambda x: (x.op == "mcall" and x.name in ("concatenate", "concat", "vstack", "hstack", "append")))
        if cat is None:
            return "assign"
        lst = next((a_ for a_ in cat.args[1:] if a_.op in ("list", "tuple")), None)
        elems = list(lst.args) if lst is not None else [a_ for a_ in cat.args[1:]]
        pos = [i for i, e_ in enumerate(elems) if T.find(e_, is_old) is not None]
        if not pos:
            return "assign"
        return "old-first" if pos[0] == 0 else "new-first"

    def _gkey(g):
        """key of a guard with its polarity made explicit: `x not in L` / `x is not y` / not(c) are "not:" + key of the positive test"""
        flip = {"not in": "in", "is not": "is"}
        if g.op == "cmp" and g.name in flip:
            return "not:" + T("cmp", flip[g.name], list(g.args), dict(g.kw)).key()
        if g.op == "not" and g.args:
            return "not:" + g.args[0].key()
        return g.key()

    def check_pairs(fi, stores, names, old_pred):
        """stores: list of (dict name, store).  Every path stores both, with the same position of the old rows."""
        per = {nm: [] for nm in names}
        for nm, s_ in stores:
            for g_, v_ in alts(_canon(s_.value), tuple(_gkey(x) for x in s_.guards)):
                per[nm].append((set(g_), v_, s_))

        def consistent(g1, g2):
            u = g1 | g2
            return not any(("not:" + x) in u for x in u if not x.startswith("not:")) and \
                not any(x.startswith("not(") and x[4:-1] in u for x in u)
        n_ = 0
        seen = set()
        # alternatives whose own conditions contradict each other (a condition inside the value that the store's guard already
        # decides) are not paths
        for nm in names:
            per[nm] = [(g_, v_, s_) for g_, v_, s_ in per[nm] if consistent(g_, g_)]
        # completeness: on every path on which one of the two is stored, the other is stored as well
        for a_, b_ in ((names[0], names[1]), (names[1], names[0])):
            for g1, _v1, s1 in per[a_]:
                if not any(consistent(g1, g2) for g2, _v2, _s2 in per[b_]):
                    col.bad(R, fi, f"{fi.name}: `{a_}` and `{b_}` are stored together",
                            f"`{unparse(s1.node)[:60]}` stores into `{a_}` on a path on which `{b_}` is not stored: values and row "
                            f"indices of the inputs get out of step (an input without rows, or rows without an input)", node=s1.node)
        for g1, v1, s1 in per[names[0]]:
            for g2, v2, s2 in per[names[1]]:
                if not consistent(g1, g2):
                    continue
                pos = {names[0]: order_of(v1, lambda x: old_pred(x, names[0])), names[1]: order_of(v2, lambda x: old_pred(x, names[1]))}
                k_ = (pos[names[0]], pos[names[1]], id(s2))
                if k_ in seen:
                    continue
                seen.add(k_)
                n_ += 1
                ok = len(set(pos.values())) == 1
                col.check(ok, R, fi, f"{fi.name}: values and row indices are extended in the same order ({pos[names[0]]})",
                          str(pos),
                          f"{fi.name} extends the values as {pos[names[0]]} but the row indices as {pos[names[1]]}: every "
                          f"stimulus/clamp is applied to another input's compartment", node=s2.node)
        return n_

    total = 0
    for file_fn in (("jaxley/integrate.py", "add_stimuli"), ("jaxley/integrate.py", "add_clamps")):
        fi = repo.func(*file_fn)
        ex = idx.expander(repo, fi)
        sts = [(s_.base.name, s_) for s_ in ex.stores if s_.kind == "sub" and s_.base.op == "param" and s_.base.name in ("externals", "external_inds")]
        total += check_pairs(fi, sts, ("externals", "external_inds"),
                             lambda x, nm: x.op == "sub" and x.args[0].op == "param" and x.args[0].name == nm)
    fi = repo.method("Module", "_external_input")
    ex = idx.expander(repo, fi)
    sts = [(s_.base.name, s_) for s_ in ex.stores if s_.kind == "sub" and s_.base.op == "attr" and s_.base.name in ("externals", "external_inds")]
    total += check_pairs(fi, sts, ("externals", "external_inds"),
                         lambda x, nm: x.op == "sub" and x.args[0].op == "attr" and x.args[0].name == nm)
    if total < 3:
        raise AnalysisError(f"only {total} paired stores of input values and rows found")
    fi = repo.method("Module", "_data_external_input")
    ex = idx.expander(repo, fi)
    r = ex.merged_return()
    ok = None
    if r is not None:
        tup = T.find(r, lambda x: x.op == "tuple" and len(x.args) >= 2)
        cats = [x for x in r.walk() if x.op == "mcall" and x.name in ("concatenate", "concat")]
        olds = []
        for c_ in cats:
            lst = next((a_ for a_ in c_.args[1:] if a_.op in ("list", "tuple")), None)
            if lst is not None and len(lst.args) == 2:
                # the previously accumulated data are the parameters `data_external_input[1]` / `[2]`
                first_is_old = T.find(lst.args[0], lambda x: x.op in ("sub", "item") and T.find(x, lambda y: y.op == "param" and "external" in str(y.name)) is not None) is not None
                olds.append("old-first" if first_is_old else "new-first")
        if len(olds) >= 2:
            ok = len(set(olds)) == 1
    col.add(R, fi, "_data_external_input: values and rows are appended in the same order", "DISCHARGED" if ok else ("VIOLATED" if ok is False else "UNDECIDED"),
            "[old, new] for both" if ok else "data inputs and their rows are appended in different orders / not recognised", node=fi.node)


def _inside_nested(fn, node):
    for n in ast.walk(fn):
        if n is not fn and isinstance(n, (ast.FunctionDef, ast.Lambda)):
            for m in ast.walk(n):
                if m is node:
                    return True
    return False


# --------------------------------------------------------------------------------------


def _order(repo, col):
    """Ordering of clamps relative to the updates in Module.step (straight-line top level)."""
    R = "R-C08-order"
    fi = repo.method("Module", "step")
    body = fi.node.body
    pos = {}

    def first_stmt_index(pred):
        for i, st in enumerate(body):
            for n in ast.walk(st):
                if pred(n):
                    return i
        return None

    def is_call(n, name):
        return isinstance(n, ast.Call) and isinstance(n.func, ast.Attribute) and n.func.attr == name

    i_chan = first_stmt_index(lambda n: is_call(n, "_step_channels"))
    i_syn = first_stmt_index(lambda n: is_call(n, "_step_synapse"))
    if i_chan is None or i_syn is None:
        raise AnalysisError("Module.step: _step_channels/_step_synapse calls not found")

    exo = idx.expander(repo, fi)

    def clamp_stmt(st, voltage):
        """a `u[k].at[I].set(externals[k])` whose index I derives from external_inds[k]"""
        for n in ast.walk(st):
            if isinstance(n, ast.Call) and isinstance(n.func, ast.Attribute) and n.func.attr == "set" and \
                    isinstance(n.func.value, ast.Subscript) and isinstance(n.func.value.value, ast.Attribute) and n.func.value.value.attr == "at":
                it = exo.term(n.func.value.slice)
                src = T.find(it, lambda x: x.op == "sub" and x.args[0].op == "param" and x.args[0].name == "external_inds")
                if src is None:
                    continue
                is_v = src.args[1].op == "const" and src.args[1].name == "v"
                if is_v == voltage:
                    return n
        return None

    i_clamp = next((i for i, st in enumerate(body) if clamp_stmt(st, False) is not None), None)
    i_vclamp = next((i for i, st in enumerate(body) if clamp_stmt(st, True) is not None), None)
    if i_clamp is None or i_vclamp is None:
        col.bad(R, fi, "step contains the state clamp and the voltage clamp",
                f"{'the clamp of channel/synapse states' if i_clamp is None else 'the voltage clamp'} is missing from Module.step",
                node=fi.node)
        return
    col.check(i_clamp > i_chan and i_clamp > i_syn, R, fi, "state clamp after _step_channels and _step_synapse",
              "the returned state equals the clamp value",
              "the clamp of channel/synapse states is applied before a state update that overwrites it",
              node=body[i_clamp])
    # voltage assignment(s): statements that store u['v'] other than the clamp itself
    v_assign = [i for i, st in enumerate(body) for n in ast.walk(st)
                if isinstance(n, ast.Assign) and any(unparse(t) in ("u['v']",) for t in n.targets) and i != i_vclamp]
    if not v_assign:
        raise AnalysisError("Module.step: assignment of the new voltages not found")
    col.check(i_vclamp > max(v_assign), R, fi, "voltage clamp after the voltage step on every solver path",
              "the clamped voltage is what is returned",
              "the voltage clamp is applied before the voltage solve, which overwrites it", node=body[i_vclamp])
    # every solver name assigns the new voltages, an unknown one raises -- evaluated per name on the conditions each statement runs
    # under (whatever the arrangement of the if / elif / else is)
    names_ = sorted(idx.constants_compared_with(fi.node, "solver"), key=str)
    vst = [s_ for s_ in exo.stores if s_.kind == "sub" and s_.key.op == "const" and s_.key.name == "v" and s_.value is not None and
           not (s_.value.op == "mcall" and s_.value.name in ("set", "add"))]
    missing = [nm_ for nm_ in names_ if not any(all(idx.guard_truth(g, "solver", nm_) is not False for g in s_.guards) for s_ in vst)]
    col.check(bool(names_) and not missing, R, fi, "every solver branch assigns the new voltages", f"{len(names_)} solver names",
              f"solver name(s) {missing} do not assign u['v']", node=fi.node)
    final_raises = any(isinstance(n_, ast.Raise) and ex_guards_false_for_all(exo, n_, names_) for n_ in ast.walk(fi.node))
    col.check(final_raises, R, fi, "unknown solver name raises", "an unknown solver is refused",
              "an unknown solver name falls through and returns the old voltages", node=fi.node)
    # nothing writes a clamped key after its clamp except the voltage step/clamp
    late = []
    for i in range(i_clamp + 1, len(body)):
        for n in ast.walk(body[i]):
            if isinstance(n, ast.Assign):
                for t in n.targets:
                    if isinstance(t, ast.Subscript) and isinstance(t.value, ast.Name) and t.value.id == "u" and \
                            unparse(t.slice) != "'v'":
                        late.append(n)
            if is_call(n, "_step_channels") or is_call(n, "_step_synapse") or is_call(n, "_step_channels_state"):
                late.append(n)
    col.check(not late, R, fi, "no state is rewritten after the clamp", "clamped states reach the return unchanged",
              f"`{unparse(late[0]) if late else ''}` rewrites a state after the clamp", node=late[0] if late else fi.node)
    rets = [st for st in body if isinstance(st, ast.Return)]
    col.check(len(rets) == 1 and unparse(rets[0].value) == "u" and body.index(rets[0]) > i_vclamp, R, fi,
              "the clamped dictionary is what is returned", "returns u after the clamps",
              "step does not return the clamped state dictionary", node=rets[0] if rets else fi.node)


def ex_guards_false_for_all(ex, node, names):
    """the statement runs for NONE of the given solver names (some condition on its way is false for each of them), and it is
    guarded by a condition about the solver at all"""
    gs = ex.stmt_guards.get(id(node), ())
    return bool(names) and all(any(idx.guard_truth(g, "solver", nm_) is False for g in gs) for nm_ in names)


def input_guards(repo, col, R):
    """Which inputs are applied when, in Module.step -- decided on the polarity of the conditions under which each statement runs:
    the stimulus enters iff there is an entry `i`; the voltage clamp runs iff there is an entry `v`; the generic clamp runs for
    every OTHER key (not `i`: that is a current, not a state; not `v`: the voltage step would overwrite it)."""
    fi = repo.method("Module", "step")
    ex = idx.expander(repo, fi)

    def has(g, key):
        """True / False: the guard says `key` is / is not among the inputs; None: says nothing about it"""
        neg = False
        while g.op == "not" or (g.op == "unary" and g.name == "Not"):
            neg, g = not neg, g.args[0]
        if g.op == "cmp" and g.name in ("in", "not in") and len(g.args) == 2 and g.args[0].op == "const" and g.args[0].name == key and \
                T.find(g.args[1], lambda x: x.op == "param" and x.name == "externals") is not None:
            v = g.name == "in"
            return (not v) if neg else v
        return None

    def key_excluded(g):
        """set of keys for which the guard holds is the complement of the returned set (loop key not in [...]); None otherwise"""
        neg = False
        while g.op == "not" or (g.op == "unary" and g.name == "Not"):
            neg, g = not neg, g.args[0]
        if g.op == "cmp" and g.name in ("in", "not in") and len(g.args) == 2 and g.args[1].op in ("list", "tuple", "set") and \
                all(x.op == "const" for x in g.args[1].args) and g.args[0].op in ("elem", "item"):
            ks = frozenset(x.name for x in g.args[1].args)
            excl = (g.name == "not in") != neg
            return ks if excl else ("only", ks)
        if g.op == "bool" and g.name == "And" and not neg:
            out = set()
            for a_ in g.args:
                if a_.op == "cmp" and a_.name == "!=" and any(x.op == "const" for x in a_.args):
                    out.add(next(x.name for x in a_.args if x.op == "const"))
                else:
                    return None
            return frozenset(out)
        return None
    # (a) stimulus
    conv = [c for c in ex.calls if isinstance(c.func, ast.Attribute) and c.func.attr == "_get_external_input"]
    if not conv:
        raise AnalysisError("Module.step no longer converts the stimulus with _get_external_input")
    st_ = _stmt_of(fi.node, conv[0])
    g_ = [has(g, "i") for g in ex.stmt_guards.get(id(st_), ())]
    # ... or inside a conditional expression of that statement:  `convert(...) if "i" in externals else 0.0`
    for test_, pol_ in _expr_guards(st_, conv[0]):
        h_ = has(ex.term(test_), "i")
        g_.append(None if h_ is None else (h_ if pol_ else not h_))
    g_ = [x for x in g_ if x is not None]
    col.check(g_ == [True], R, fi, "the stimulus enters the step iff the inputs have an entry `i`", "if 'i' in externals",
              f"the stimulus conversion runs under {'the NEGATED test' if g_ == [False] else 'no test'} of `'i' in externals`: "
              f"{'a present stimulus is ignored (and an absent one raises KeyError)' if g_ == [False] else 'modules without a stimulus raise KeyError'}",
              node=conv[0])
    # (b) clamps
    n_v = n_gen = 0
    for s_ in ex.stores:
        if s_.kind != "sub" or s_.value is None:
            continue
        sc = s_.value if (s_.value.op == "mcall" and s_.value.name in ("set", "add", "multiply", "max", "min") and
                          s_.value.args and s_.value.args[0].op == "sub" and s_.value.args[0].args[0].op == "attr" and s_.value.args[0].args[0].name == "at" and
                          T.find(s_.value, lambda x: x.op == "param" and x.name == "externals") is not None) else None
        if sc is None:
            continue
        col.check(sc.name == "set", R, fi, f"`{unparse(s_.node)[:40]}`: a clamp REPLACES the state by the clamp value", ".at[rows].set(value)",
                  f"the clamp uses `.{sc.name}`: the clamped state becomes state {'+' if sc.name == 'add' else sc.name} value instead of the value", node=s_.node)
        if s_.key.op == "const" and s_.key.name == "v":
            n_v += 1
            g_ = [x for x in (has(g, "v") for g in s_.guards) if x is not None]
            col.check(g_ == [True], R, fi, "the voltage clamp runs iff the inputs have an entry `v`", "if 'v' in externals",
                      f"the voltage clamp runs under {'the NEGATED test' if g_ == [False] else 'no test'} of `'v' in externals`: a voltage clamp "
                      f"that was set is ignored", node=s_.node)
        elif s_.key.op in ("elem", "item"):
            n_gen += 1
            conds = [g for g in s_.guards if g.op != "loop"]
            for g in s_.guards:   # a loop over a filtered comprehension: `for key in [k for k in externals if k not in (...)]`
                if g.op == "loop" and g.args and g.args[0].op == "comp" and len(g.args[0].args) > 2:
                    conds += list(g.args[0].args[2:])
            ex_ = [x for x in (key_excluded(g) for g in conds) if x is not None]
            ok = len(ex_) == 1 and isinstance(ex_[0], frozenset) and ex_[0] == frozenset({"i", "v"})
            col.check(ok, R, fi, "the generic clamp runs for every input except `i` and `v`", "if key not in ['i', 'v']",
                      f"the generic clamp `{unparse(s_.node)[:50]}` runs for {('only ' + str(sorted(ex_[0][1]))) if ex_ and not isinstance(ex_[0], frozenset) else ('all keys except ' + str(sorted(ex_[0])) if ex_ else 'every key')}: "
                      f"clamps of channel / synapse states are skipped, or the stimulus current is written into a state", node=s_.node)
    col.check(n_v >= 1, R, fi, "Module.step applies the voltage clamp", "u['v'].at[external_inds['v']].set(externals['v'])",
              "no statement writes the clamp values of `v` into the state: a voltage clamp has no effect", node=fi.node)
    col.check(n_gen >= 1, R, fi, "Module.step applies the clamps of channel and synapse states", "u[key].at[inds].set(externals[key])",
              "no statement writes the clamp values of channel / synapse states into the state: such clamps have no effect", node=fi.node)


def _expr_guards(stmt, node):
    """the tests of the conditional expressions of `stmt` under which `node` is evaluated: [(test, True if in the body / False if in orelse)]"""
    out = []

    def rec(x, acc):
        if x is node:
            out.extend(acc)
            return True
        if isinstance(x, ast.IfExp):
            return rec(x.body, acc + [(x.test, True)]) or rec(x.orelse, acc + [(x.test, False)]) or rec(x.test, acc)
        return any(rec(c, acc) for c in ast.iter_child_nodes(x))
    if stmt is not None:
        rec(stmt, [])
    return out


def _stmt_of(fn, node):
    """the innermost simple statement of fn that contains node"""
    best = None
    for st in ast.walk(fn):
        if isinstance(st, (ast.Assign, ast.AugAssign, ast.Expr, ast.Return, ast.AnnAssign)) and any(x is node for x in ast.walk(st)):
            best = st
    return best


# --------------------------------------------------------------------------------------


def _time(repo, col, R="R-C08-time"):
    fi = repo.func("jaxley/integrate.py", "integrate")
    ex = idx.expander(repo, fi)
    fn = fi.node
    # transposition of every input to (time, n): exactly once on the way to the scan, and unconditionally.  Either in place
    # (`externals[key] = externals[key].T` for every key) or by rebuilding the dictionary (`{k: v.T for k, v in externals.items()}`).
    tstores = [s for s in ex.stores if s.kind == "sub" and unparse(s.node).startswith("externals[") and
               s.value.op == "attr" and s.value.name == "T"]
    events = [("store", s_, [g for g in s_.guards if g.op != "loop"]) for s_ in tstores]
    scan_call = next((c for c in ex.calls if isinstance(c.func, ast.Name) and c.func.id == "nested_checkpoint_scan"), None)
    if scan_call is not None:
        st_ = ex.term(scan_call)
        xs_t = idx.call_arg(repo, fi.file, st_, "xs")
        if xs_t is not None:
            for x in xs_t.walk():
                if x.op == "dictcomp" and len(x.args) >= 3:
                    K, V = x.args[0], x.args[1]
                    conds = list(x.args[3:])  # comprehension conditions
                    inner = V
                    gs = []
                    if inner.op == "ifexp":
                        gs.append(inner.args[0])
                    for tnode in [y for y in V.walk() if y.op == "attr" and y.name == "T" and y.args[0].op == "item" and y.args[0].name == 1]:
                        events.append(("rebuild", x, gs + conds))
    col.check(len(events) == 1, R, fi, "externals transposed to (time, n) exactly once",
              "row k of every external is consumed by scan iteration k",
              f"{len(events)} transpositions of the externals on the way to the scan", node=tstores[0].node if tstores else fn)
    for kind_, s_, cond in events:
        col.check(not cond, R, fi, "the transposition to (time, n) is unconditional",
                  "stimulate/clamp store (n, time); every key is transposed",
                  f"the transposition runs only if `{cond[0].short(70) if cond else ''}`: a decision taken from the SHAPE cannot "
                  f"tell (n, time) from (time, n) when the number of steps equals the number of inputs; such a square array is left "
                  f"untransposed and time and input axes are swapped", node=getattr(s_, "node", None) or fn)
    # ---- pad / truncate to t_max: decided on the stores into the externals dictionary and the raise statements, each with
    # the conjunction of conditions under which it runs (whatever the nesting / order of the if-branches is)
    from sa.termalg import term_rat as _trat
    from sa.algebra import Rat as _Rat, Und as _Und, ONE as _ONE
    from sa.terms import fuse_comprehensions as _fuse

    def tmax_guard(g):
        """True / False / None: `t_max is not None`, the truthiness of t_max, not about t_max"""
        if g.op == "cmp" and g.name in ("is not", "!=") and g.args[0].op == "param" and g.args[0].name == "t_max" and \
                g.args[1].op == "const" and g.args[1].name is None:
            return "isnot"
        if g.op == "param" and g.name == "t_max":
            return "truthy"
        return None

    def is_len(t):   # <entry>.shape[0] / len(<entry>)
        return (t.op == "sub" and t.args[0].op == "attr" and t.args[0].name == "shape" and t.args[1].op == "const" and t.args[1].name == 0) or \
            (t.op == "call" and t.name == "len")

    def is_T(t):     # the number of steps asked for: derived from t_max
        return T.find(t, lambda x: x.op == "param" and x.name == "t_max") is not None

    T_TERMS = {}

    T_ATOMS = {}

    def tl_leaf(x):
        """L for the length of an entry; an own atom for every length-free term derived from t_max (the number of steps asked for,
        however it is written); anything else opaque"""
        if is_len(x):
            return _Rat.atom("L")
        if is_T(x) and T.find(x, is_len) is None:
            T_ATOMS["T:" + x.key()] = x
            return _Rat.atom("T:" + x.key())
        return None

    def direction(g):
        """+1: the condition says 'more steps asked for than available' (T > L, T >= L, T - L > 0, 0 < T - L, ...), -1: the
        opposite, None: not a comparison of the two.  Decided on the linear form lhs - rhs, so it does not matter on which side
        and through which local variable (`num_missing = T - L`) the two quantities meet."""
        neg = False
        while g.op == "not" or (g.op == "unary" and g.name == "Not"):
            neg, g = not neg, g.args[0]
        if g.op != "cmp" or len(g.args) != 2 or g.name not in ("<", "<=", ">", ">="):
            return None
        try:
            form = _trat(g.args[0], tl_leaf) - _trat(g.args[1], tl_leaf)
        except _Und:
            return None
        sgn = None
        for an, tt in list(T_ATOMS.items()):
            if form.eq(_Rat.atom(an) - _Rat.atom("L")):
                sgn = 1
            elif form.eq(_Rat.atom("L") - _Rat.atom(an)):
                sgn = -1
            else:
                continue
            T_TERMS[tt.key()] = tt
            break
        if sgn is None:
            return None
        d = sgn * (1 if g.name in (">", ">=") else -1)
        return -d if neg else d

    def key_is_i(g):
        """True: key == 'i', False: key != 'i', None: other"""
        neg = False
        while g.op == "not":
            neg, g = not neg, g.args[0]
        if g.op == "cmp" and g.name in ("==", "!=") and len(g.args) == 2 and any(a_.op == "const" and a_.name == "i" for a_ in g.args):
            v = g.name == "=="
            return (not v) if neg else v
        return None

    def facts(gs):
        f = {"tmax": None, "dir": None, "is_i": None}
        for g in gs:
            if g.op == "loop":
                continue
            tg = tmax_guard(g)
            if tg:
                f["tmax"] = tg
            d = direction(g)
            if d is not None:
                f["dir"] = d
            ki = key_is_i(g)
            if ki is not None:
                f["is_i"] = ki
        return f

    ext_stores = [s_ for s_ in ex.stores if s_.kind == "sub" and unparse(s_.node).startswith("externals[") and any(tmax_guard(g) for g in s_.guards)]
    raises_ = [(n, facts(ex.stmt_guards.get(id(n), ()))) for n in ast.walk(fn) if isinstance(n, ast.Raise)
               and any(tmax_guard(g) for g in ex.stmt_guards.get(id(n), ()))]
    if not ext_stores:
        raise AnalysisError("integrate: the block that pads / truncates the inputs to t_max vanished")
    tm = {facts(s_.guards)["tmax"] for s_ in ext_stores}
    col.add(R, fi, "inputs are padded / truncated whenever t_max is given", "DISCHARGED" if tm == {"isnot"} else ("VIOLATED" if "truthy" in tm else "UNDECIDED"),
            "if t_max is not None" if tm == {"isnot"} else
            "the block is guarded by the truthiness of t_max: t_max = 0.0 (exactly one step, int(0.0 // dt + 1) == 1) is falsy and is treated "
            "like None, so the whole stimulus is simulated instead of one step", node=ext_stores[0].node)
    pads_ = [s_ for s_ in ext_stores if T.find(s_.value, lambda x: x.op == "mcall" and x.name == "concatenate") is not None]
    truncs_ = [s_ for s_ in ext_stores if s_ not in pads_ and T.find(s_.value, lambda x: x.op == "sub" and T.find(x.args[1], lambda y: y.op == "slice") is not None) is not None]
    # -- the pad
    if not pads_:
        col.unk(R, fi, "short stimuli are extended", "no store that concatenates a pad was found", node=fn)
    for s_ in pads_:
        f = facts(s_.guards)
        col.check(f["is_i"] is True, R, fi, "only the stimulus key 'i' is padded", "clamps are never extended",
                  "padding is not restricted to key 'i': a clamp shorter than the simulation is silently extended", node=s_.node)
        col.check(f["dir"] == 1, R, fi, "the pad runs when more steps are asked for than the stimulus has", "T > len",
                  "the padding branch is taken in the wrong case (the comparison of t_max steps with the stimulus length is reversed)", node=s_.node)
        cat = T.find(s_.value, lambda x: x.op == "mcall" and x.name == "concatenate")
        parts_ = list(cat.args[1].args) if len(cat.args) > 1 and cat.args[1].op in ("list", "tuple") else []
        fills = [(i_, x) for i_, p_ in enumerate(parts_) for x in [T.find(p_, lambda y: y.op == "mcall" and y.name in ("zeros", "ones", "full", "zeros_like", "ones_like"))] if x is not None]
        col.check(len(fills) == 1 and fills[0][1].name == "zeros", R, fi, "stimulus is extended with zeros", "zeros",
                  f"padding uses `{fills[0][1].name if fills else '?'}`", node=s_.node)
        if len(fills) == 1 and len(parts_) == 2:
            col.check(fills[0][0] == 1, R, fi, "pad is appended after the stimulus", "zeros follow the samples",
                      "the concatenation puts the pad before the samples", node=s_.node)
            z = fills[0][1]
            shp = z.args[1] if len(z.args) > 1 else None
            ok_shape = False
            rows = None
            if shp is not None and shp.op == "tuple" and len(shp.args) == 2:
                def leaf(x):
                    if is_len(x):
                        return _Rat.atom("L")
                    if x.key() in T_TERMS:   # the number of steps asked for, as it is compared with the length
                        return _Rat.atom("T")
                    if is_T(x) and T.find(x, is_len) is None:
                        return _Rat.atom("T:" + x.key())
                    return None
                try:
                    rows = _trat(shp.args[0], leaf)
                    ok_shape = rows.eq(_Rat.atom("T") - _Rat.atom("L")) and shp.args[1].op == "sub" and shp.args[1].args[0].op == "attr" and \
                        shp.args[1].args[0].name == "shape" and shp.args[1].args[1].op == "const" and shp.args[1].args[1].name == 1
                except _Und:
                    ok_shape = False
            col.check(ok_shape, R, fi, "pad has (T - len, n) rows", "pad completes the stimulus to T rows",
                      f"pad shape is ({rows}, ...) with T = steps asked for and L = samples available: it does not complete the stimulus to T rows", node=s_.node)
    # -- too-short clamps are refused
    rz = [f for _n, f in raises_ if f["dir"] == 1 and f["is_i"] is False]
    col.check(bool(rz), R, fi, "too-short clamps raise", "a clamp shorter than the simulation is refused",
              "a clamp shorter than the simulation is silently accepted", node=(raises_[0][0] if raises_ else fn))
    # -- truncation
    if not truncs_:
        col.unk(R, fi, "truncation of long inputs", "slice not found", node=fn)
    for s_ in truncs_:
        f = facts(s_.guards)
        sub_ = T.find(s_.value, lambda x: x.op == "sub" and T.find(x.args[1], lambda y: y.op == "slice") is not None)
        sl_ = sub_.args[1].args[0] if sub_.args[1].op == "tuple" else sub_.args[1]
        lo, hi, st_ = sl_.args
        ok = sl_.op == "slice" and lo.op == "const" and lo.name is None and st_.op == "const" and st_.name is None and is_T(hi) and \
            hi.key() in T_TERMS
        col.check(ok and f["dir"] == -1, R, fi, "long inputs are cut to the number of steps asked for", "externals[key][:T, :]",
                  f"inputs are truncated with `{sub_.short(80)}` under direction {f['dir']}: long inputs must be cut to their first T rows "
                  f"exactly when T does not exceed their length", node=s_.node)
    # stimulus builders agree
    a = repo.func("jaxley/stimulus.py", "step_current")
    b = repo.func("jaxley/stimulus.py", "datapoint_to_step_currents")

    def parts(fi_):
        """(window lower, window upper, number of time steps, scatter method) of the returned current, as terms"""
        exs = idx.expander(repo, fi_)
        r = exs.merged_return()
        if r is None:
            return None
        st = T.find(r, lambda x: x.op == "mcall" and x.name in ("set", "add") and x.args[0].op == "sub" and
                    x.args[0].args[0].op == "attr" and x.args[0].args[0].name == "at")
        if st is None:
            return None
        ix = st.args[0].args[1]
        sl_ = ix.args[0] if ix.op == "tuple" and ix.args else ix
        if sl_.op != "slice":
            return None
        # the array the window is written into: zeros(shape) + offset, full(shape, offset), ones(shape) * offset, ...
        zs = T.find(st.args[0].args[0], lambda x: x.op == "mcall" and x.name in ("zeros", "full", "ones", "empty") and x.args and x.args[0].op == "free")
        n_t = None
        if zs is not None and (len(zs.args) > 1 or zs.kw.get("shape") is not None):
            shp = zs.args[1] if len(zs.args) > 1 else zs.kw["shape"]
            n_t = shp.args[0] if shp.op == "tuple" and shp.args else shp
        return sl_.args[0], sl_.args[1], n_t, st.name, sl_.args[2]

    pa, pb = parts(a), parts(b)
    if pa is None or pb is None:
        col.unk(R, b, "step-current builders", "returned current is not zeros(...).at[start:end].set(amplitude)", node=b.node)
    else:
        for k, i_ in (("window_start", 0), ("window_end", 1), ("time_steps", 2)):
            same = pa[i_] is not None and pb[i_] is not None and pa[i_].key() == pb[i_].key()
            col.check(same, R, b, f"step-current builders agree on {k}", pa[i_].short(60) if pa[i_] is not None else "",
                      f"step_current computes {k} = `{pa[i_].short(60) if pa[i_] is not None else None}`, datapoint_to_step_currents "
                      f"`{pb[i_].short(60) if pb[i_] is not None else None}`", node=b.node)
        for fi_, p_ in ((a, pa), (b, pb)):
            lo, hi, _n, meth, step_ = p_
            okw = not (lo.op == "const" and lo.name is None) and not (hi.op == "const" and hi.name is None) and \
                (step_.op == "const" and step_.name is None) and lo.key() != hi.key()
            col.check(meth == "set" and okw, R, fi_, f"{fi_.name}: amplitude set on [window_start, window_end)",
                      "half-open window, background i_offset",
                      f"{fi_.name} does not set the amplitude on [window_start:window_end] (method {meth}, window {lo.short(30)}:{hi.short(30)})", node=fi_.node)


def scan_body(repo, fi, ex):
    """Expander of the function handed to nested_checkpoint_scan as the scan body (whatever it is called)."""
    call = next((c for c in ex.calls if isinstance(c.func, ast.Name) and c.func.id == "nested_checkpoint_scan"), None)
    if call is None or not call.args or not isinstance(call.args[0], ast.Name):
        return None
    return ex.nested.get(call.args[0].id)


def recording_gathers(repo, fi, ex, first):
    """(scan-body expander, per-step gather term, initial gather term); local helpers are looked through."""
    body = scan_body(repo, fi, ex)
    per_step = None
    if body is not None and body.returns and body.returns[0].op == "tuple" and len(body.returns[0].args) == 2:
        per_step = idx.inline(repo, body.fi, body.returns[0].args[1])
    initial = None
    if first is not None:
        t = idx.inline(repo, fi, first)
        initial = T.find(t, lambda x: x.op == "mcall" and x.name in ("asarray", "array", "stack")) or t
    return body, per_step, initial


def _recs(repo, col):
    R = "R-C08-recs"
    fi = repo.func("jaxley/integrate.py", "integrate")
    ex = idx.expander(repo, fi)
    fn = fi.node
    asg = None
    for n in walk_no_nested(fn):   # the statement that joins the initial recording with the scan's outputs (whatever its target is called)
        if isinstance(n, ast.Assign) and isinstance(n.targets[0], ast.Name) and \
                T.find(ex.term(n.value), lambda y: y.op == "mcall" and y.name == "concatenate") is not None and \
                T.find(ex.term(n.value), lambda y: y.op == "call" and y.name == "nested_checkpoint_scan") is not None:
            asg = n
    if asg is None:
        raise AnalysisError("integrate: `recs = concatenate(...)` vanished")
    t = ex.term(asg.value)
    is_T = t.op == "attr" and t.name == "T"
    cat = T.find(t, lambda x: x.op == "mcall" and x.name == "concatenate")
    lst = cat.args[1] if cat is not None and len(cat.args) > 1 else None
    ok = is_T and lst is not None and lst.op in ("list", "tuple") and len(lst.args) == 2
    col.check(ok, R, fi, "recs = concatenate([init, recordings[:n]], axis=0).T",
              "column 0 is the initial state, column k the state after k steps",
              f"recs is built as {t.short()}", node=asg)
    if ok:
        first, second = lst.args
        init_ok = any(x.op == "mcall" and x.name == "expand_dims" for x in first.walk()) and \
            any(x.op == "param" and x.name == "all_states" or (x.op == "item") for x in first.walk())
        col.check(init_ok, R, fi, "first block is the recording of the initial state", "initial recording first",
                  f"first block is {first.short()}", node=asg)
        sl = second
        ok2 = sl.op == "sub" and sl.args[1].op == "slice" and sl.args[1].args[0].op == "const" and \
            sl.args[1].args[0].name is None and sl.args[1].args[2].name is None
        upper = sl.args[1].args[1] if ok2 else None
        col.check(ok2, R, fi, "second block is recordings[:nsteps_to_return]", "the first n recorded steps",
                  f"second block is {second.short()}", node=asg)
        # the bound equals the number of rows of the externals / t_max steps
        if ok2:
            # the requested number of steps: the number of rows of the inputs (after the t_max block), or the steps of t_max
            # when there are no inputs -- whatever the local that holds it is called
            rows_of_inputs = T.find(upper, lambda x: x.op == "sub" and x.args[0].op == "attr" and x.args[0].name == "shape" and
                                    x.args[1].op == "const" and x.args[1].name == 0) is not None or \
                T.find(upper, lambda x: x.op in ("call", "mcall") and x.name == "len") is not None
            from_tmax = T.find(upper, lambda x: x.op == "param" and x.name == "t_max") is not None
            col.check(rows_of_inputs or from_tmax, R, fi, "bound is the requested number of steps",
                      "number of input rows / steps of t_max", f"recordings are cut at `{upper.short()}`", node=asg)
    # order of rows: one row per recording, in the order of the recordings table, in both gathers
    body, per_step, initial = recording_gathers(repo, fi, ex, first if ok else None)
    gathers = []
    if per_step is not None:
        gathers.append(("per-step", per_step, body.fi))
    if initial is not None:
        gathers.append(("initial", initial, fi))
    if len(gathers) < 2:
        raise AnalysisError("integrate: recording gathers not found")
    forms = []
    for lab, t, gfi in gathers:
        regroup = T.find(t, lambda x: (x.op in ("mcall", "call")) and x.name in ("unique", "groupby", "sort", "argsort", "sorted", "sort_values", "set", "fromkeys", "drop_duplicates", "factorize", "Counter") and
                         T.find(x, lambda y: y.op == "attr" and y.name == "recordings") is not None)
        # the sequence that is walked: zip(states, indices) -- as the iterable of a comprehension or of a loop that appends
        zc = T.find(t, lambda x: x.op == "call" and x.name == "zip" and len(x.args) == 2 and
                    all(T.find(a, lambda y: y.op == "attr" and y.name == "recordings") is not None for a in x.args))
        one_pass = T.find(t, lambda x: x.op in ("comp", "listacc")) is not None
        in_order = zc is not None and one_pass and t.op == "mcall" and t.name in ("asarray", "array", "stack")
        forms.append(frozenset(a_.key() for a_ in zc.args) if zc is not None else None)   # which sequences are walked in lock step
        col.add(R, gfi, f"{lab} gather: one row per recording in the order of the recordings table",
                "DISCHARGED" if (in_order and regroup is None) else ("VIOLATED" if regroup is not None else "UNDECIDED"),
                "rows are stacked from a single pass over zip(rec_states, rec_inds)" if in_order and regroup is None else
                (f"the {lab} gather regroups the recordings with `{regroup.name}` ({regroup.short(60)}): rows come back grouped, not in "
                 f"the order record() was called (e.g. v@A, m@A, v@B is returned as v@A, v@B, m@A)" if regroup is not None else
                 f"row order of {t.short(80)} not derivable"), node=t.node or fn)
    col.add(R, fi, "initial and per-step gathers iterate the same sequence",
            "UNDECIDED" if None in forms else ("DISCHARGED" if len(set(forms)) == 1 else "VIOLATED"),
            "same zip(rec_states, rec_inds)" if None not in forms and len(set(forms)) == 1 else
            ("the sequence one of the gathers walks is not derivable" if None in forms else
             "the initial column and the per-step rows are gathered in different orders"), node=asg)
    # the two sequences that are zipped come from the columns of the recordings table, in table order (a per-element
    # conversion of the index -- global edge index -> position within the synapse type -- keeps the order)
    zz = forms[0] if forms and forms[0] is not None else None
    for lab, t, gfi in gathers[:1]:
        zc = T.find(t, lambda x: x.op == "call" and x.name == "zip" and len(x.args) == 2)
        if zc is None:
            continue
        cols_found = set()
        for a_ in zc.args:
            for cname in ("rec_index", "state"):
                if T.find(a_, lambda x: x.op == "attr" and x.name == cname and T.find(x, lambda y: y.op == "attr" and y.name == "recordings") is not None) is not None:
                    cols_found.add(cname)
            resort = T.find(a_, lambda x: x.op in ("mcall", "call") and x.name in ("unique", "sort", "argsort", "sorted", "sort_values", "set", "groupby") and
                            T.find(x, lambda y: y.op == "attr" and y.name == "recordings") is not None)
            col.check(resort is None, R, fi, f"recording {('states', 'indices')[a_ is zc.args[-1]]} are taken in table order", "no regrouping",
                      f"`{resort.short(60) if resort else ''}` reorders the recordings relative to the table", node=asg)
        col.check(cols_found == {"rec_index", "state"}, R, fi, "the gathers pair recordings.state with recordings.rec_index", str(sorted(cols_found)),
                  f"the zipped sequences derive from columns {sorted(cols_found)} of the recordings table", node=asg)


def _sibling(repo, col):
    R = "R-C08-sibling"
    a = repo.method("Module", "_external_input")
    b = repo.method("Module", "_data_external_input")
    ea, eb = idx.expander(repo, a), idx.expander(repo, b)

    def norm_form(ex, fi, ren=None):
        """(expanded-input term, batch assertion) of the batching normal form."""
        out = {}
        for n in walk_no_nested(fi.node):
            if isinstance(n, ast.Assert):
                t_ = ex.term(n.test)
                if ren:
                    t_ = idx.subst(t_, {k: T("param", v) for k, v in ren.items()})
                out["assert"] = canon(idx.shape_norm(t_)).key()
        # the value finally stored / returned: find jnp.repeat(...) ifexp  (tile(x, (n, 1)) is the same expansion of a one-row input)
        rep = None
        for t_ in list(ex.returns) + [s_.value for s_ in ex.stores if s_.value is not None]:
            rep = rep or T.find(idx.shape_norm(t_), lambda x: x.op == "mcall" and x.name == "repeat")
        ax = rep.kw.get("axis") if rep is not None else None
        out["repeat_axis"] = str(ax.name) if ax is not None and ax.op == "const" else None
        out["has_repeat"] = rep is not None
        return out

    # compare modulo the parameter names: the two functions take (key, values) resp. (state_name, state_array) in this order
    pa = [x.arg for x in a.node.args.args if x.arg != "self"]
    pb = [x.arg for x in b.node.args.args if x.arg != "self"]
    na, nb = norm_form(ea, a), norm_form(eb, b, dict(zip(pb[:2], pa[:2])))
    ka = na.get("assert", "")
    kb = nb.get("assert", "")
    col.check(ka == kb and ka != "", R, b, "batch-size assertion identical in both", "batch in {1, n}",
              "the two input paths assert different batch sizes", node=b.node)
    col.check(na["has_repeat"] and nb["has_repeat"] and na["repeat_axis"] == nb["repeat_axis"] == "0", R, b,
              "batch 1 is repeated to the number of rows in view along axis 0 in both", "repeat(axis=0)",
              "the two input paths expand a single input differently", node=b.node)
    # public pairs
    for (m1, m2, inner1, inner2) in (("stimulate", "data_stimulate", "_external_input", "_data_external_input"),
                                     ("clamp", "data_clamp", "_external_input", "_data_external_input")):
        f1, f2 = repo.method("Module", m1), repo.method("Module", m2)
        e1, e2 = idx.expander(repo, f1), idx.expander(repo, f2)
        c1 = [c for c in e1.calls if isinstance(c.func, ast.Attribute) and c.func.attr == inner1]
        c2 = [c for c in e2.calls if isinstance(c.func, ast.Attribute) and c.func.attr == inner2]
        if not c1 or not c2:
            col.bad(R, f2, f"{m1}/{m2} delegate to {inner1}/{inner2}", "delegation vanished", node=f2.node)
            continue
        k1, k2 = e1.term(c1[0].args[0]), e2.term(c2[0].args[0])
        same = (k1.op == k2.op == "const" and k1.name == k2.name) or (k1.op == k2.op == "param")
        col.check(same, R, f2, f"{m1} and {m2} address the same key",
                  f"{k1.short()} / {k2.short()}", f"{m1} uses key {k1.short()}, {m2} uses {k2.short()}", node=c2[0])
        if m1 == "stimulate":
            col.check(k1.op == "const" and k1.name == "i", R, f1, "stimulate addresses key 'i'", "'i'",
                      f"stimulate addresses {k1.short()}", node=c1[0])
            v2 = e2.term(c2[0].args[3]) if len(c2[0].args) > 3 else None
            col.check(v2 is not None and table_kind(v2) == "nodes", R, f2, "data_stimulate hands over the node table",
                      "self.nodes", f"data_stimulate hands over {v2.short() if v2 else None}", node=c2[0])
        v1, v2 = e1.term(c1[0].args[1]), e2.term(c2[0].args[1])
        col.check(v1.op == "param" and v2.op == "param", R, f2, f"{m1}/{m2} pass the caller's array unchanged",
                  "the input array is forwarded", f"{v1.short()} / {v2.short()}", node=c2[0])


def _charge(repo, col):
    """I nA on a compartment of membrane area A and specific capacitance cm: dV = I*dt / (cm*A), i.e. the charge
    cm*A*dV equals I*dt.  Structural parts: (a) nA -> uA/cm^2 divides by the area of the compartment the current is
    scattered into (same index for the gather of radius/length and for the additive scatter from zeros); (b) the
    conversion formula is I/(2 pi r l) with the factor the units force; (c) in the voltage equation the stimulus term
    has coefficient exactly 1/capacitance (decided on the algebraic form of `constant_terms`, however it is written)."""
    R = "R-C08-charge"
    from . import c02, cable
    from sa.termalg import term_rat, coefficient
    from sa.algebra import Rat, Und
    c02._stim(repo, col, R)
    cable.check_point_process(repo, col, R)
    fi = repo.method("Module", "step")
    ex = idx.expander(repo, fi)
    val = None
    for n in walk_no_nested(fi.node):
        if isinstance(n, ast.Dict):
            for k, v in zip(n.keys, n.values):
                if isinstance(k, ast.Constant) and k.value == "constant_terms":
                    val = v
    if val is None:
        raise AnalysisError("Module.step: `constant_terms` of the solver arguments not found")

    def leaf(x):
        if x.op == "ifexp" and T.find(x.args[1], lambda y: y.op == "mcall" and y.name == "_get_external_input") is not None:
            return term_rat(x.args[1], leaf)  # the case "the module has a stimulus"
        if x.op == "mcall" and x.name == "_get_external_input":
            return Rat.atom("i_ext")
        if x.op == "sub" and x.args[0].op == "param" and x.args[0].name == "params" and x.args[1].op == "const":
            return Rat.atom("p_" + str(x.args[1].name))
        return None

    try:
        form = term_rat(ex.term(val), leaf)
        co = coefficient(form, "i_ext")
    except Und as e:
        col.unk(R, fi, "constant_terms", f"outside the analysable fragment: {e}", node=val)
        return
    want = Rat.const(1) / Rat.atom("p_capacitance")
    col.check(co is not None and co.eq(want), R, fi, "stimulus current enters the voltage equation with coefficient 1/capacitance",
              "d constant_terms / d i_ext == 1/params['capacitance']",
              f"the coefficient of the stimulus current in `constant_terms` is {co} (expected 1/capacitance): a stimulus of I nA "
              f"deposits a charge different from I*dt on compartments whose capacitance is not 1 uF/cm^2", node=val)
