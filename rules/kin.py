"""Shared analysis of the built-in mechanisms (used by C03, C04, C14)."""
from __future__ import annotations

import ast
import os
import re
from fractions import Fraction as Fr

from sa.algebra import (Atoms, Evaluator, ObjV, PW, Rat, SymDict, StrV, Und, ONE, ZERO,
                        as_pw, rat_of, parse_ref, rat_sign)
from sa.core import VERIF, AnalysisError

CHANNEL_FILES = ["jaxley/channels/hh.py", "jaxley/channels/pospischil.py"]
SYNAPSE_FILES = ["jaxley/synapses/ionotropic.py", "jaxley/synapses/test.py", "jaxley/synapses/tanh_rate.py"]


def load_spec():
    path = os.path.join(VERIF, "spec", "kinetics.txt")
    spec, cur = {}, None
    for raw in open(path, encoding="utf-8"):
        line = raw.strip()
        if not line or line.startswith("#"):
            continue
        head, _, rest = line.partition(" ")
        if head == "mech":
            name, file, kind = rest.split()
            cur = spec[name] = {"file": file, "kind": kind, "gates": {}, "states": {}, "current": None,
                                "params": {}}
        elif head == "gate":
            sig, kind, a, b = [x.strip() for x in rest.split("|")]
            fn, *args = sig.split()
            cur["gates"][fn] = (args, kind, a, b)
        elif head == "state":
            key, kind, a, b = [x.strip() for x in rest.split("|")]
            cur["states"][key] = (kind, a, b)
        elif head == "current":
            cur["current"] = rest.split("|", 1)[1].strip()
        elif head == "param":
            k, v = [x.strip() for x in rest.split("=")]
            cur["params"][k] = Fr(v)
        else:
            raise AnalysisError(f"spec/kinetics.txt: bad line {line!r}")
    return spec


def exprel_call(ev, args, kw):
    u = rat_of(args[0])
    return PW.of(u / (ev.atoms.exp(u) - ONE))


def new_eval(repo, transparent=True, **kw):
    ev = Evaluator(repo, Atoms(clip_transparent=transparent), **kw)
    ev.opaque_calls["exprel"] = exprel_call
    return ev


_tok = re.compile(r"\b([PS])\[([^\]]+)\]")


def ref(ev, text, env=None):
    """Evaluate a reference formula; P[key]/S[key] become the atoms the code side uses."""
    env = dict(env or {})
    names = {}

    def sub(m):
        nm = f"REF_{len(names)}"
        names[nm] = f"{m.group(1)}[{m.group(2)}]"
        return nm

    text = _tok.sub(sub, text)
    for nm, atom in names.items():
        env[nm] = PW.of(Rat.atom(atom))
    return parse_ref(ev, text, env)


def A(name):
    return PW.of(Rat.atom(name))


def mech_classes(repo, base):
    """Concrete built-in subclasses of Channel / Synapse, in file order."""
    out = []
    files = CHANNEL_FILES if base == "Channel" else SYNAPSE_FILES
    for f in files:
        mi = repo.mod(f)
        for c in mi.classes.values():
            if any(b.name == base for b in repo.mro(c.name)[1:]):
                out.append(c)
    return out


def call_update(ev, repo, cls, kind):
    S, P = SymDict("S"), SymDict("P")
    fi = repo.method(cls, "update_states")
    if kind == "channel":
        r = ev.call(fi, [S, A("dt"), A("v"), P], selfv=ObjV(cls))
    else:
        r = ev.call(fi, [S, A("dt"), A("v_pre"), A("v_post"), P], selfv=ObjV(cls))
    if not isinstance(r, dict):
        raise Und("update_states does not return a dict display")
    return r, S, P


def call_current(ev, repo, cls, kind):
    S, P = SymDict("S"), SymDict("P")
    fi = repo.method(cls, "compute_current")
    if kind == "channel":
        r = ev.call(fi, [S, A("v"), P], selfv=ObjV(cls))
    else:
        r = ev.call(fi, [S, A("v_pre"), A("v_post"), P], selfv=ObjV(cls))
    return main_region(r), S, P


def call_init(ev, repo, cls):
    S, P = SymDict("S"), SymDict("P")
    fi = repo.method(cls, "init_state")
    r = ev.call(fi, [S, A("v"), P, A("dt")], selfv=ObjV(cls))
    if not isinstance(r, dict):
        raise Und("init_state does not return a dict display")
    return r, S, P


def subst_atom(r: Rat, atom: str, val: Rat) -> Rat:
    """Substitute an atom (integer powers only) by a rational form."""
    from sa.algebra import Poly

    def sp(p: Poly) -> Rat:
        out = ZERO
        for mono, c in p.t.items():
            term = Rat.const(c)
            for a, e in mono:
                if a == atom:
                    if e.denominator != 1:
                        raise Und("fractional power of substituted atom")
                    term = term * val.powi(int(e))
                else:
                    term = term * Rat.atom(a, e)
            out = out + term
        return out

    return sp(r.n) / sp(r.d)


def eliminate(r: Rat, atom: str):
    """If the form does not depend on `atom` (semantically; the representation is not
    reduced), return an equal form without it, else None."""
    if atom not in r.atoms():
        return r
    r1 = subst_atom_const(r, atom, 2)
    r2 = subst_atom_const(r, atom, 3)
    return r1 if r1.eq(r2) and r1.eq(r) else None


def subst_atom_const(r: Rat, atom: str, base: int) -> Rat:
    """Substitute atom := base**D, D = lcm of the denominators of its exponents (so that
    fractional powers stay exact)."""
    from math import lcm
    from sa.algebra import Poly

    D = 1
    for p in (r.n, r.d):
        for mono in p.t:
            for a, e in mono:
                if a == atom:
                    D = lcm(D, e.denominator)

    def sp(p: Poly) -> Poly:
        out = {}
        for mono, c in p.t.items():
            m2 = []
            for a, e in mono:
                if a == atom:
                    c = c * Fr(base) ** int(e * D)
                else:
                    m2.append((a, e))
            m2 = tuple(m2)
            out[m2] = out.get(m2, 0) + c
        return Poly(out)

    return Rat(sp(r.n), sp(r.d))


def eliminate_all(r: Rat, atoms):
    for a in atoms:
        if a in r.atoms():
            r2 = eliminate(r, a)
            if r2 is None:
                return None
            r = r2
    return r


def affine_in(r: Rat, atom: str):
    """Return (E, C) with r == E*atom + C, or None."""
    f0 = subst_atom(r, atom, ZERO)
    f1 = subst_atom(r, atom, ONE)
    E = f1 - f0
    if atom in E.atoms() or atom in f0.atoms():
        return None
    if not r.eq(E * Rat.atom(atom) + f0):
        return None
    return E, f0


def decompose_update(ev, new: Rat, state_atom: str):
    """new == x*E + xinf*(1-E), E = exp(-dt*k).  Returns (k, xinf, E) or raises Und."""
    ac = affine_in(new, state_atom)
    if ac is None:
        raise Und("update is not affine in the state")
    E, C = ac
    mc = E.monomial()
    if mc is None:
        raise Und("coefficient of the state is not a pure exponential")
    from sa.algebra import Poly
    E = Rat(Poly({mc[0]: mc[1]}))
    arg = ev.atoms.log(E)
    if any(a.startswith("log#") for a in arg.atoms()):
        raise Und("coefficient of the state is not a pure exponential")
    k = -arg / Rat.atom("dt")
    k1, k2 = subst_atom(k, "dt", ONE), subst_atom(k, "dt", Rat.const(2))
    if not k1.eq(k2):
        raise Und("exponent is not linear in dt")
    k = k1
    xinf = C / (ONE - E)
    x2 = eliminate_all(xinf, sorted(E.atoms()))
    if x2 is None:
        raise Und("constant term is not x_inf*(1 - E) with x_inf independent of dt")
    return k, x2, E


POSITIVE_PARAM_SUFFIXES = ("_taumax", "_k_minus")


def positive_atoms(ev, forms):
    pos = set(ev.atoms.positive) | {"dt", "pi"}
    for f in forms:
        for a in f.atoms():
            if a.startswith("exprel#") or a.startswith("exp"):
                pos.add(a)
            if a.startswith("P[") and a.rstrip("]").endswith(POSITIVE_PARAM_SUFFIXES):
                pos.add(a)
    return pos


def module_helpers(repo, file):
    """Module-level numeric helper functions of a mechanism file (e.g. _vtrap, efun)."""
    mi = repo.mod(file)
    return [fi for fi in mi.functions.values()]


def main_region(v) -> Rat:
    """The form on the region where every guard is false (the generic voltage)."""
    pw = as_pw(v)
    cand = [r for c, r in pw.pieces if all(not b for _g, b in c)]
    if len(cand) != 1:
        raise Und("no unique main region")
    return cand[0]


def region_name(ev, conds) -> str:
    if not conds:
        return "all v"
    out = []
    for g, b in sorted(conds):
        kind, lhs, bound = ev.guards[g]
        txt = f"|{lhs}| < {bound}" if kind == "abs<" else f"{lhs} < {bound}"
        out.append(txt if b else f"not({txt})")
    return " and ".join(out)


def foreign_saturation(ev):
    """Saturating primitives (clip/minimum/maximum) met during evaluation other than the
    clip inside save_exp (which is the documented overflow guard)."""
    out = []
    for site in ev.atoms.clip_sites:
        kind, _x, stack, node = site
        stack = real_stack(stack)
        if stack and stack[-1] == "save_exp":
            continue
        out.append((kind, stack, node))
    return out


def real_stack(stack):
    """the call stack without the frames of local helper functions (a local helper of f runs as part of f)"""
    return tuple(f_ for f_ in stack if not str(f_).startswith("<local>."))


def subst_var(ev, r: Rat, var: str, val: Rat) -> Rat:
    """Substitute a free variable by an affine polynomial value, also inside exp[var] atoms."""
    from sa.algebra import Poly

    if not val.is_polynomial():
        raise Und("substituted value is not polynomial")

    def exp_of(q):
        out = ONE
        for mono, c in val.n.t.items():
            c = c / val.d.const_value()
            nm = "exp[" + ("*".join(x if e == 1 else f"{x}^{e}" for x, e in mono) or "1") + "]"
            out = out * Rat.atom(nm, c * q)
        return out

    def sp(p: Poly) -> Rat:
        out = ZERO
        for mono, c in p.t.items():
            term = Rat.const(c)
            for a, e in mono:
                if a == var:
                    if e.denominator != 1:
                        raise Und("fractional power")
                    term = term * val.powi(int(e))
                elif a == f"exp[{var}]":
                    term = term * exp_of(e)
                elif a.startswith("exp[") and var in a[4:-1].replace("*", " ").replace("^", " ").split():
                    raise Und(f"mixed exponential atom {a}")
                else:
                    term = term * Rat.atom(a, e)
            out = out + term
        return out

    return sp(r.n) / sp(r.d)


SYNONYMS = {"dt": "delta_t", "u": "states", "voltages": "v", "voltage": "v", "state": "states"}


def interface_agreement(repo, col, R, base_name, methods, min_count=4):
    """Sibling implementations of one interface agree on the ORDER of their parameters (they are called positionally with the
    order of the base class).  Names are compared modulo a few synonyms (dt / delta_t, u / states)."""
    from sa.core import AnalysisError
    base = repo.classes.get(base_name)
    if base is None:
        raise AnalysisError(f"class {base_name} vanished")
    norm = lambda ps: [SYNONYMS.get(p_, p_) for p_ in ps if p_ not in ("self", "cls")]
    n = 0
    for meth in methods:
        bfi = base.methods.get(meth)
        if bfi is None:
            raise AnalysisError(f"{base_name}.{meth} vanished")
        bpar = norm(bfi.params)
        for c in mech_classes(repo, base_name):
            m = c.methods.get(meth)
            if m is None:
                continue
            n += 1
            par = norm(m.params)
            # optional trailing parameters with defaults do not take part in the positional call
            a_ = m.node.args
            n_def = len(a_.defaults)
            req = par[:len(par) - n_def] if n_def else par
            if par == bpar or req == bpar:
                col.ok(R, m, f"{c.name}.{meth}: parameter order of the interface", str(par), node=m.node)
            elif sorted(req) == sorted(bpar):
                col.bad(R, m, f"{c.name}.{meth}: parameter order of the interface",
                        f"{c.name}.{meth}({', '.join(par)}) lists its parameters in another order than {base_name}.{meth}({', '.join(bpar)}); "
                        f"the simulator passes them positionally, so the quantities arrive under each other's names", node=m.node)
            else:
                col.unk(R, m, f"{c.name}.{meth}: parameter order of the interface",
                        f"parameters {par} cannot be matched by name with {base_name}.{meth}{bpar}", node=m.node)
    if n < min_count:
        raise AnalysisError(f"only {n} {base_name} interface methods found")
