"""C10 -- all ways of setting a parameter are equivalent and touch only what was selected."""
from __future__ import annotations

import ast

from sa.core import AnalysisError, unparse, walk_no_nested
from sa.spaces import Classifier, key_test, table_kind
from sa.terms import Expander, T
from . import idx

LEVEL = "other"
EXPLANATION = (
    "R-C10-rows: set, data_set and make_trainable select the same rows: rows in view of the table that "
    "owns the key, restricted to entries where the key is not NaN. R-C10-scatter: trainable / data_set "
    "values are written with params[key].at[inds].set(val[:, None]) where the index space of inds "
    "(defined by the producers make_trainable / data_set, converted E->S by the rank table for synapse "
    "parameters) equals the position space of the array. R-C10-sentinel: an index array padded with -1 "
    "(groups of unequal size) reaches a scatter only through mode='drop' with the pad moved out of range. "
    "R-C10-write-back: write_trainables recomputes values with the same pstate construction that init_fn "
    "uses and writes synapse keys under the type mask. R-C10-pair: trainable_params and "
    "indices_set_by_trainables are always extended / filtered / cleared together. R-C10-tojax: every "
    "entry point rebuilds jaxnodes/jaxedges unconditionally and BEFORE the first read, and the rebuild "
    "covers every node column and every parameter and state of every synapse type. R-C10-groups: a group "
    "(which may share a trainable) is extended from the base module's current entry, never from a view's "
    "filtered copy. R-C10-init: the default initial value of a shared trainable ignores the padded dummy "
    "entries. R-C10-derived: derived parameters are computed after the overrides."
)
ASSUMPTIONS = ["jax .at[].set(mode='drop') drops out-of-range indices", "key classes: node keys vs synapse keys"]

PARAM_DICTS = {"params", "states"}


def check(repo, col, tier):
    # set / make_trainable / data_set address the base with the row labels of the view's tables (shared with C11)
    from . import c11 as _c11l
    col.rule("R-C10-labels", "a table of a view that is re-derived from itself keeps its row labels", 3)
    _c11l.table_labels(repo, col, "R-C10-labels")
    # what set() / make_trainable() through `.edge("all")` / `.cell(i)` touch is what the selection funnels select (shared with C11/C20)
    col.rule("R-C10-filter", "selection funnels through _at_nodes/_at_edges with scope-dependent columns", 12)
    _c11l._filter(repo, col, "R-C10-filter")
    col.rule("R-C10-rows", "row selection = in-view rows of the owning table where the key is set", 6)
    col.rule("R-C10-scatter", "index space of the scatter == position space of the array", 3)
    col.rule("R-C10-sentinel", "padded index reaches a scatter only through mode='drop' + remap", 2)
    from . import c05 as _c05
    _c05.pad_sentinel(repo, col, "R-C10-sentinel")     # ... and the pad IS the sentinel -1
    col.rule("R-C10-write-back", "write_trainables stores the simulated values", 4)
    col.rule("R-C10-pair", "trainable_params / indices_set_by_trainables change together", 3)
    from . import c11 as _c11, c19 as _c19
    col.rule("R-C10-select", "a synapse-type name selects the view's synapses of that type (by name, on the base's registry)", 3)
    _c11._named(repo, col, "R-C10-select")
    col.rule("R-C10-edges", "a view selected by nodes shows an edge iff both of its ends are in view (set through the view touches no other synapse)", 3)
    _c11._edges(repo, col, "R-C10-edges")
    col.rule("R-C10-tables", "the parameters start from the table columns of the same name", 2)
    table_values(repo, col, "R-C10-tables")
    col.rule("R-C10-classify", "a trainable is intersected with the view's rows of its own table (nodes vs edges)", 3)
    _c19._classify(repo, col, "R-C10-classify")
    col.rule("R-C10-viewtrain", "a view shows / deletes its own half of the trainables", 5)
    col.rule("R-C10-tojax", "every simulation starts from the current tables", 4)
    cl = idx.compute_slots(repo, col, "R-C10-scatter", emit=("jaxedges", "pstate"))
    _rows(repo, col)
    scatter_sites(repo, col, cl, "R-C10-scatter", "R-C10-sentinel")
    _write_back(repo, col)
    _pair(repo, col)
    view_trainables(repo, col, "R-C10-viewtrain")
    filter_rows(repo, col, "R-C10-viewtrain")
    trainable_count(repo, col, "R-C10-viewtrain")
    view_count(repo, col, "R-C10-viewtrain")
    _tojax(repo, col)
    # a group that shares a trainable must still name its own compartments after set_ncomp renumbered the rows (shared with C13/C19)
    from . import c13 as _c13
    col.rule("R-C10-relabel", "row-label registries (groups, trainables, ...) are guarded or rewritten when rows are renumbered", 4)
    _c13.relabel(repo, col, "R-C10-relabel")
    col.rule("R-C10-pstate", "data_set() and trainable entries reach parameters and initial states alike", 3)
    _pstate_args(repo, col)
    col.rule("R-C10-groups", "a group that shares a trainable is extended on the base's registry, never on a view's filtered copy", 3)
    from . import c11
    c11._basestate(repo, col, "R-C10-groups")
    col.rule("R-C10-init", "the default initial value of a trainable ignores the padded dummy entries", 1)
    _init_value(repo, col)
    col.rule("R-C10-derived", "derived parameters are computed from the overridden values", 1)
    derived_after_overrides(repo, col, "R-C10-derived")
    col.rule("R-C10-sharing", "selections keep one sharing group per selected row unless they select by name", 5)
    sharing_keys(repo, col, "R-C10-sharing")
    col.rule("R-C10-order", "overrides given later are applied later", 1)
    override_order(repo, col, "R-C10-order")
    col.rule("R-C10-paramsource", "the step reads every physical quantity from the `params` / states it is given, never from the module's tables", 6)
    param_source(repo, col, "R-C10-paramsource")


def sharing_keys(repo, col, R):
    """`controlled_by_param` decides which rows share one trainable.  `_set_controlled_by_param(kind)` numbers the rows for the kinds
    it knows (comp / branch / cell / edge / filter) and puts EVERYTHING IN VIEW INTO ONE GROUP for any other key (that is how a group
    name, a channel name or a synapse-type name shares one parameter).  A call with a literal key that is not one of the known
    kinds therefore silently merges the selection into one sharing group -- a `.loc([...])` view would train one parameter for all
    selected compartments."""
    fi = repo.method("Module", "_set_controlled_by_param")
    # the kinds it numbers row by row: the constants the key is compared with for which the catch-all store (`controlled_by_param` of
    # the nodes := 0, everything in one group) does NOT run -- evaluated on the conditions of the stores, whatever the arrangement of
    # the if / elif / else is
    exk = idx.expander(repo, fi)
    kp = fi.params[1] if len(fi.params) > 1 else "key"
    cands = idx.constants_compared_with(fi.node, kp)
    zero_nodes = [s_ for s_ in exk.stores if s_.kind == "sub" and s_.key.op == "const" and s_.key.name == "controlled_by_param" and
                  s_.value is not None and s_.value.op == "const" and s_.value.name == 0 and
                  T.find(s_.base, lambda x: x.op == "attr" and x.name == "nodes") is not None]
    any_store = [s_ for s_ in exk.stores if s_.kind == "sub" and s_.key.op == "const" and s_.key.name == "controlled_by_param"]
    known = set()
    for c_ in cands:
        active = lambda s_: all(idx.guard_truth(g, kp, c_) is not False for g in s_.guards)
        if any(active(s_) for s_ in any_store) and not any(active(s_) for s_ in zero_nodes):
            known.add(c_)
    if not {"comp", "branch", "cell"} <= known:
        raise AnalysisError(f"_set_controlled_by_param: the kinds it numbers were not recognised ({sorted(known)})")
    # the kinds whose rows can stand in ANY order and with repetitions (`select(nodes=[5, 2])`, `edge([3, 1])`) give one parameter per row
    # and number the rows by POSITION: make_trainable groups by this number and `groupby` sorts its keys, so positions keep the row order
    # (`init_val=[a, b]` meets rows 5, 2 in this order, like `set()` does); row labels would hand the values out in sorted label order
    for kind_ in ("filter", "edge"):
        if kind_ not in known:
            continue
        for s_ in any_store:
            if not all(idx.guard_truth(g, kp, kind_) is not False for g in s_.guards):
                continue
            if not any(idx.guard_truth(g, kp, kind_) is True for g in s_.guards):
                continue
            v = idx.shape_norm(s_.value)
            if v.op == "const":
                continue   # the table this kind does not number (one group)
            tbl = T.find(s_.base, lambda x: x.op == "attr" and x.name in ("nodes", "edges"))
            want = "_nodes_in_view" if (tbl is not None and tbl.name == "nodes") else "_edges_in_view"
            positional = v.op == "mcall" and v.name == "arange" and len([a_ for a_ in v.args if a_.op != "free"]) == 1 and \
                T.find(v, lambda x: x.op == "call" and x.name == "len" and T.find(x, lambda y: y.op == "attr" and y.name == want) is not None) is not None
            col.check(positional, R, fi, f"'{kind_}' selections number their {tbl.name if tbl is not None else 'rows'} by position (one trainable per row, in row order)",
                      "np.arange(len(table))",
                      f"the rows are numbered with `{v.short(60)}`: make_trainable groups by this number in SORTED order, so for a selection in another "
                      f"order (`select(nodes=[5, 2])`) the k-th created parameter is no longer the k-th selected row: `init_val=[a, b]` and "
                      f"`set(key, [a, b])` put the values on different rows", node=s_.node)
    n_calls = 0
    for f in repo.all_functions():
        if not f.file.startswith("jaxley/modules/"):
            continue
        for c in walk_no_nested(f.node):
            if isinstance(c, ast.Call) and isinstance(c.func, ast.Attribute) and c.func.attr == "_set_controlled_by_param" and c.args:
                n_calls += 1
                a = c.args[0]
                lit = a.value if isinstance(a, ast.Constant) else None
                col.check(lit is None or lit in known, R, f, f"{f.qual}: `{unparse(c)[:60]}` names a kind of selection that is numbered row by row",
                          f"one of {sorted(known)} (or a group / channel / synapse name held in a variable)",
                          f"`{unparse(c)[:60]}`: '{lit}' is not one of the kinds {sorted(known)} that _set_controlled_by_param numbers; it falls "
                          f"through to the branch that puts everything in view into ONE sharing group, so make_trainable on this selection "
                          f"creates a single parameter for all selected rows", node=c)
    if n_calls < 1:
        raise AnalysisError(f"only {n_calls} calls of _set_controlled_by_param found")


def override_order(repo, col, R):
    """data_set(): the entries of `param_state` are applied in list order by get_all_parameters / get_all_states (each `.at[rows].set`
    overwrites what an earlier entry wrote).  A later data_set call must therefore come LATER in the list -- the new entry is appended
    (`old + [new]`, `old += [new]`, `.append`); prepended, the earlier of two overlapping calls wins and the value given last is
    ignored (its gradient is zero)."""
    fi = repo.method("Module", "data_set")
    ex = idx.expander(repo, fi)
    ps = fi.params[3] if len(fi.params) > 3 else "param_state"
    r = ex.merged_return() if len(ex.returns) != 1 else ex.returns[0]
    if r is None:
        raise AnalysisError("Module.data_set returns nothing")
    def is_old(a_):
        """the list as it was handed in: `param_state`, `param_state or []`, `[] if param_state is None else param_state`"""
        empty = lambda z: z.op in ("list", "tuple") and not z.args
        if a_.op == "param" and a_.name == ps:
            return True
        if a_.op == "bool" and a_.name == "Or" and len(a_.args) == 2:
            return is_old(a_.args[0]) and empty(a_.args[1])
        if a_.op == "ifexp" and len(a_.args) == 3:
            br = a_.args[1:]
            return any(is_old(b_) for b_ in br) and all(is_old(b_) or empty(b_) for b_ in br)
        return False
    cats = [x for x in r.walk() if x.op == "binop" and x.name == "+" and any(is_old(a_) for a_ in x.args)]
    ext = [s_ for s_ in ex.stores if s_.kind == "mcall" and s_.key.name in ("append", "extend", "insert") and s_.base.op == "param" and s_.base.name == ps]
    if not cats and not ext:
        col.unk(R, fi, "a later data_set entry is applied after the earlier ones", f"how the new entry joins `{ps}` was not recognised in {r.short(80)}", node=fi.node)
        return
    for x in cats:
        first_is_old = is_old(x.args[0])
        col.check(first_is_old, R, fi, "a later data_set entry is applied after the earlier ones", f"{ps} + [new entry]",
                  f"the new entry is put IN FRONT of the existing ones (`{x.short(70)}`): entries are applied in list order, so for two "
                  f"overlapping data_set calls the earlier value overwrites the later one", node=x.node or fi.node)
    for s_ in ext:
        ok = s_.key.name in ("append", "extend")
        col.check(ok, R, fi, "a later data_set entry is applied after the earlier ones", f"{ps}.{s_.key.name}(new entry)",
                  f"`{unparse(s_.node)[:60]}` does not put the new entry at the end", node=s_.node)


def param_source(repo, col, R):
    """Everything Module.step reaches takes the parameters from its `params` argument -- the dictionary get_all_parameters built from
    the tables AND the overrides (data_set / trainables).  A read of `self.jaxnodes[...]`, `self.jaxedges[...]` or of a parameter
    column of `self.nodes` / `self.edges` on that path sees only what set() stored: the override reaches one part of the equations
    (membrane, axial coupling) and not the other (e.g. the stimulus conversion), set() and data_set() then simulate differently."""
    from . import common
    cg = common._callgraph(repo)
    fi0 = repo.method("Module", "step")
    by_key = {(f.file, f.qual): f for f in repo.all_functions()}
    seen, todo = set(), [(fi0.file, fi0.qual)]
    while todo:
        k = todo.pop()
        if k in seen:
            continue
        seen.add(k)
        todo.extend(cg.get(k, ()))
    PHYS = {"radius", "length", "axial_resistivity", "capacitance", "v"}
    n = 0
    for k in sorted(seen):
        f = by_key.get(k)
        if f is None or not (f.file.startswith("jaxley/modules/") or f.file == "jaxley/integrate.py"):
            continue
        if not ({"params", "all_params"} & set(f.params)):
            continue   # only functions that ARE given the parameters can bypass them (the call graph over-approximates: view creation ...)
        bad = None
        for x in walk_no_nested(f.node):
            if isinstance(x, ast.Attribute) and x.attr in ("jaxnodes", "jaxedges") and isinstance(x.ctx, ast.Load):
                bad = x
            elif isinstance(x, ast.Subscript) and isinstance(x.value, ast.Attribute) and x.value.attr in ("nodes", "edges") and \
                    isinstance(x.slice, ast.Constant) and x.slice.value in PHYS and isinstance(x.ctx, ast.Load):
                bad = x
        n += 1
        col.check(bad is None, R, f, f"{f.qual} reads physical quantities only from its arguments", "params[...] / states[...]",
                  f"`{unparse(bad)[:60] if bad is not None else ''}` in {f.qual} (reached from Module.step) reads the module's table instead of the "
                  f"`params` it was given: values fed by data_set() or trainables do not reach this use, values stored by set() do", node=bad or f.node)
    # positive instance: the tables are read where the parameters are assembled
    gp = repo.method("Module", "get_all_parameters")
    reads = [x for x in ast.walk(gp.node) if isinstance(x, ast.Attribute) and x.attr in ("jaxnodes", "jaxedges")]
    if not reads:
        raise AnalysisError("get_all_parameters no longer reads jaxnodes / jaxedges: the parameter-source rule lost its reference")


def _init_value(repo, col):
    """make_trainable pads groups of unequal size with the index -1, whose (dummy) row holds NaN.  The default initial
    value of a shared parameter is the mean of the CURRENT values of its group: it must be reduced with a NaN-aware
    reduction (or an explicit mask), otherwise every group smaller than the largest one starts at NaN instead of at the
    value that set() put there."""
    R = "R-C10-init"
    fi = repo.method("Module", "make_trainable")
    ex = idx.expander(repo, fi)
    st = [s_ for s_ in ex.stores if s_.kind == "mcall" and s_.key.name == "append" and s_.base.op == "attr" and s_.base.name == "trainable_params"]
    if not st:
        raise AnalysisError("make_trainable no longer appends to trainable_params")
    v = idx.shape_norm(st[0].value)
    NAN_AWARE = {"nanmean", "nanmedian", "nanmax", "nanmin", "nansum"}
    PLAIN = {"mean", "median", "average", "sum", "max", "min", "amax", "amin", "prod"}
    def value_walk(t):
        """the value itself, not the index expressions it was gathered with"""
        yield t
        if t.op == "sub":
            yield from value_walk(t.args[0])
            return
        if t.op == "comp":
            yield from value_walk(t.args[0])
            return
        if t.op in ("call", "mcall") and t.name in ("len", "range", "pad", "arange"):
            return
        for a_ in list(t.args) + list(t.kw.values()):
            yield from value_walk(a_)
    reds = [x for x in value_walk(v) if x.op == "mcall" and x.name in NAN_AWARE | PLAIN]
    pads = any(x.op == "mcall" and x.name == "pad" for x in v.walk()) or "constant_values=-1" in unparse(fi.node) or "-1" in unparse(fi.node)
    if not reds:
        col.unk(R, fi, "default initial value of a new trainable", f"no reduction over the group's current values found in {v.short(100)}", node=st[0].node)
        return
    for r_ in reds:
        masked = T.find(r_, lambda y: y.op == "mcall" and y.name in ("isnan", "where", "nan_to_num")) is not None
        col.check(r_.name in NAN_AWARE or masked, R, fi, f"default initial value: `{r_.name}` over the padded group values is NaN-aware",
                  "jnp.nanmean(param_vals, axis=1)",
                  f"the default initial value is `{r_.short(70)}`: groups smaller than the largest are padded with the dummy row (NaN), so a plain "
                  f"`{r_.name}` makes their initial trainable value NaN instead of the value currently set", node=st[0].node)


def derived_after_overrides(repo, col, R):
    """get_all_parameters: the axial conductances are a function of radius / length / resistivity.  They must be computed
    from the parameter dictionary AFTER the values given at simulation time (make_trainable / data_set) were written into
    it; computed earlier, the coupling uses the old geometry while area and capacitance use the new one (charge is not
    conserved, gradients w.r.t. geometry miss the coupling)."""
    fi = repo.method("Module", "get_all_parameters")
    body = fi.node.body
    calls, stores = [], []
    for i, st in enumerate(body):
        for n in ast.walk(st):
            if isinstance(n, ast.Call) and isinstance(n.func, ast.Attribute) and n.func.attr == "_compute_axial_conductances":
                calls.append((i, n))
    # the parameter dictionary is the local that is handed to _compute_axial_conductances (whatever it is called)
    PD = next((a.id for _i, c_ in calls for a in list(c_.args) + [k.value for k in c_.keywords] if isinstance(a, ast.Name)), None)
    for i, st in enumerate(body):
        for n in ast.walk(st):
            if isinstance(n, ast.Assign):
                for t in n.targets:
                    if isinstance(t, ast.Subscript) and isinstance(t.value, ast.Name) and t.value.id == PD and \
                            not (isinstance(t.slice, ast.Constant) and t.slice.value == "axial_conductances"):
                        stores.append((i, n))
    if not calls or not stores:
        raise AnalysisError("get_all_parameters: computation of the axial conductances / parameter stores not found")
    ic, c = calls[-1]
    arg_ok = any(isinstance(a, ast.Name) and a.id == PD for a in list(c.args) + [k.value for k in c.keywords])
    late = [n for i, n in stores if i > ic]
    col.check(arg_ok and not late, R, fi, "axial conductances are computed from `params` after every other entry was written",
              "last statement before return",
              f"`{unparse(c)[:60]}` runs before `{unparse(late[0])[:60] if late else ''}`: geometry given through make_trainable / data_set "
              f"does not reach the coupling conductances", node=c)


# --------------------------------------------------------------------------------------


def _rows(repo, col, R="R-C10-rows"):
    # ---- set
    fi = repo.method("Module", "set")
    ex = idx.expander(repo, fi)
    st = [s for s in ex.stores if s.kind == "sub" and s.base.op == "attr" and s.base.name == "loc"]
    if len(st) < 1:
        raise AnalysisError("Module.set: stores through .loc not found")
    # decided per key class: which store runs for a node key / an edge key (its guards), and what its table / rows / mask become
    # when every key-class conditional inside them is resolved for that class (one store per table, or one store over a table
    # chosen by the key -- the same thing)
    for kc in idx.KCS:
        kind = "nodes" if kc == "node" else "edges"
        runs = [s for s in st if not any(kt is not None and ((kt[0] == kc) != kt[1]) for kt in (key_test(g) for g in s.guards))]
        runs = [s for s in runs if table_kind(_pick_all(s.base.args[0], kc)) == kind or len(st) == 1 or
                not any(kt is not None for kt in (key_test(g) for g in s.guards))]
        if not runs:
            col.bad(R, fi, f"set: a {kc} key is written to the base {kind} table", f"no store runs for a {kc} key", node=fi.node)
            continue
        for s in runs:
            tbl = _pick_all(s.base.args[0], kc)
            sel = idx.rows_in_view_alias(_pick_all(s.key, kc))
            ok_shape = sel.op == "tuple" and len(sel.args) == 2
            rows, colk = (sel.args if ok_shape else (None, None))
            want_rows = "_nodes_in_view" if kind == "nodes" else "_edges_in_view"
            base_ok = tbl.op == "attr" and tbl.name == kind and tbl.args[0].op == "attr" and tbl.args[0].name == "base"
            col.check(base_ok, R, fi, f"set: writes the base {kind} table", "self.base.<table>.loc[...]",
                      f"for a {kc} key set writes {tbl.short()}", node=s.node)
            ok = ok_shape and rows.op == "sub" and rows.args[0].op == "attr" and rows.args[0].name == want_rows \
                and rows.args[0].args[0].op == "param"
            col.check(ok, R, fi, f"set: rows of the {kind} table are the rows in view",
                      f"self.{want_rows}[not_nan]", f"rows selector is {rows.short() if rows is not None else '?'}", node=s.node)
            if ok:
                mask = rows.args[1]
                m_ok = _is_notna_of(mask, kind, colk)
                col.check(m_ok, R, fi, f"set: {kind} rows restricted to entries where the key is set",
                          "~self.<table>[key].isna()", f"mask is {mask.short()}", node=s.node)
                col.check(colk.op == "param" and colk.name == fi.params[1], R, fi, f"set: column written is the key ({kind})",
                          "key", f"column is {colk.short()}", node=s.node)
                col.check(s.value.op == "param" and s.value.name == fi.params[2], R, fi, f"set: value written is the given value ({kind})",
                          "val", f"value is {s.value.short()}", node=s.node)
            # the table is chosen by the membership of the key in that table's columns: a guard of the store, or a conditional inside
            g_ok = any(kt is not None and kt[1] and kt[0] == kc for kt in (key_test(g) for g in s.guards)) or \
                _pick_all(s.base.args[0], kc).key() != s.base.args[0].key()
            col.check(g_ok, R, fi, f"set: {kind} store guarded by `key in self.{kind}.columns`", "guard present",
                      "the store is not guarded by the membership of the key in that table", node=s.node)

    # ---- data_set
    fi = repo.method("Module", "data_set")
    ex = idx.expander(repo, fi)
    kv = None
    for r in ex.returns:
        kv = kv or T.find(r, lambda x: x.op == "kv" and x.args[0].op == "const" and x.args[0].name == "indices")
    if kv is None:
        raise AnalysisError("Module.data_set: 'indices' entry not found")
    v = kv.args[1]
    for kc in idx.KCS:
        kind = "nodes" if kc == "node" else "edges"
        want_rows = "_nodes_in_view" if kc == "node" else "_edges_in_view"
        vk = idx.rows_in_view_alias(_pick_all(v, kc))  # the term under "key is a node key" / "key is an edge key"
        sub = T.find(vk, lambda x: x.op == "sub" and x.args[0].op == "attr" and x.args[0].name in ("_nodes_in_view", "_edges_in_view"))
        ok = sub is not None and sub.args[0].name == want_rows and _is_notna_of(sub.args[1], kind, None, kc)
        col.check(ok, R, fi, f"data_set: rows for a {kc} key = in-view rows where the key is set",
                  "viewed_inds[not_nan] of the owning table", f"indices are {vk.short(160)}", node=kv.node or fi.node)

    # ---- make_trainable
    fi = repo.method("Module", "make_trainable")
    ex = idx.expander(repo, fi)
    stv = [s for s in ex.stores if s.kind == "mcall" and s.key.name == "append" and
           Classifier._is_named(s.base, "indices_set_by_trainables")]
    if not stv:
        col.bad("R-C10-pair", fi, "make_trainable appends the index array of the new trainable",
                "make_trainable no longer appends to indices_set_by_trainables: trainable_params and their indices get out of step",
                node=fi.node)
        return
    v = stv[0].value.args[1]
    gb = T.find(v, lambda x: x.op == "mcall" and x.name == "groupby")
    ok = False
    if gb is not None:
        data = gb.args[0]
        # data = <table of the view>.loc[not_nan]
        if data.op == "sub" and data.args[0].op == "attr" and data.args[0].name == "loc":
            tbl, mask = data.args[0].args[0], data.args[1]
            for kc in idx.KCS:
                kind = "nodes" if kc == "node" else "edges"
                tk = table_kind(tbl, kc)
                own = _pick(tbl, kc)
                ok = tk == kind and own is not None and own.op == "attr" and own.args[0].op == "param" and \
                    _is_notna_of(mask, kind, None, kc)
                col.check(ok, R, fi, f"make_trainable: rows for a {kc} key = in-view rows where the key is set",
                          "view table .loc[~isna(key)], grouped by controlled_by_param",
                          f"grouped data is {data.short()}", node=stv[0].node)
            gkey = gb.args[1] if len(gb.args) > 1 else None
            col.check(gkey is not None and gkey.op == "const" and gkey.name == "controlled_by_param", R, fi,
                      "make_trainable: sharing groups come from controlled_by_param", "groupby('controlled_by_param')",
                      f"grouped by {gkey.short() if gkey else None}", node=stv[0].node)
    if gb is None:
        col.unk(R, fi, "make_trainable rows", "groupby not found", node=fi.node)


def _pick(t: T, kc: str):
    """Resolve a key-class conditional to the alternative taken under kc."""
    for _ in range(6):
        if t.op == "ifexp":
            kt = key_test(t.args[0])
            if kt is None:
                return None
            t = t.args[1] if (kt[0] == kc) == kt[1] else t.args[2]
            continue
        return t
    return t


def _pick_all(t: T, kc: str) -> T:
    """Resolve every key-class conditional inside t to the alternative taken under kc."""
    if t.op == "ifexp":
        kt = key_test(t.args[0])
        if kt is not None:
            return _pick_all(t.args[1] if (kt[0] == kc) == kt[1] else t.args[2], kc)
    if not t.args and not t.kw:
        return t
    return T(t.op, t.name, [_pick_all(a, kc) for a in t.args], {k: _pick_all(x, kc) for k, x in t.kw.items()}, t.node)


def _is_notna_of(mask: T, kind: str, colk, kc=None) -> bool:
    """mask == ~<own table>[key].isna()  or  <own table>[key].notna()  (optionally .to_numpy())."""
    m = _pick_all(mask, kc) if kc else mask
    while m.op == "mcall" and m.name in ("to_numpy", "values"):
        m = m.args[0]
    if m.op == "mcall" and m.name in ("notna", "notnull"):
        inner = m
    else:
        if not (m.op == "unary" and m.name == "Invert"):
            return False
        inner = m.args[0]
        while inner.op == "mcall" and inner.name in ("to_numpy",):
            inner = inner.args[0]
        if not (inner.op == "mcall" and inner.name in ("isna", "isnull")):
            return False
    colt = inner.args[0]
    if colt.op != "sub":
        return False
    tbl, k = colt.args
    tk = table_kind(tbl, kc)
    if tk != kind:
        return False
    own = _pick(tbl, kc) if kc else tbl
    if own is None or not (own.op == "attr" and own.args[0].op == "param"):
        return False  # must be the view's own table (self.nodes / self.edges), not the base table
    if k.op != "param":
        return False
    return True


# --------------------------------------------------------------------------------------


def _named_dict(node):
    if isinstance(node, ast.Subscript) and isinstance(node.value, ast.Name):
        return node.value.id
    return None


def scatter_sites(repo, col, cl, R, RS):
    """params[key].at[inds].set(val) in get_all_parameters / get_all_states."""
    n_sites = 0
    for name in ("get_all_parameters", "get_all_states"):
        fi = repo.method("Module", name)
        ex = idx.expander(repo, fi)
        found = 0
        # the dictionary that is assembled is the one the function returns (whatever the local is called)
        returned = {x.id for r_ in walk_no_nested(fi.node) if isinstance(r_, ast.Return) and r_.value is not None
                    for x in ast.walk(r_.value) if isinstance(x, ast.Name)}
        for n in ast.walk(fi.node):
            if isinstance(n, ast.Call) and isinstance(n.func, ast.Attribute) and n.func.attr in ("set", "add") and \
                    isinstance(n.func.value, ast.Subscript) and isinstance(n.func.value.value, ast.Attribute) and \
                    n.func.value.value.attr == "at" and _named_dict(n.func.value.value.value) in returned:
                found += 1
                # an override REPLACES the tabulated value: `.add` would add the trainable / data_set value to the one from .nodes
                col.check(n.func.attr == "set", R, fi, f"{fi.name}: overrides replace the tabulated values `{unparse(n)[:50]}`",
                          ".at[inds].set(...)", f"`{unparse(n)[:70]}` accumulates the override onto the value read from the tables instead "
                          f"of replacing it", node=n)
                arr_node = n.func.value.value.value
                keyt = ex.term(arr_node.slice)
                arr = T("sub", None, [T("param", "states"), keyt])
                from sa.terms import fuse_comprehensions as _fuse_ix
                # helpers that produce the index are looked through; unpacking of a comprehension over literal keys is resolved
                ix = _fuse_ix(idx.inline(repo, fi, ex.term(n.func.value.slice)))
                keyt = _fuse_ix(keyt)
                arr = T("sub", None, [T("param", "states"), keyt])
                from sa.spaces import key_kind
                for kc in idx.KCS:
                    d = cl.domain(arr, kc)
                    raw, remapped = _strip_drop_remap(ix, n, _fuse_ix(ex.term(arr_node)))
                    # the keys of get_all_states are STATE names, those of get_all_parameters PARAMETER names: a conversion that is
                    # guarded by membership in the other name set never runs
                    with key_kind("state" if name == "get_all_states" else "param"):
                        sp = cl.space(raw, kc)
                    if d is None or sp is None:
                        col.unk(R, fi, f"{unparse(n)[:80]} [{kc} key]", f"index space not derivable (domain {d}, index {sp})", node=n)
                        continue
                    n_sites += 1
                    col.check(d == sp.s, R, fi, f"{unparse(n)[:80]} [{kc} key]",
                              f"array over {d} written with {sp}",
                              f"`{name}` writes an array whose positions are {idx._name(d)} with {idx._name(sp.s)} "
                              f"({sp.why}): trainable synapse {'states' if name.endswith('states') else 'parameters'} "
                              f"land on the wrong synapse when types are interleaved", node=n)
                    if sp.sentinel:
                        col.check(remapped, RS, fi, f"{unparse(n)[:80]}: -1 padded index [{kc} key]",
                                  "pad entries are moved out of range and dropped (mode='drop')",
                                  "groups of unequal size are padded with -1 by make_trainable; `.at[-1].set` "
                                  "overwrites the last row of the array", node=n)
                # value: val[:, None] of the same entry
                v = ex.term(n.args[0])
                # ... given one column per group member: val[:, None] / expand_dims(val, 1) / val.reshape(-1, 1)
                while v.op == "mcall" and v.name in ("expand_dims", "reshape", "atleast_2d", "asarray") and len(v.args) >= 2:
                    v = v.args[1] if v.args[0].op == "free" else v.args[0]
                col.check(v.op == "sub" and T.find(v, lambda x: x.op == "const" and x.name == "val") is not None, R, fi,
                          f"{name}: value scattered is the entry's own `val`", "parameter['val'][:, None]",
                          f"value is {v.short()}", node=n)
        if not found:
            raise AnalysisError(f"{name}: scatter of trainable values not found")
    return n_sites


def _strip_drop_remap(ix: T, call: ast.Call, arr_node):
    """Recognise  inds' = where(pad_mask, len(arr), inds)  + mode='drop'.  Returns (raw index term, ok)."""
    mode = next((k.value for k in call.keywords if k.arg == "mode"), None)
    has_drop = isinstance(mode, ast.Constant) and mode.value == "drop"
    t = ix
    if t.op == "mcall" and t.name == "where" and len(t.args) == 4:
        cond, repl, orig = t.args[1], t.args[2], t.args[3]
        # replacement must be out of range: len(<the array>) or <array>.shape[0]
        # replacement must be out of range *for the array being written*: len(<that array>) or <that array>.shape[0]
        target = None
        if repl.op == "call" and repl.name == "len" and repl.args:
            target = repl.args[0]
        elif repl.op == "sub" and repl.args[0].op == "attr" and repl.args[0].name == "shape" and \
                repl.args[1].op == "const" and repl.args[1].name == 0:
            target = repl.args[0].args[0]
        out_of_range = target is not None and (arr_node is None or target.key() == arr_node.key())
        # the pad entries are the -1s: `inds < 0`, `inds == -1`, `inds <= -1` (indices are >= 0 otherwise)
        m1 = lambda a_: (a_.op == "const" and a_.name == -1) or (a_.op == "unary" and a_.name == "USub" and a_.args[0].op == "const" and a_.args[0].name == 1)
        neg = T.find(cond, lambda x: x.op == "cmp" and len(x.args) == 2 and ((x.name == "<" and x.args[1].op == "const" and x.args[1].name == 0) or
                                                                          (x.name in ("==", "<=") and m1(x.args[1])) or
                                                                          (x.name == ">" and x.args[0].op == "const" and x.args[0].name == 0) or
                                                                          (x.name in ("==", ">=") and m1(x.args[0]))))
        return orig, bool(has_drop and out_of_range and neg is not None)
    return ix, False


# --------------------------------------------------------------------------------------


def _pstate_args(repo, col, R="R-C10-pstate"):   # shared with C09 (R-C09-pstate)
    """init_fn hands ONE list of overrides -- the trainables followed by the data_set() entries -- to get_all_parameters and to
    get_all_states: data_set() of an initial state must reach the states exactly as data_set() of a parameter reaches the
    parameters."""
    from sa.terms import canon
    init = repo.func("jaxley/integrate.py", "build_init_and_step_fn")
    exi = idx.expander(repo, init).nested.get("init_fn")
    if exi is None:
        raise AnalysisError("init_fn vanished")
    args = {}
    for c in exi.calls:
        if isinstance(c.func, ast.Attribute) and c.func.attr in ("get_all_parameters", "get_all_states"):
            t = exi.term(c)
            a = t.args[1] if len(t.args) > 1 else t.kw.get("pstate")
            if a is not None:
                args[c.func.attr] = (canon(a), c)
    if set(args) != {"get_all_parameters", "get_all_states"}:
        raise AnalysisError("init_fn no longer calls get_all_parameters / get_all_states with a pstate")
    def alts(t_):
        if t_.op == "ifexp":
            return alts(t_.args[1]) + alts(t_.args[2])
        return [t_]

    def parts(t_):
        """the concatenated pieces, left to right; list(x) / x.copy() / [*x] are x"""
        if t_.op == "binop" and t_.name == "+":
            return parts(t_.args[0]) + parts(t_.args[1])
        while (t_.op == "call" and t_.name in ("list", "tuple") and len(t_.args) == 1) or (t_.op == "mcall" and t_.name == "copy" and len(t_.args) == 1):
            t_ = t_.args[0]
        if t_.op == "list" and len(t_.args) == 1 and t_.args[0].op == "star":
            return parts(t_.args[0].args[0])
        return [t_]
    for nm, (a, c) in sorted(args.items()):
        seqs = [parts(x) for x in alts(a)]
        is_tr = lambda x: T.find(x, lambda y: y.op == "call" and y.name == "params_to_pstate") is not None
        is_ds = lambda x: x.op == "param" and x.name == "param_state"
        has_tr = all(any(is_tr(x) for x in sq) for sq in seqs)
        with_ds = [sq for sq in seqs if any(is_ds(x) for x in sq)]
        has_ds = bool(with_ds)
        col.check(has_tr and has_ds, R, exi.fi, f"init_fn: {nm} receives the trainables AND the data_set entries",
                  "params_to_pstate(params, ...) + param_state",
                  f"{nm} receives {a.short(100)}: " + ("values fed with data_set() (param_state) never reach it" if not has_ds else
                                                        "the trainable parameters never reach it"), node=c)
        # entries are applied in list order (each `.at[rows].set` overwrites): the data_set entries come AFTER the trainables, so a
        # value fed with data_set() through a view wins over a trainable that covers the same rows
        if has_tr and has_ds:
            ordered = all(min(i for i, x in enumerate(sq) if is_tr(x)) < min(i for i, x in enumerate(sq) if is_ds(x)) for sq in with_ds)
            col.check(ordered, R, exi.fi, f"init_fn: {nm} applies the data_set entries after the trainables", "trainables first, then param_state",
                      f"{nm} receives the data_set entries BEFORE the trainable entries: both are applied in list order, so a trainable that "
                      f"covers the same rows overwrites the value fed with data_set()", node=c)
    pa, sa_ = args["get_all_parameters"][0], args["get_all_states"][0]
    col.check(pa.key() == sa_.key(), R, exi.fi, "init_fn: parameters and initial states are assembled from the same list of overrides",
              "one pstate", "get_all_parameters and get_all_states receive different override lists", node=args["get_all_states"][1])


def _write_back(repo, col):
    R = "R-C10-write-back"
    fi = repo.method("Module", "write_trainables")
    ex = idx.expander(repo, fi)
    init = repo.func("jaxley/integrate.py", "build_init_and_step_fn")
    exi = idx.expander(repo, init).nested.get("init_fn")
    if exi is None:
        raise AnalysisError("init_fn vanished")

    def pstate_call(e):
        for c in e.calls:
            if isinstance(c.func, ast.Name) and c.func.id == "params_to_pstate":
                return e.term(c)
        return None

    a, b = pstate_call(ex), pstate_call(exi)
    if a is None or b is None:
        raise AnalysisError("params_to_pstate call vanished")
    second_a, second_b = a.args[1], b.args[1]
    ok = second_a.op == "attr" and second_a.name == "indices_set_by_trainables" and \
        second_b.op == "attr" and second_b.name == "indices_set_by_trainables" and a.args[0].op == "param" and b.args[0].op == "param"
    col.check(ok, R, fi, "write_trainables builds pstate as init_fn does",
              "params_to_pstate(params, <module>.indices_set_by_trainables) in both",
              f"write_trainables: {a.short()} vs init_fn: {b.short()}", node=fi.node)
    # values come from get_all_parameters / get_all_states
    calls = {c.func.attr for c in ex.calls if isinstance(c.func, ast.Attribute)}
    col.check({"get_all_parameters", "get_all_states"} <= calls, R, fi,
              "values are recomputed by get_all_parameters / get_all_states", "same code path as the simulation",
              "write_trainables no longer obtains the values from get_all_parameters/get_all_states", node=fi.node)
    # edge keys written under the type mask
    st = [s for s in ex.stores if s.kind == "sub" and s.base.op == "attr" and s.base.name == "loc"
          and table_kind(s.base.args[0]) == "edges"]
    if not st:
        raise AnalysisError("write_trainables: stores into edges not found")
    for s in st:
        sel = s.key
        mask = sel.args[0] if sel.op == "tuple" else sel
        ok = T.find(mask, lambda x: x.op == "cmp" and x.name == "==" and
                    any(c.op == "const" and c.name == "type_ind" for c in x.args[0].walk())) is not None
        col.check(ok, R, fi, f"{unparse(s.node)[:60]}: synapse values written under `type_ind == i`",
                  "per-type arrays (rank within type) go back to the rows of that type",
                  f"edge rows are selected with {mask.short()}", node=s.node)
        keyt = sel.args[1] if sel.op == "tuple" else None
        v = s.value
        same_key = v.op == "sub" and keyt is not None and v.args[1].key() == keyt.key()
        col.check(same_key, R, fi, f"{unparse(s.node)[:60]}: value of the same key", "all_params[key] / all_states[key]",
                  f"writes {v.short()} into column {keyt.short() if keyt else None}", node=s.node)
    # node keys: whole column from the recomputed arrays
    ns = [s for s in ex.stores if s.kind == "sub" and table_kind(s.base) == "nodes"]
    for s in ns:
        v = s.value
        ok = v.op == "sub" and v.args[1].key() == s.key.key()
        col.check(ok, R, fi, f"{unparse(s.node)[:60]}: node column written from the recomputed array of the same key",
                  "vals_to_set[key]", f"writes {v.short()}", node=s.node)


def _pair(repo, col):
    R = "R-C10-pair"
    A, B = "trainable_params", "indices_set_by_trainables"
    for cls, name in (("Module", "make_trainable"), ("Module", "delete_trainables"), ("View", "_set_trainables_in_view")):
        fi = repo.method(cls, name)
        ex = idx.expander(repo, fi)
        # group stores by their guard context
        ctx = {}
        for s in ex.stores:
            which = None
            if s.kind == "mcall" and s.key.name in ("append", "extend", "pop", "clear", "remove"):
                which = A if Classifier._is_named(s.base, A) else (B if Classifier._is_named(s.base, B) else None)
            elif s.kind == "attr" and s.key.name in (A, B):
                which = s.key.name
            if which:
                ctx.setdefault(tuple(g.key() for g in s.guards), []).append((which, s))
        if not ctx:
            raise AnalysisError(f"{cls}.{name}: no store into the trainable lists found")
        for g, lst in ctx.items():
            names = [w for w, _s in lst]
            ok = names.count(A) == names.count(B)
            col.check(ok, R, fi, f"{name}: both lists updated under the same condition",
                      f"{names.count(A)} update(s) each", f"updates {names} are not paired", node=lst[0][1].node)
    # _filter_trainables returns two lists of equal construction
    fi = repo.method("View", "_filter_trainables")
    ex = idx.expander(repo, fi)
    r = ex.returns[0] if ex.returns else None
    col.check(r is not None and r.op == "tuple" and len(r.args) == 2, R, fi, "_filter_trainables returns (indices, params)",
              "pair", f"returns {r.short() if r else None}", node=fi.node)
    # delete_trainables assigns them in the order returned
    fi = repo.method("Module", "delete_trainables")
    ex = idx.expander(repo, fi)
    for s in ex.stores:
        if s.kind == "attr" and s.key.name in (A, B) and s.value.op in ("sub", "item"):
            i = s.value.name if s.value.op == "item" else (s.value.args[1].name if s.value.args[1].op == "const" else None)
            want = 0 if s.key.name == B else 1
            col.check(i == want, R, fi, f"delete_trainables: {s.key.name} takes element {want} of the filter result",
                      "(indices, params) order", f"{s.key.name} = element {i}", node=s.node)


def view_trainables(repo, col, R):
    """What a view shows and what a view deletes are the two halves of ONE split of the base's trainables (`_filter_trainables`):
    `_set_trainables_in_view` takes the half in view, `view.delete_trainables()` leaves the base with the half NOT in view, and the
    base's count goes down by the number the view held."""
    ft = repo.method("View", "_filter_trainables")
    pn = [p_ for p_ in ft.params if p_ != "self"]
    dflt = None
    if pn and ft.node.args.defaults:
        d = ft.node.args.defaults[-1]
        dflt = d.value if isinstance(d, ast.Constant) else None
    if len(pn) != 1:
        raise AnalysisError("_filter_trainables: expected one selector parameter")

    def which(fi, only_guarded):
        ex = idx.expander(repo, fi)
        out = []
        for s_ in ex.stores:
            if s_.kind == "attr" and s_.key.name in ("trainable_params", "indices_set_by_trainables"):
                c = T.find(s_.value, lambda x: x.op == "mcall" and x.name == "_filter_trainables")
                if c is None:
                    continue
                a = c.kw.get(pn[0]) or (c.args[1] if len(c.args) > 1 else None)
                v = dflt if a is None else (a.name if a.op == "const" else "?")
                out.append((s_, v))
        return out
    fi = repo.method("View", "_set_trainables_in_view")
    got = which(fi, False)
    if not got:
        col.unk(R, fi, "a view shows the trainables in view", "no store fed by _filter_trainables", node=fi.node)
    for s_, v in got:
        col.add(R, fi, f"a view shows the trainables IN view ({s_.key.name})", "DISCHARGED" if v is True else ("VIOLATED" if v is False else "UNDECIDED"),
                f"_filter_trainables({pn[0]}={v})", node=s_.node)
    fi = repo.method("Module", "delete_trainables")
    got = which(fi, True)
    if not got:
        col.unk(R, fi, "view.delete_trainables() leaves the base with the trainables NOT in view", "no store fed by _filter_trainables", node=fi.node)
    for s_, v in got:
        col.add(R, fi, f"view.delete_trainables() leaves the base with the trainables NOT in view ({s_.key.name})",
                "DISCHARGED" if v is False else ("VIOLATED" if v is True else "UNDECIDED"),
                f"_filter_trainables({pn[0]}={v})" + ("" if v is False else ": the trainables of the view are KEPT and all others are deleted"), node=s_.node)
    ex = idx.expander(repo, fi)
    cnt = [s_ for s_ in ex.stores if s_.kind == "attr" and s_.key.name == "num_trainable_params" and s_.base.op == "attr" and s_.base.name == "base"
           and not (s_.value.op == "const")]
    for s_ in cnt:
        v = s_.value
        own = lambda t: t.op == "attr" and t.name == "num_trainable_params" and t.args[0].op == "param"
        base = lambda t: t.op == "attr" and t.name == "num_trainable_params" and t.args[0].op == "attr" and t.args[0].name == "base"
        ok = v.op == "binop" and v.name == "-" and base(v.args[0]) and own(v.args[1])
        col.check(ok, R, fi, "the base's number of trainable parameters goes down by the view's", "base.n - view.n",
                  f"the count becomes {v.short(80)}", node=s_.node)
    if not cnt:
        col.unk(R, fi, "the base's number of trainable parameters goes down by the view's", "no count update found", node=fi.node)


def table_values(repo, col, R):
    """What get_all_parameters starts from (before the overrides given through trainables / data_set are written) is the tables
    themselves: `params[name] = jaxnodes[name]` for every node parameter and channel parameter, `params[name] = jaxedges[name]` for every
    synapse parameter -- the SAME name, the column as it is (NaN where a compartment has no such channel: a parameter SHARED by two
    channels, e.g. `vt` of Na and K, would otherwise be overwritten by the defaults of the channel that is handled last)."""
    fi = repo.method("Module", "get_all_parameters")
    ex = idx.expander(repo, fi)
    base = [s_ for s_ in ex.stores if s_.kind == "sub" and isinstance(s_.node, ast.Subscript) and
            (s_.key.op == "elem" or (s_.key.op == "item" and s_.key.args and s_.key.args[0].op == "elem")) and
            T.find(s_.key, lambda x: x.op == "param" and x.name == fi.params[1]) is None]
    class _E:
        pass
    entries = []
    for s_ in base:
        e_ = _E()
        e_.key, e_.value, e_.node = s_.key, s_.value, s_.node
        entries.append(e_)
    # ... or built as dictionary comprehensions (assigned, or merged with .update)
    seen_dc = set()
    for s_ in ex.stores:
        for t_ in [s_.base, s_.value]:
            if t_ is None:
                continue
            for x in t_.walk():
                if x.op == "dictcomp" and len(x.args) >= 3 and x.key() not in seen_dc and \
                        T.find(x, lambda y: y.op == "attr" and y.name in ("jaxnodes", "jaxedges")) is not None:
                    seen_dc.add(x.key())
                    e_ = _E()
                    e_.key, e_.value, e_.node = x.args[0], x.args[1], x.node or s_.node
                    entries.append(e_)
    if len(entries) < 2:
        col.unk(R, fi, "get_all_parameters starts from the table values", f"only {len(entries)} base entries found", node=fi.node)
        return
    for s_ in entries:
        v = s_.value
        own = v.op == "sub" and v.args[0].op == "attr" and v.args[0].name in ("jaxnodes", "jaxedges") and v.args[1].key() == s_.key.key()
        edge_key = T.find(s_.key, lambda x: x.op == "attr" and x.name in ("synapse_param_names", "synapse_params")) is not None
        right_tbl = own and ((v.args[0].name == "jaxedges") == edge_key)
        col.check(own and right_tbl, R, fi, f"get_all_parameters: `{unparse(s_.node)[:50] if s_.node is not None else s_.key.short(40)}` is the table column of the same name", "jaxnodes[name] / jaxedges[name]",
                  f"the entry is `{v.short(90)}`: not the table value of that parameter (a default or a masked copy substituted here reaches every channel that "
                  f"shares the name; compartments that hold only the other channel lose their own value)", node=s_.node)


def view_count(repo, col, R):
    """A view's `num_trainable_params` counts the entries of ITS OWN index list (what `_set_trainables_in_view` left in view): it is what
    `view.delete_trainables()` subtracts from the module's count."""
    fi = repo.method("View", "__init__")
    ex = idx.expander(repo, fi)
    st = [s_ for s_ in ex.stores if s_.kind == "attr" and s_.key.name == "num_trainable_params" and s_.base.op == "param" and s_.base.name == "self"]
    if not st:
        col.unk(R, fi, "a view counts its own trainables", "count not found", node=fi.node)
        return
    v = st[-1].value
    src = T.find_all(v, lambda x: x.op == "attr" and x.name == "indices_set_by_trainables")
    own = bool(src) and all(x.args[0].op == "param" and x.args[0].name == "self" for x in src)
    col.check(own, R, fi, "a view counts its own trainables", "sum of len(inds) over self.indices_set_by_trainables",
              f"the view's count is computed from {sorted({x.args[0].short(30) for x in src})}: it is the module's total, and view.delete_trainables() subtracts it "
              f"from the module's count", node=st[-1].node)


def trainable_count(repo, col, R):
    """make_trainable adds what it created to the module's count (views and `delete_trainables` subtract from it), and the default
    initial value of each new parameter is the mean over ITS OWN rows (axis 1 of the (parameters x rows) table; NaN padding ignored)."""
    fi = repo.method("Module", "make_trainable")
    ex = idx.expander(repo, fi)
    cnt = [s_ for s_ in ex.stores if s_.kind == "attr" and s_.key.name == "num_trainable_params"]
    if not cnt:
        col.unk(R, fi, "make_trainable adds the number of created parameters to the module's count", "count update not found", node=fi.node)
    for s_ in cnt:
        v = idx.shape_norm(s_.value)
        prev = lambda t: t.op == "attr" and t.name == "num_trainable_params"
        ok = v.op == "binop" and v.name == "+" and len(v.args) == 2 and (prev(v.args[0]) != prev(v.args[1])) and \
            T.find(v, lambda x: x.op == "call" and x.name == "len") is not None
        col.check(ok, R, fi, "make_trainable adds the number of created parameters to the module's count", "count += len(indices_per_param)",
                  f"the count becomes {v.short(80)}: earlier trainables are forgotten (a view's count and delete_trainables() subtract from it)", node=s_.node)
    app = [s_ for s_ in ex.stores if s_.kind == "mcall" and s_.key.name == "append" and Classifier._is_named(s_.base, "trainable_params")]
    for s_ in app:
        nm = T.find(s_.value, lambda x: x.op == "mcall" and x.name in ("nanmean", "mean", "nanmedian", "median"))
        if nm is None:
            continue
        ax = nm.kw.get("axis") or next((a_ for a_ in nm.args[2:3]), None)
        ok = nm.name == "nanmean" and ax is not None and ax.op == "const" and ax.name in (1, -1)
        col.check(ok, R, fi, "the default initial value of a new parameter is the NaN-ignoring mean over its own rows", "jnp.nanmean(param_vals, axis=1)",
                  f"the initial values are `{nm.short(70)}`: " + ("the padding of groups of unequal size (NaN) makes the smaller groups start at NaN" if nm.name == "mean"
                                                                   else "not one value per created parameter"), node=s_.node)


def filter_rows(repo, col, R):
    """_filter_trainables splits every trainable (an index array with one row per parameter value, and the values) into rows that are
    completely / partly on the wanted side.  The two result lists are built by appending in lockstep; the k-th piece of the values and
    the k-th piece of the indices must be cut with the SAME row mask, and the masks must be disjoint (a row listed twice becomes two
    parameters)."""
    fi = repo.method("View", "_filter_trainables")
    ex = idx.expander(repo, fi)
    direct = lambda t: t.op == "item" and t.args and t.args[0].op == "elem"
    seqs = {}
    for s_ in ex.stores:
        in_zip_loop = any(g.op == "loop" and g.args and g.args[0].op == "call" and g.args[0].name == "zip" for g in s_.guards)
        if s_.kind == "mcall" and s_.key.name == "append" and isinstance(s_.node, ast.Call) and isinstance(s_.node.func, ast.Attribute) and in_zip_loop:
            arg = s_.value.args[-1]
            sel = next((x for x in arg.walk() if x.op == "sub" and direct(x.args[0])), None)
            if sel is None:
                continue
            # which of the two zipped lists the piece is cut from: position of the element in the loop's zip
            src = sel.args[0]
            while not (src.op == "item" and src.args[0].op == "elem" and src.args[0].args[0].op == "call" and src.args[0].args[0].name == "zip"):
                nxt = next((a for a in src.args if T.find(a, lambda y: y.op == "call" and y.name == "zip") is not None), None)
                if nxt is None:
                    break
                src = nxt
            pos = src.name if src.op == "item" else None
            seqs.setdefault((unparse(s_.node.func.value), pos), []).append((sel.args[1], s_))
    if len(seqs) != 2 or any(pos is None for _n, pos in seqs):
        col.unk(R, fi, "_filter_trainables: values and indices are cut with the same row masks", f"accumulators {sorted(str(k) for k in seqs)} not recognised", node=fi.node)
        return
    (ka, a), (kb, b) = sorted(seqs.items(), key=lambda kv: str(kv[0][1]))
    same = len(a) == len(b) and all(x[0].key() == y[0].key() for x, y in zip(a, b))
    bad = next((y[1] for x, y in zip(a, b) if x[0].key() != y[0].key()), a[0][1] if a else None)
    col.check(same, R, fi, "_filter_trainables: the k-th piece of the values and the k-th piece of the indices are cut with the same row mask",
              f"{len(a)} pieces each", "the pieces appended to the two result lists are cut with different row masks: values and indices of a trainable no "
              "longer correspond", node=bad.node if bad is not None else fi.node)
    masks = [m for m, _s in a]
    if len(masks) >= 2:
        inv = lambda t, m: T.find(t, lambda y: y.op == "unary" and y.name == "Invert" and y.args[0].key() == m.key()) is not None
        disjoint = all(inv(masks[j], masks[i]) or inv(masks[i], masks[j]) for i in range(len(masks)) for j in range(i + 1, len(masks)))
        col.check(disjoint, R, fi, "_filter_trainables: the row masks are disjoint", "second mask excludes the first",
                  "the masks overlap: a row that is completely in view is listed twice and becomes two trainable parameters", node=a[1][1].node)


def _tojax(repo, col):
    """`set()` edits the pandas tables; the simulation reads jaxnodes/jaxedges.  Every entry point must rebuild them
    unconditionally from the current tables, and the rebuild must cover every column."""
    R = "R-C10-tojax"
    fi = repo.func("jaxley/integrate.py", "integrate")
    top = [st for st in fi.node.body if isinstance(st, ast.Expr) and isinstance(st.value, ast.Call) and unparse(st.value.func) == "module.to_jax"]
    anywhere = [n for n in ast.walk(fi.node) if isinstance(n, ast.Call) and unparse(n.func) == "module.to_jax"]
    col.add(R, fi, "integrate rebuilds jaxnodes/jaxedges unconditionally", "DISCHARGED" if top else ("VIOLATED" if anywhere else "VIOLATED"),
            "module.to_jax() at the top level of integrate" if top else
            ("module.to_jax() is only called conditionally: values changed with set() after a first simulation are ignored" if anywhere else
             "integrate no longer calls module.to_jax(): parameters set with set() never reach the simulation"), node=(anywhere or [fi.node])[0])
    first_use = None
    for i, st in enumerate(fi.node.body):
        if any(isinstance(n, ast.Name) and n.id in ("init_fn",) for n in ast.walk(st)) and first_use is None:
            first_use = i
    if top and first_use is not None:
        col.check(fi.node.body.index(top[0]) < first_use, R, fi, "the rebuild precedes the assembly of parameters and states", "",
                  "jaxnodes are rebuilt after the parameters were assembled", node=top[0])
    tj = repo.method("Module", "to_jax")
    tex = idx.expander(repo, tj)
    from sa.terms import fuse_comprehensions

    def whole(t):
        """the collections that `t` enumerates completely: X, X.keys(), list(X), [*X, *Y], X + Y"""
        if t.op == "mcall" and t.name in ("keys", "copy") and len(t.args) == 1:
            return whole(t.args[0])
        if t.op == "call" and t.name in ("list", "tuple", "sorted", "set") and len(t.args) == 1:
            return whole(t.args[0])
        if t.op in ("list", "tuple"):
            out = []
            for a_ in t.args:
                if a_.op != "star":
                    return []
                out += whole(a_.args[0])
            return out
        if t.op == "binop" and t.name == "+":
            return whole(t.args[0]) + whole(t.args[1])
        if (t.op == "call" and t.name == "chain") or (t.op == "mcall" and t.name == "chain" and t.args and t.args[0].op == "free"):
            out = []
            for a_ in (t.args if t.op == "call" else t.args[1:]):
                out += whole(a_)
            return out
        return [t]

    def unguarded(s_):
        return all(g_.op == "loop" for g_ in s_.guards)
    nst = [s_ for s_ in tex.stores if s_.kind == "sub" and s_.base.op == "attr" and s_.base.name == "jaxnodes"]
    ok, seen_ = False, []
    for s_ in nst:
        k = fuse_comprehensions(s_.key)
        seen_.append(k.short(60))
        it = k.args[0] if (k.op == "item" and k.name == 0 and k.args[0].op == "elem") else (k if k.op == "elem" else None)
        if it is None or not unguarded(s_):
            continue
        src = it.args[0]
        if k.op == "item":
            full = src.op == "mcall" and src.name == "items" and T.find(src.args[0], lambda x: x.op == "attr" and x.name == "nodes") is not None
        else:
            full = any(T.find(w, lambda x: x.op == "attr" and x.name == "nodes") is not None and
                       (w.op == "mcall" and w.name == "to_dict" or w.op == "attr" and w.name in ("columns", "nodes")) for w in whole(src))
        ok = ok or full
    col.check(ok, R, tj, "to_jax copies every column of the node table", "one jaxnodes entry per column of base.nodes, unconditionally",
              f"to_jax no longer copies all node columns (entries written: {seen_})", node=tj.node)
    # ... row by row in table order: the copy of a column is the column itself (optionally gathered with the identity arange(len))
    for s_ in nst:
        v = s_.value
        while v.op in ("mcall", "call") and v.name in ("asarray", "array", "astype") and v.args:
            v = next((a_ for a_ in v.args if a_.op != "free"), v.args[0])
        if v.op == "sub":
            ix = v.args[1]
            ident = ix.op == "mcall" and ix.name == "arange" and len([a_ for a_ in ix.args if a_.op != "free"]) == 1 and \
                T.find(ix, lambda x: x.op == "call" and x.name == "len") is not None
            col.check(ident, R, tj, "to_jax keeps the rows of a node column in table order", "jnp.asarray(value)[arange(len(value))]",
                      f"the column is gathered with `{ix.short(60)}`: row k of jaxnodes is no longer compartment k of .nodes", node=s_.node)
    est = [s_ for s_ in tex.stores if s_.kind == "sub" and s_.base.op == "attr" and s_.base.name == "jaxedges"]
    covered = set()
    for s_ in est:
        k = fuse_comprehensions(s_.key)
        if k.op != "elem" or not unguarded(s_):
            continue
        for w in whole(k.args[0]):
            if w.op == "attr" and w.name in ("synapse_params", "synapse_states") and \
                    T.find(w.args[0], lambda x: x.op == "elem" and T.find(x, lambda y: y.op == "attr" and y.name == "synapses") is not None) is not None:
                covered.add(w.name)
    col.check(covered == {"synapse_params", "synapse_states"}, R, tj, "to_jax copies every parameter and state of every synapse type",
              "one jaxedges entry per synapse_params / synapse_states key of each synapse, unconditionally",
              f"to_jax no longer covers all synapse parameters and states (covered: {sorted(covered)})", node=tj.node)
    # the functions that read jaxnodes / jaxedges outside integrate rebuild them first (that the call is on every path is
    # the must-call obligation of rules/mustcall_table.py; here: it precedes the first read)
    for g in (repo.method("Module", "_get_states_from_nodes_and_edges"), repo.method("Module", "write_trainables")):
        calls = [n for n in ast.walk(g.node) if isinstance(n, ast.Call) and isinstance(n.func, ast.Attribute) and n.func.attr == "to_jax"]
        reads = [n for n in ast.walk(g.node) if isinstance(n, ast.Attribute) and n.attr in ("jaxnodes", "jaxedges")]
        reads += [n for n in ast.walk(g.node) if isinstance(n, ast.Call) and isinstance(n.func, ast.Attribute) and
                  n.func.attr in ("get_all_parameters", "get_all_states")]  # callees that read them
        pos = lambda n: (n.lineno, n.col_offset)
        ok = bool(calls) and (not reads or min(map(pos, calls)) < min(map(pos, reads)))
        col.check(ok, R, g, f"{g.name} rebuilds jaxnodes/jaxedges before reading them", "to_jax() precedes the first read",
                  "jaxnodes / jaxedges are read before (or without) being rebuilt from the current tables: values changed with set() are ignored",
                  node=(reads or [g.node])[0])
