"""C19 -- any editing history leaves a consistent module (per-operation invariants)."""
from __future__ import annotations

import ast

from sa.core import AnalysisError, unparse, walk_no_nested
from sa.spaces import key_test, table_kind
from sa.terms import Expander, T
from . import idx, c13, c04

LEVEL = "other"
EXPLANATION = (
    "The history quantifier is behavioural; decided are per-operation invariants whose preservation by "
    "every operation implies consistency for every history. R-C19-undo (acquire/release pairing): every "
    "resource insert() acquires (channel registry entry, current name, presence column, parameter and "
    "state columns in view) is released by delete_channel(), and a resource that can be *shared* "
    "(unprefixed parameter names declared by >= 2 channel classes, current names used by >= 2 classes -- "
    "computed from the class definitions) is released only under a guard that consults the remaining "
    "holders. R-C19-relabel: operations that renumber rows guard or rewrite every row-label registry "
    "(shared with C13). R-C19-classify: the classifier of trainable keys into node/edge rows in "
    "View._filter_trainables is total over the keys make_trainable accepts (any node or edge column). "
    "R-C19-pair: externals/external_inds are stored, filtered and popped together with one mask; "
    "recordings are de-duplicated on (rec_index, state). R-C19-keyclass (shared with C08/C11): whether a "
    "registry key is a synaptic (edge) or a compartment (node) quantity is decided with the BASE module's "
    "name lists, not with a view's filtered ones. R-C19-simulates (shared with C09): every synapse reads "
    "from and delivers to the compartments its row of .edges names, with the postsynaptic geometry. "
    "R-C19-scatter / R-C19-sentinel (shared with C10): at simulation time the trainable values are written to the rows their "
    "index table names and the -1 padding is dropped."
)
ASSUMPTIONS = ["user-defined channels follow the built-in naming convention", "'integrate simulates the displayed model' as a whole is not decided"]


def _refresh(repo, col, R="R-C19-rebuild"):
    """A view keeps its own cut of the base's registries (`view.recordings`, `view.externals`, ...).  A deletion made THROUGH a view edits
    the base and must then rebuild the view (`self._update_view()`), or the view goes on displaying -- and handing to a later
    `delete_*` -- rows that no longer exist.  Structural: every statement that edits a registry of `self.base` in the delete_*
    methods is followed, in its own block or an enclosing one, by an unconditional `self._update_view()`."""
    n = 0
    for meth, regs in (("delete_recordings", ("recordings",)), ("delete_clamps", ("externals", "external_inds")),
                       ("delete_trainables", ("trainable_params", "indices_set_by_trainables"))):
        fi = repo.method("Module", meth)
        alias = {}
        for a_ in ast.walk(fi.node):
            if isinstance(a_, ast.Assign) and isinstance(a_.targets[0], ast.Name) and unparse(a_.value) in tuple("self.base." + r_ for r_ in regs):
                alias[a_.targets[0].id] = unparse(a_.value)

        def edits(st):
            if isinstance(st, (ast.Assign, ast.AugAssign)):
                for t_ in (st.targets if isinstance(st, ast.Assign) else [st.target]):
                    root = t_
                    while isinstance(root, ast.Subscript):
                        root = root.value
                    txt = unparse(root)
                    if txt in tuple("self.base." + r_ for r_ in regs) or (isinstance(t_, ast.Subscript) and txt in alias):
                        return True
            if isinstance(st, ast.Expr) and isinstance(st.value, ast.Call) and isinstance(st.value.func, ast.Attribute) and \
                    st.value.func.attr in ("pop", "clear", "update", "drop", "remove") and \
                    (unparse(st.value.func.value) in alias or unparse(st.value.func.value) in tuple("self.base." + r_ for r_ in regs)):
                return True
            return False
        is_refresh = lambda st: isinstance(st, ast.Expr) and isinstance(st.value, ast.Call) and unparse(st.value.func) == "self._update_view"

        def walk(block, followed, not_a_view=False):
            """followed: an unconditional refresh comes later in an enclosing block; not_a_view: the branch where `self` is the module
            itself (`_update_view` does nothing there)"""
            nonlocal n
            for i, st in enumerate(block):
                later = followed or any(is_refresh(x) for x in block[i + 1:])
                if edits(st) and not not_a_view:
                    n += 1
                    col.check(later, R, fi, f"Module.{meth}: `{unparse(st)[:50]}` is followed by self._update_view()", "the calling view is rebuilt",
                              f"`{unparse(st)[:70]}` edits the base's registry and the view that made the call is not rebuilt afterwards: it goes on "
                              f"displaying the deleted rows, and a second delete through it matches rows that no longer exist", node=st)
                view_test = isinstance(st, ast.If) and unparse(st.test).replace(" ", "") in ("isinstance(self,View)", "notisinstance(self,View)")
                for fld in ("body", "orelse", "finalbody"):
                    sub = getattr(st, fld, None)
                    if isinstance(sub, list) and sub and isinstance(sub[0], ast.stmt):
                        other = view_test and ((fld == "orelse") != unparse(st.test).startswith("not"))
                        walk(sub, later, not_a_view or other)
        walk(fi.node.body, False)
    if n < 4:
        raise AnalysisError(f"only {n} registry edits found in the delete_* methods")


def check(repo, col, tier):
    col.rule("R-C19-rebuild", "a deletion made through a view rebuilds that view", 4)
    _refresh(repo, col)
    col.rule("R-C19-undo", "delete_channel releases what insert acquired; shared resources only when unused", 6)
    col.rule("R-C19-relabel", "row-label registries guarded or rewritten on renumbering", 4)
    col.rule("R-C19-classify", "trainable-key classifier is total", 2)
    col.rule("R-C19-pair", "paired registries change together", 4)
    _undo(repo, col)
    c13.relabel(repo, col, "R-C19-relabel")
    _classify(repo, col)
    _pair(repo, col)
    from . import c11
    c11.keyclass_on_base(repo, col, "R-C19-keyclass")
    # recordings / clamps / trainables of synapses store the global edge index; the per-type arrays are addressed by the RANK
    # of the edge within its type, for any connect history (interleaved types) -- shared with C08
    from . import c08
    col.rule("R-C19-rank", "global edge index -> position within the synapse type is the rank among the edges of that type", 1)
    c08.rank_converter(repo, col, "R-C19-rank")
    # "integrate simulates the model displayed by .edges": every synapse reads from and delivers to the compartments its row names
    from . import c09, idx as _idx
    # "integrate simulates the model that the tables show": the coupling conductances are computed row by row from the parameters of
    # the compartments of that row, and scaled by the capacitance of the compartment that RECEIVES the current (shared with C01/C12)
    from . import cable as _cable
    col.rule("R-C19-conductances", "coupling conductances use the roles of each edge row and the sink's capacitance", 6)
    _cable.check_axial(repo, col, {"roles": "R-C19-conductances", "cap": "R-C19-conductances"}, want=("roles", "cap"))
    col.rule("R-C19-simulates", "synaptic currents are computed from and delivered to the compartments named in the edge table", 8)
    cl = _idx.compute_slots(repo, col, "R-C19-simulates", emit=())
    for nm in ("_step_synapse_state", "_synapse_currents"):
        c09._roles(repo, col, cl, nm, "R-C19-simulates", "R-C19-simulates")
    # ... and the currents of ALL rows that end on one compartment arrive there (they add up)
    c09._additive(repo, col, "R-C19-simulates")
    # tables -> arrays at simulation time (get_all_parameters / get_all_states): trainable values land on the rows their index table
    # names, and the -1 padding of groups of unequal size is dropped, not written to the last row (shared with C10 / C05)
    from . import c10
    col.rule("R-C19-scatter", "trainable values are scattered into the array space their indices were made for", 4)
    col.rule("R-C19-sentinel", "padded (-1) trainable indices reach a scatter only through mode='drop' + remap", 2)
    c10.scatter_sites(repo, col, cl, "R-C19-scatter", "R-C19-sentinel")
    from . import c05 as _c05
    _c05.pad_sentinel(repo, col, "R-C19-sentinel")
    col.rule("R-C19-confine", "every edit through a view is confined to the rows in view (a mechanism is present exactly where it was inserted)", 25)
    c11._confine(repo, col, "R-C19-confine")
    col.rule("R-C19-refresh", "a view refreshed after one of its own deletions keeps its rows, edges, scope and kind", 3)
    c11.refreshed_view(repo, col, "R-C19-refresh")
    col.rule("R-C19-groups", "groups hold sorted, unique row labels (a row added twice is one member)", 1)
    c11.group_normal_form(repo, col, "R-C19-groups")
    col.rule("R-C19-viewtrain", "view.delete_trainables() removes the view's trainables and nothing else", 5)
    c10.view_trainables(repo, col, "R-C19-viewtrain")
    c10.filter_rows(repo, col, "R-C19-viewtrain")
    c10.trainable_count(repo, col, "R-C19-viewtrain")
    c10.view_count(repo, col, "R-C19-viewtrain")
    # registries of the base module (channels, groups, ...) are extended on the base's own current registry: an edit made through a
    # second view must see what the first view added (shared with C10/C11/C14)
    col.rule("R-C19-recs", "recordings are (rec_index, state) pairs with unique row labels", 2)
    recordings_matching(repo, col, "R-C19-recs")
    from . import c11
    col.rule("R-C19-basestate", "updates of the base module's registries are decided on the base's current registry, not a view's snapshot", 3)
    c11._basestate(repo, col, "R-C19-basestate")


def recordings_matching(repo, col, R):
    """A recording is the PAIR (rec_index, state): rec_index alone is a compartment row for membrane quantities and an edge row for
    synaptic ones, so the two number spaces overlap.  (a) delete_recordings through a view removes the base's rows that equal a row of
    the view in BOTH columns; (b) because that comparison (DataFrame.isin(DataFrame)) aligns the two tables on their row labels,
    record() must give every appended row a fresh label (F24: pd.concat without ignore_index repeated the labels 0, 1, ... per
    call and the comparison raised for any view holding recordings of two record() calls)."""
    fi = repo.method("Module", "delete_recordings")
    ex = idx.expander(repo, fi)
    sts = [s_ for s_ in ex.stores if s_.kind == "attr" and s_.key.name == "recordings" and s_.base.op == "attr" and s_.base.name == "base" and
           any(T.find(g, lambda x: x.op == "call" and x.name == "isinstance") is not None for g in s_.guards)]
    view_st = [s_ for s_ in sts if T.find(s_.value, lambda x: x.op == "attr" and x.name == "recordings" and x.args[0].op == "param") is not None]
    label_aligned = False
    if not view_st:
        col.unk(R, fi, "delete_recordings through a view removes exactly the view's recordings", "the store of the remaining rows was not found", node=fi.node)
    for s_ in view_st:
        v = s_.value
        isin = T.find(v, lambda x: x.op == "mcall" and x.name == "isin")
        merge = T.find(v, lambda x: x.op == "mcall" and x.name == "merge")
        if isin is None and merge is None:
            col.unk(R, fi, "delete_recordings through a view removes exactly the view's recordings", f"matching not recognised in {v.short(80)}", node=s_.node)
            continue
        if isin is not None:
            a_, b_ = (isin.args[1], isin.args[2]) if (isin.args[0].op == "free" and len(isin.args) > 2) else (isin.args[0], isin.args[1])
            one_col = [x for x in (a_, b_) if x.op == "sub" and x.args[1].op == "const" and isinstance(x.args[1].name, str)]
            whole_rows = not one_col and T.find(v, lambda x: x.op == "mcall" and x.name == "all") is not None
            label_aligned = label_aligned or whole_rows
            col.check(whole_rows, R, fi, "delete_recordings matches (rec_index, state) pairs", "base_recs.isin(view_recs).all(axis=1)",
                      f"rows are matched on `{one_col[0].args[1].name if one_col else '?'}` only (`{isin.short(80)}`): a compartment recording and a synaptic "
                      f"recording with the same number are the same `rec_index`; deleting the recordings of a view then also deletes the other "
                      f"kind of recording outside the view", node=s_.node)
        else:
            col.ok(R, fi, "delete_recordings matches (rec_index, state) pairs", "merge on the columns", node=s_.node)
    rec = repo.method("Module", "record")
    exr = idx.expander(repo, rec)
    app = [s_ for s_ in exr.stores if s_.kind == "attr" and s_.key.name == "recordings" and
           T.find(s_.value, lambda x: x.op == "mcall" and x.name == "concat") is not None]
    if not app:
        raise AnalysisError("Module.record no longer appends to base.recordings with pd.concat")
    for s_ in app:
        cc = T.find(s_.value, lambda x: x.op == "mcall" and x.name == "concat")
        ii = cc.kw.get("ignore_index")
        fresh = (ii is not None and ii.op == "const" and ii.name is True) or \
            T.find(s_.value, lambda x: x.op == "mcall" and x.name == "reset_index" and x.kw.get("drop") is not None and x.kw["drop"].name is True) is not None
        col.check(fresh or not label_aligned, R, rec, "record() gives the appended rows fresh row labels", "pd.concat(..., ignore_index=True)",
                  "record() appends with `pd.concat([...])` and keeps the labels 0, 1, ... of every appended frame: the recordings table carries "
                  "duplicate labels, and delete_recordings -- which aligns the view's rows with the base's rows BY LABEL (DataFrame.isin) -- "
                  "raises `cannot compute isin with a duplicate axis` for a view that holds recordings of two record() calls", node=s_.node)


def shared_resources(repo):
    from . import kin
    params, currents = {}, {}
    for c in kin.mech_classes(repo, "Channel"):
        dp = c04._declared(repo, c, "channel_params") or {}
        for pat, (kind, _v, _k) in dp.items():
            if kind == "literal" and pat:
                params.setdefault(pat, []).append(c.name)
        init = c.methods.get("__init__")
        if init:
            for n in walk_no_nested(init.node):
                if isinstance(n, ast.Assign) and unparse(n.targets[0]) == "self.current_name":
                    v = n.value
                    txt = None
                    if isinstance(v, ast.Constant):
                        txt = v.value
                    elif isinstance(v, ast.JoinedStr) and all(isinstance(x, ast.Constant) for x in v.values):
                        txt = "".join(x.value for x in v.values)
                    if txt:
                        currents.setdefault(txt, []).append(c.name)
    return ({k: v for k, v in params.items() if len(v) > 1}, {k: v for k, v in currents.items() if len(v) > 1})


def tainted_names(fn: ast.FunctionDef, is_source) -> set:
    """Local names whose value depends (flow-insensitively, to a fixpoint) on an expression satisfying `is_source`:
    assignments, augmented assignments, stores into / appends to a local container, loop variables of loops over a
    dependent iterable, and comprehension variables.  Control dependence on a guard is included for containers that are
    filled under that guard."""
    tainted = set()

    COMPS = (ast.ListComp, ast.SetComp, ast.GeneratorExp, ast.DictComp)

    def dep(e, local=frozenset(), shadow=frozenset()):
        """does the value of e depend on a source?  Comprehension variables are scoped to their comprehension."""
        if is_source(e):
            return True
        if isinstance(e, ast.Name):
            if e.id in local:
                return True
            if e.id in shadow:
                return False
            return e.id in tainted
        if isinstance(e, COMPS):
            loc, sh = set(local), set(shadow)
            res = False
            for g in e.generators:
                names = set(targets(g.target))
                if dep(g.iter, frozenset(loc), frozenset(sh)):
                    loc |= names
                    sh -= names
                    res = True
                else:
                    sh |= names
                    loc -= names
                res = res or any(dep(c, frozenset(loc), frozenset(sh)) for c in g.ifs)
            parts = [e.key, e.value] if isinstance(e, ast.DictComp) else [e.elt]
            return res or any(dep(p_, frozenset(loc), frozenset(sh)) for p_ in parts)
        return any(dep(c, local, shadow) for c in ast.iter_child_nodes(e) if isinstance(c, ast.AST) and not isinstance(c, (ast.expr_context,)))

    def root_name(t):
        while isinstance(t, (ast.Subscript, ast.Attribute)):
            t = t.value
        return t.id if isinstance(t, ast.Name) else None

    def targets(t):
        if isinstance(t, ast.Name):
            return [t.id]
        if isinstance(t, (ast.Tuple, ast.List)):
            return [x for y in t.elts for x in targets(y)]
        r = root_name(t)
        return [r] if r and r not in ("self", "cls") else []

    changed = True
    while changed:
        changed = False
        before = len(tainted)

        def visit(stmts, guard_dep):
            for st in stmts:
                if isinstance(st, ast.Assign):
                    if dep(st.value) or guard_dep:
                        for t in st.targets:
                            for nm in targets(t):
                                if dep(st.value) or not isinstance(t, ast.Name):
                                    tainted.add(nm)
                elif isinstance(st, ast.AugAssign):
                    if dep(st.value) or guard_dep:
                        tainted.update(targets(st.target))
                elif isinstance(st, ast.Expr) and isinstance(st.value, ast.Call) and isinstance(st.value.func, ast.Attribute) and \
                        st.value.func.attr in ("append", "extend", "add", "update", "insert", "setdefault"):
                    if guard_dep or any(dep(a) for a in st.value.args):
                        r = root_name(st.value.func.value)
                        if r and r not in ("self", "cls"):
                            tainted.add(r)
                elif isinstance(st, (ast.For, ast.AsyncFor)):
                    if dep(st.iter):
                        tainted.update(targets(st.target))
                    visit(st.body, guard_dep)
                    visit(st.orelse, guard_dep)
                elif isinstance(st, ast.While):
                    visit(st.body, guard_dep or dep(st.test))
                elif isinstance(st, ast.If):
                    g = guard_dep or dep(st.test)
                    visit(st.body, g)
                    visit(st.orelse, g)
                elif isinstance(st, (ast.With, ast.Try)):
                    for blk in ("body", "orelse", "finalbody"):
                        visit(getattr(st, blk, []) or [], guard_dep)
                    for h in getattr(st, "handlers", []):
                        visit(h.body, guard_dep)
            # comprehension variables
        visit(fn.body, False)
        changed = len(tainted) != before
    return tainted


def _undo(repo, col):
    R = "R-C19-undo"
    shared_p, shared_c = shared_resources(repo)
    col.info["shared_parameters"] = shared_p
    col.info["shared_currents"] = shared_c
    if not shared_p or not shared_c:
        raise AnalysisError("no shared parameter / current names found among the built-in channels (seed computation broke)")
    ins = repo.method("Module", "insert")
    dele = repo.method("Module", "delete_channel")
    ei, ed = idx.expander(repo, ins), idx.expander(repo, dele)
    acquired = set()
    for s in ei.stores:
        if s.kind == "mcall" and s.key.name == "append" and s.base.op == "attr":
            acquired.add(s.base.name)
        if s.kind == "sub" and s.base.op == "attr" and s.base.name == "loc":
            k = s.key.args[1] if s.key.op == "tuple" else None
            if k is not None:
                if k.op == "attr" and k.name == "_name":
                    acquired.add("presence")
                elif T.find(k, lambda x: x.op == "attr" and x.name == "channel_params") is not None:
                    acquired.add("params")
                elif T.find(k, lambda x: x.op == "attr" and x.name == "channel_states") is not None:
                    acquired.add("states")
    released = {}
    for s in ed.stores:
        if s.kind == "mcall" and s.key.name in ("pop", "remove") and s.base.op == "attr":
            released[s.base.name] = s
        if s.kind == "del" and s.base is not None and s.base.op == "attr":   # `del registry[i]` is `registry.pop(i)`
            released[s.base.name] = s
        if s.kind == "mcall" and s.key.name == "drop":
            released["columns"] = s
        if s.kind == "sub" and s.base.op == "attr" and s.base.name == "loc":
            k = s.key.args[1] if s.key.op == "tuple" else None
            if k is not None and k.op == "attr" and k.name == "_name":
                released["presence"] = s
            elif k is not None and T.find(k, lambda x: x.op == "attr" and x.name in ("channel_params", "channel_states")) is not None:
                released["params+states"] = s
    for a in sorted(acquired):
        rel = {"channels": "channels", "membrane_current_names": "membrane_current_names", "presence": "presence",
               "params": "params+states", "states": "params+states"}[a]
        col.check(rel in released, R, dele, f"delete_channel releases `{a}` acquired by insert", "paired",
                  f"insert acquires `{a}` but delete_channel never releases it", node=dele.node)
    # ---- a shared resource is acquired ONCE: delete_channel removes a shared current name exactly once (when the last holder
    # goes), so insert may register it only if it is not registered yet
    for s_ in ei.stores:
        if s_.kind == "mcall" and s_.key.name == "append" and s_.base.op == "attr" and s_.base.name == "membrane_current_names":
            guarded = any((g.op == "cmp" and g.name == "not in" and T.find(g.args[1], lambda x: x.op == "attr" and x.name == "membrane_current_names") is not None and
                           T.find(g.args[0], lambda x: x.op == "attr" and x.name == "current_name") is not None) or
                          (g.op in ("not", "unary") and T.find(g, lambda x: x.op == "cmp" and x.name == "in" and
                                                               T.find(x.args[1], lambda y: y.op == "attr" and y.name == "membrane_current_names") is not None) is not None)
                          for g in s_.guards)
            col.check(guarded, R, ins, "insert registers a (possibly shared) current name only if it is not registered yet",
                      "if channel.current_name not in base.membrane_current_names",
                      f"`{unparse(s_.node)[:70]}` runs under {[g.short(50) for g in s_.guards] or 'no condition'}: current names "
                      f"{sorted(shared_c)} are shared by several channels ({shared_c}); inserting K and Km registers `i_K` twice, and "
                      f"deleting both leaves one `i_K` behind (record('i_K') is then accepted on a module without such a current)",
                      node=s_.node)
    # ---- shared resources: release only if no other holder
    # (1) the current name
    s = released.get("membrane_current_names")
    if s is not None:
        consult = any(T.find(g, lambda x: x.op == "attr" and x.name == "current_name") is not None for g in s.guards)
        col.check(consult, R, dele, "delete_channel: current name removed only if no remaining channel uses it",
                  "guard consults the current names of the remaining channels",
                  f"`{unparse(s.node)}` removes the current name unconditionally; current names {sorted(shared_c)} are shared "
                  f"by {shared_c}: deleting K while Km remains empties `membrane_current_names` and Km's current is no longer "
                  f"summed", node=s.node)
    # (2) NaN-ing / dropping shared parameter columns
    for key in ("params+states", "columns"):
        s = released.get(key)
        if s is None:
            continue
        # the remaining channels may be consulted by the column list (drop only unshared columns) or by the row
        # selection (NaN only the rows where no remaining channel that declares the column is present); "consulted" =
        # the selector depends, through any chain of local assignments / containers / loops, on self.base.channels
        is_src = lambda n: isinstance(n, ast.Attribute) and n.attr == "channels" and isinstance(n.value, ast.Attribute) and n.value.attr == "base"
        deps = tainted_names(dele.node, is_src)
        if key == "params+states":
            sel_nodes = [s.node.targets[0].slice] if isinstance(s.node, ast.Assign) and isinstance(s.node.targets[0], ast.Subscript) else \
                ([s.node.slice] if isinstance(s.node, ast.Subscript) else [])
        else:
            sel_nodes = [k.value for k in s.node.keywords if k.arg == "columns"] if isinstance(s.node, ast.Call) else []
        cols = s.key if key == "params+states" and s.key.op == "tuple" else (s.value.kw.get("columns") if key == "columns" else None)
        consult = cols is not None and T.find(cols, lambda x: x.op == "attr" and x.name == "channels" and
                                              T.find(x, lambda y: y.op == "attr" and y.name == "base") is not None) is not None
        consult = consult or any(is_src(n) or (isinstance(n, ast.Name) and n.id in deps) for sn in sel_nodes for n in ast.walk(sn))
        col.info.setdefault("delete_channel_names_depending_on_base_channels", sorted(deps))
        what = "set to NaN in view" if key == "params+states" else "dropped"
        col.check(consult, R, dele, f"delete_channel: parameter columns {what} exclude those still used by other channels",
                  "column list consults the remaining channels",
                  f"`{unparse(s.node)[:70]}`: every column of the deleted channel is {what}; unprefixed parameters "
                  f"{sorted(shared_p)} are shared ({shared_p}): deleting K while Km remains removes `eK`", node=s.node)
    # registry release guarded by "no compartment keeps the channel"
    s = released.get("channels")
    if s is not None:
        def nobody(g):
            x_ = idx.none_true(g)
            return x_ is not None and T.find(x_, lambda y: y.op == "attr" and y.name == "nodes" and y.args and y.args[0].op == "attr" and y.args[0].name == "base") is not None
        ok = any(nobody(g) for g in s.guards)
        col.check(ok, R, dele, "delete_channel: registry entry removed only when no compartment keeps the channel", "np.all(~base.nodes[name])",
                  "the channel is removed from the registry while compartments may still contain it", node=s.node)
        popi = s.value.args[1] if s.value is not None and s.value.op == "mcall" and len(s.value.args) > 1 else (s.key if s.kind == "del" else None)
        ok = popi is not None and popi.op == "mcall" and popi.name == "index" and \
            T.find(popi, lambda x: x.op == "attr" and x.name == "channels" and x.args[0].op == "attr" and x.args[0].name == "base") is not None
        col.check(ok, R, dele, "delete_channel: the popped registry position is looked up in the base's channel list",
                  "all_channel_names.index(name) with names of self.base.channels",
                  f"popped position is {popi.short(80) if popi else None}", node=s.node)
    # ---- polarity of the two selections (consulting the remaining channels is not enough: the SURVIVOR's rows / columns are kept)
    def reduction(t, neg=False):
        """(negated?, reduction term) of a row mask: ~M, np.logical_not(M), M.to_numpy() are looked through"""
        while True:
            if (t.op == "unary" and t.name == "Invert") or (t.op in ("call", "mcall") and t.name == "logical_not"):
                neg, t = not neg, [a for a in t.args if a.op != "free"][0]
            elif t.op == "mcall" and t.name in ("to_numpy", "astype", "flatten", "ravel") and t.args:
                t = t.args[0]
            elif t.op == "attr" and t.name == "values":
                t = t.args[0]
            else:
                break
        return (neg, t) if t.op == "mcall" and t.name in ("any", "all") else (neg, None)
    s = released.get("params+states")
    if s is not None and s.key.op == "tuple" and s.key.args[0].op == "sub":
        neg, red = reduction(s.key.args[0].args[1])
        if red is None:
            col.unk(R, dele, "delete_channel: a parameter is cleared in the rows of the view where NO remaining channel that declares it is present",
                    f"row selection {s.key.args[0].short(100)} not recognised", node=s.node)
        else:
            ok = neg and red.name == "any"
            col.check(ok, R, dele, "delete_channel: a parameter is cleared in the rows of the view where NO remaining channel that declares it is present",
                      "rows[~present(users).any(axis=1)]",
                      f"rows are selected with {'~' if neg else ''}(...).{red.name}(): " +
                      ("the rows where another channel still uses the parameter are the ones cleared (the survivor loses it, the deleted channel's rows keep it)"
                       if not neg else "a row keeps the parameter only if ALL other declaring channels are present there"), node=s.node)
    s = released.get("columns")
    cols_t = s.value.kw.get("columns") if s is not None else None
    if cols_t is not None:
        mentions_others = lambda t: T.find(t, lambda y: y.op == "attr" and y.name == "channels" and y.args[0].op == "attr" and y.args[0].name == "base") is not None
        from_cols = lambda t: T.find(t, lambda y: y.op == "attr" and y.name in ("channel_params", "channel_states")) is not None

        def selects_unused(c):
            """does the condition hold for the columns WITHOUT remaining users?  True / False / None"""
            neg = False
            while c.op == "not" or (c.op == "unary" and c.name == "Not"):
                neg, c = not neg, c.args[0]
            if c.op == "cmp" and len(c.args) == 2 and c.args[0].op == "call" and c.args[0].name == "len" and c.args[1].op == "const" and c.args[1].name == 0:
                return {"==": True, "<=": True, "!=": False, ">": False}.get(c.name, None) if not neg else {"==": False, "<=": False, "!=": True, ">": True}.get(c.name, None)
            if c.op in ("sub", "comp", "listacc", "phi", "carried") or (c.op in ("call", "mcall") and c.name not in ("len",)):
                return neg                          # `not users[col]`
            return None
        conds = []
        # (a) a comprehension over the deleted channel's columns, filtered by the users
        for cm in T.find_all(cols_t, lambda x: x.op == "comp" and len(x.args) >= 3 and from_cols(x.args[1]) and not mentions_others(x.args[1])):
            conds.append(cm.args[2])
        # (b) a list filled in the loop over the columns: the guard of the append
        if not conds:
            for a_ in ed.stores:
                if a_.kind == "mcall" and a_.key.name == "append" and isinstance(a_.node, ast.Call) and T.find(cols_t, lambda x: x.op in ("listacc", "list", "carried", "phi")) is not None \
                        and from_cols(a_.value.args[-1]) and not mentions_others(a_.value.args[-1]):
                    gs = [g for g in a_.guards if g.op != "loop" and mentions_others(g)]
                    if gs and T.find(cols_t, lambda x: x.key() == a_.base.key() or T.find(x, lambda y: y.key() == a_.value.args[-1].key()) is not None) is not None:
                        conds += gs
        verdicts = [selects_unused(c) for c in conds]
        if not conds or None in verdicts:
            col.unk(R, dele, "delete_channel: the dropped columns are those NO remaining channel declares",
                    f"filter {conds[0].short(80) if conds else 'not found'}", node=s.node)
        else:
            col.check(all(verdicts), R, dele, "delete_channel: the dropped columns are those NO remaining channel declares", "if not users[col]",
                      "the columns that ARE still declared by a remaining channel are dropped (and the deleted channel's own ones stay)", node=s.node)


def _classify(repo, col, R="R-C19-classify"):
    """_filter_trainables decides for every trainable whether its stored indices are rows of .nodes or of .edges, and intersects them
    with the view's rows of THAT table.  Decided on the value that is tested with `np.isin` (whatever the chain of if / elif /
    conditional expressions looks like): it is evaluated for the three kinds of trainable key -- a node column (radius, length, v,
    channel parameters and states), a synapse parameter, a synapse STATE -- by deciding each membership test of the key for that kind."""
    from sa.terms import canon as _canon
    fi = repo.method("View", "_filter_trainables")
    ex = idx.expander(repo, fi)
    terms = [s_.value for s_ in ex.stores] + list(ex.returns) + [g for s_ in ex.stores for g in s_.guards]
    isin = next((q for t in terms for q in [T.find(t, lambda x: x.op == "mcall" and x.name == "isin")] if q is not None), None)
    if isin is None:
        raise AnalysisError("_filter_trainables: classification of the trainable key vanished")
    fa = [a for a in isin.args if a.op != "free"]
    V = _canon(fa[1])
    if T.find(V, lambda x: x.op == "mcall" and x.name == "intersect1d") is None:
        raise AnalysisError("_filter_trainables: classification of the trainable key vanished")
    KINDS = ("node column", "synapse parameter", "synapse state")

    def member(coll, kind):
        """is a key of `kind` a member of the collection? True / False / None (unknown collection)"""
        if coll.op == "attr" and coll.name == "columns":
            k = table_kind(coll.args[0])
            if k:
                return (kind == "node column") == (k == "nodes")
        if coll.op == "attr" and coll.name in ("synapse_param_names", "synapse_params"):
            return kind == "synapse parameter"
        if coll.op == "attr" and coll.name in ("synapse_state_names", "synapse_states"):
            return kind == "synapse state"
        if coll.op == "binop" and coll.name == "+":
            parts = [member(a_, kind) for a_ in coll.args]
            return None if None in parts else any(parts)
        if coll.op in ("list", "tuple") and all(a_.op == "star" for a_ in coll.args):
            parts = [member(a_.args[0], kind) for a_ in coll.args]
            return None if None in parts else any(parts)
        if coll.op in ("call", "mcall") and coll.name in ("list", "set", "tuple", "keys") and coll.args:
            return member(coll.args[-1] if coll.op == "call" else coll.args[0], kind)
        return None

    def truth(c, kind):
        neg = False
        while c.op == "not" or (c.op == "unary" and c.name == "Not"):
            neg, c = not neg, c.args[0]
        v = None
        if c.op == "cmp" and c.name in ("in", "not in") and len(c.args) == 2:
            v = member(c.args[1], kind)
            if v is not None and c.name == "not in":
                v = not v
        elif c.op == "bool":
            vs = [truth(a_, kind) for a_ in c.args]
            if None not in vs:
                v = all(vs) if c.name == "And" else any(vs)
        return None if v is None else (v != neg)

    def value_for(t, kind):
        while t.op == "ifexp":
            tv = truth(t.args[0], kind)
            if tv is None:
                return None, t.args[0]
            t = t.args[1] if tv else t.args[2]
        return t, None
    for kind in KINDS:
        v, unknown = value_for(V, kind)
        want = "_nodes_in_view" if kind == "node column" else "_edges_in_view"
        if v is None:
            col.unk(R, fi, f"a trainable {kind} is intersected with the view's rows of its own table", f"test `{unknown.short(80)}` not decided", node=fi.node)
            continue
        rows = {x.name for x in T.find_all(v, lambda x: x.op == "attr" and x.name in ("_nodes_in_view", "_edges_in_view"))}
        is_int = v.op == "mcall" and v.name == "intersect1d"
        col.check(is_int and rows == {want}, R, fi, f"a trainable {kind} is intersected with the view's rows of its own table", f"np.intersect1d(inds, self.{want})",
                  (f"for a {kind} the stored indices are compared with {sorted(rows)}: edge numbers and compartment numbers are different number spaces, a view of "
                   f"compartments then shows / deletes the trainables of synapses that happen to have the same numbers" if is_int else
                   f"for a {kind} the result is `{v.short(60)}`: a view never shows these trainables and view.delete_trainables() keeps them"), node=fi.node)


def _pair(repo, col):
    R = "R-C19-pair"
    pair_delete(repo, col, R)
    _pair_rest(repo, col, R)
    from . import c08
    c08._pairing(repo, col, R)


def pair_delete(repo, col, R):
    """delete_clamps / delete_stimuli: what remains of the values and of the row indices is selected with ONE mask
    (positions), so row k of the values still belongs to index k."""
    fi = repo.method("Module", "delete_clamps")
    ex = idx.expander(repo, fi)
    pops = [s for s in ex.stores if (s.kind == "mcall" and s.key.name == "pop") or s.kind == "del"]   # `del d[k]` removes the key like d.pop(k)
    names = sorted(_reg_name(s.base) for s in pops)
    col.check(names == ["external_inds", "externals"], R, fi, "delete_clamps pops externals and external_inds together", str(names),
              f"popped registries: {names}", node=pops[0].node if pops else fi.node)
    subs = [s for s in ex.stores if s.kind == "sub" and _reg_name(s.base) in ("externals", "external_inds")]
    masks = {_reg_name(s.base): (s.value.args[1].key() if s.value.op == "sub" else None) for s in subs}
    ok = set(masks) == {"externals", "external_inds"} and len(set(masks.values())) == 1 and None not in masks.values()
    col.check(ok, R, fi, "delete_clamps filters values and indices with one mask", "same keep mask",
              f"values and row indices that remain after a partial deletion are selected differently ({masks}): e.g. a sorted set "
              f"difference for the indices but a positional mask for the values re-pairs every remaining input with another compartment",
              node=subs[0].node if subs else fi.node)


def delete_scope(repo, col, R):
    """view.delete_clamps(k) / view.delete_stimuli(): the inputs that REMAIN in the module are those whose row is NOT in view (by the kind
    of the key: edges for synaptic keys, compartments otherwise); a key disappears only when nothing of it remains; without an argument
    all clamps are deleted but never the stimuli (`i`), with an argument only that key."""
    fi = repo.method("Module", "delete_clamps")
    ex = idx.expander(repo, fi)
    subs = [s_ for s_ in ex.stores if s_.kind == "sub" and _reg_name(s_.base) in ("externals", "external_inds") and s_.value.op == "sub"]
    if not subs:
        col.unk(R, fi, "delete_clamps keeps the inputs that are NOT in view", "filtered store not found", node=fi.node)
        return
    m = subs[0].value.args[1]
    neg = False
    t = m
    while (t.op == "unary" and t.name in ("Invert", "Not")) or (t.op in ("call", "mcall") and t.name == "logical_not"):
        neg = not neg
        t = [a_ for a_ in t.args if a_.op != "free"][0]
    isin = t if (t.op == "mcall" and t.name == "isin") else None
    if isin is None:
        col.unk(R, fi, "delete_clamps keeps the inputs that are NOT in view", f"keep mask {m.short(80)}", node=subs[0].node)
    else:
        a = [x for x in isin.args if x.op != "free"]
        of_base = T.find(a[0], lambda x: x.op == "attr" and x.name == "external_inds" and x.args[0].op == "attr" and x.args[0].name == "base") is not None
        sel = a[1]
        by_kind = sel.op == "ifexp" and T.find(sel.args[0], lambda y: y.op == "mcall" and y.name == "_edge_state_names") is not None and \
            not (sel.args[0].op == "not" or (sel.args[0].op == "cmp" and sel.args[0].name == "not in")) and \
            {x.name for x in T.find_all(sel.args[1], lambda y: y.op == "attr" and y.name.endswith("_in_view"))} == {"_edges_in_view"} and \
            {x.name for x in T.find_all(sel.args[2], lambda y: y.op == "attr" and y.name.endswith("_in_view"))} == {"_nodes_in_view"}
        col.check(neg and of_base, R, fi, "delete_clamps keeps the inputs that are NOT in view", "~np.isin(base.external_inds[k], rows in view)",
                  f"the rows kept are `{m.short(90)}`: " + ("the inputs IN view are kept and all others are deleted" if not neg else "not the base's index list"), node=subs[0].node)
        col.check(by_kind, R, fi, "delete_clamps matches synaptic keys with the edges in view and all other keys with the compartments in view", "",
                  f"membership is tested against `{sel.short(90)}`", node=subs[0].node)
    pops = [s_ for s_ in ex.stores if (s_.kind == "mcall" and s_.key.name == "pop") or s_.kind == "del"]
    if not pops:
        col.unk(R, fi, "delete_clamps removes a key entirely only when none of its inputs remains", "no removal of a key found", node=fi.node)
    if pops:
        g = [x for x in pops[0].guards if x.op != "loop"]
        def nothing_left(c):
            # `keep.sum() == 0`, `np.count_nonzero(keep) == 0`: the counting spellings of "nothing is kept"
            if c.op == "cmp" and c.name == "==":
                x_ = idx.none_true(c)
                if x_ is not None:
                    inv_, in_ = False, x_
                    while (in_.op == "unary" and in_.name in ("Invert", "Not")) or (in_.op in ("call", "mcall") and in_.name == "logical_not"):
                        inv_, in_ = not inv_, [a_ for a_ in in_.args if a_.op != "free"][0]
                    if in_.key() == t.key():
                        return inv_ == neg   # none of the keep mask is true
            n_ = False
            while c.op == "not" or (c.op == "unary" and c.name == "Not"):
                n_, c = not n_, c.args[0]
            if c.op in ("mcall", "call") and c.name in ("all", "any"):
                inner = [a_ for a_ in c.args if a_.op != "free"][0]
                inv = False
                while (inner.op == "unary" and inner.name in ("Invert", "Not")) or (inner.op in ("call", "mcall") and inner.name == "logical_not"):
                    inv, inner = not inv, [a_ for a_ in inner.args if a_.op != "free"][0]
                if inner.key() != t.key():
                    return None
                is_keep = (inv == neg)          # the reduced expression is the keep mask itself (same parity of negations) or its complement
                # all(~keep) / not any(keep)  <=>  nothing is kept
                return (c.name == "all" and not is_keep and not n_) or (c.name == "any" and is_keep and n_)
            return None
        v = [nothing_left(c) for c in g]
        v = [x for x in v if x is not None]
        col.add(R, fi, "delete_clamps removes a key entirely only when none of its inputs remains", "DISCHARGED" if v and all(v) else ("VIOLATED" if v else "UNDECIDED"),
                "if np.all(~keep)" if v and all(v) else f"the key is popped under `{g[-1].short(70) if g else 'no condition'}`: inputs outside the view are deleted with it",
                node=pops[0].node)
    # which keys
    loop = next((n_ for n_ in ast.walk(fi.node) if isinstance(n_, ast.For)), None)
    it = ex.term(loop.iter) if loop is not None else None
    pname = fi.params[1] if len(fi.params) > 1 else None
    if it is None or pname is None:
        col.unk(R, fi, "delete_clamps() deletes all clamps but no stimulus; delete_clamps(k) only k", "loop over the keys not found", node=fi.node)
    else:
        from .idx import guard_truth, specialise
        one = it
        cond = T.find(it, lambda x: x.op == "ifexp" and x.args[0].op == "cmp" and x.args[0].name in ("is", "is not", "==", "!=") and
                      any(a_.op == "param" and a_.name == pname for a_ in x.args[0].args) and any(a_.op == "const" and a_.name is None for a_ in x.args[0].args))
        if cond is not None and cond is it:
            one = it.args[2] if it.args[0].name in ("is", "==") else it.args[1]      # the branch taken when a key IS given
        only_k = one.op == "list" and len(one.args) == 1 and one.args[0].op == "param" and one.args[0].name == pname
        # the None case: every key of the view's externals except "i"
        rm_i = any(isinstance(n_, ast.Call) and isinstance(n_.func, ast.Attribute) and n_.func.attr == "remove" and n_.args and isinstance(n_.args[0], ast.Constant)
                   and n_.args[0].value == "i" for n_ in ast.walk(fi.node)) or \
            T.find(it, lambda x: x.op == "cmp" and x.name == "!=" and any(a_.op == "const" and a_.name == "i" for a_ in x.args)) is not None
        is_none = T.find(it, lambda x: x.op == "ifexp" and T.find(x.args[0], lambda y: y.op == "cmp" and y.name in ("is", "is not", "==", "!=") and
                                                                  any(a_.op == "param" and a_.name == pname for a_ in y.args)) is not None) is not None
        col.check(is_none and only_k, R, fi, "delete_clamps(k) deletes only the inputs of key k", "[state_name]",
                  f"the keys worked on are `{it.short(90)}`: the argument does not restrict them (delete_stimuli() = delete_clamps('i') would delete the clamps and "
                  f"keep the stimuli)", node=loop)
        col.check(rm_i, R, fi, "delete_clamps() without a key deletes all clamps but no stimulus", "'i' is taken out of the keys",
                  "the stimuli (`i`) are deleted together with the clamps", node=loop)


def record_dedup(repo, col, R):
    """record() keeps one row per (rec_index, state): two different states recorded at one place are two rows."""
    fi = repo.method("Module", "record")
    exr = idx.expander(repo, fi)
    # the rows added carry the requested state and the rows in view of its kind
    stt = [s_ for s_ in exr.stores if s_.kind == "sub" and s_.key.op == "const" and s_.key.name == "state"]
    label, lnode = (stt[-1].value, stt[-1].node) if stt else (None, None)
    if label is None:
        # the column given when the frame is built: pd.DataFrame({"rec_index": rows, "state": state})
        for s_ in exr.stores:
            if s_.kind == "attr" and s_.key.name == "recordings" and s_.value is not None:
                kv_ = T.find(s_.value, lambda x: x.op == "kv" and x.args[0].op == "const" and x.args[0].name == "state")
                if kv_ is not None:
                    label, lnode = kv_.args[1], s_.node
    if label is not None:
        col.check(label.op == "param" and label.name == fi.params[1], R, fi, "record(state) records the requested state", "new_recs['state'] = state",
                  f"the new rows are labelled {label.short(40)}", node=lnode)
    else:
        col.unk(R, fi, "record(state) records the requested state", "the `state` column of the new rows was not found", node=fi.node)
    rs = [s_ for s_ in exr.stores if s_.kind == "attr" and s_.key.name == "recordings" and s_.value is not None]
    dedup, partial = False, None
    for s_ in rs:
        for x in s_.value.walk():
            if x.op == "mcall" and x.name in ("duplicated", "drop_duplicates") and \
                    T.find(x.args[0], lambda y: y.op == "attr" and y.name == "recordings") is not None:
                sub = x.kw.get("subset") or (x.args[1] if len(x.args) > 1 else None)
                if sub is not None and not (sub.op in ("list", "tuple") and {a_.name for a_ in sub.args if a_.op == "const"} >= {"rec_index", "state"}):
                    partial = sub
                    continue
                if x.name == "drop_duplicates":
                    dedup = True
                else:
                    # rows kept are the NOT duplicated ones
                    neg = T.find(s_.value, lambda y: y.op == "unary" and y.name in ("Invert", "Not") and T.find(y, lambda z: z is x) is not None)
                    dedup = dedup or neg is not None
    col.add(R, fi, "record de-duplicates on whole rows (rec_index, state)", "DISCHARGED" if dedup else ("VIOLATED" if (partial is not None or rs) else "UNDECIDED"),
            "rows that repeat (rec_index, state) are dropped" if dedup else
            (f"duplicates are detected on {partial.short(40)} only: two different states recorded at one compartment collapse into one"
             if partial is not None else "recording the same state twice at one place yields two rows: the recorded array has a duplicate row "
             "and delete/record histories are not idempotent"), node=fi.node)


def _pair_rest(repo, col, R):
    fi = repo.method("Module", "_external_input")
    ex = idx.expander(repo, fi)
    by_guard = {}
    for s in ex.stores:
        if s.kind == "sub" and _reg_name(s.base) in ("externals", "external_inds"):
            by_guard.setdefault(tuple(g.key() for g in s.guards), []).append(_reg_name(s.base))
    ok = all(sorted(v) == ["external_inds", "externals"] for v in by_guard.values()) and by_guard
    col.check(ok, R, fi, "_external_input stores values and indices together on every path", str(list(by_guard.values())),
              f"stores per path: {list(by_guard.values())}", node=fi.node)
    record_dedup(repo, col, R)
    fi = repo.method("Network", "_append_multiple_synapses")
    ex = idx.expander(repo, fi)
    # global_edge_index of the new rows = len(existing edges) .. len(existing edges) + number of new rows
    from sa.termalg import term_rat
    from sa.algebra import Rat, Und
    rng = None
    for t_ in [s_.value for s_ in ex.stores if s_.value is not None] + list(ex.returns):
        for x in t_.walk():
            if x.op == "kv" and x.args[0].op == "const" and x.args[0].name == "global_edge_index":
                rng = rng or T.find(x.args[1], lambda y: y.op == "call" and y.name == "range" and len(y.args) == 2)
    if rng is None:
        for t_ in [s_.value for s_ in ex.stores if s_.value is not None]:
            rng = rng or T.find(t_, lambda y: y.op == "call" and y.name == "range" and len(y.args) == 2 and
                                T.find(y, lambda z: z.op == "attr" and z.name == "edges") is not None)
    if rng is None:
        col.unk(R, fi, "new edges continue the contiguous global edge numbering", "range of new edge indices not found", node=fi.node)
    else:
        def leaf(x):
            if x.op == "call" and x.name == "len" and len(x.args) == 1:
                a_ = x.args[0]
                if a_.op == "attr" and a_.name == "edges" and T.find(a_, lambda z: z.op == "attr" and z.name == "base") is not None:
                    return Rat.atom("n_edges")
                if a_.op == "param":
                    return Rat.atom("n_new:" + a_.name)
            return None
        try:
            lo, hi = term_rat(rng.args[0], leaf), term_rat(rng.args[1], leaf)
            newcount = hi - lo
            ok = lo.eq(Rat.atom("n_edges")) and len(newcount.atoms()) == 1 and next(iter(newcount.atoms())).startswith("n_new:") and \
                newcount.eq(Rat.atom(next(iter(newcount.atoms()))))
            col.check(ok, R, fi, "new edges continue the contiguous global edge numbering", "range(len(edges), len(edges) + n)",
                      f"global_edge_index of new edges is range({lo}, {hi}): it must start at the current number of edges and have one entry "
                      f"per new row", node=rng.node or fi.node)
        except Und as e:
            col.unk(R, fi, "new edges continue the contiguous global edge numbering", str(e), node=fi.node)


def _reg_name(t: T):
    while t.op in ("sub",):
        t = t.args[0]
    return t.name if t.op == "attr" else None
