"""C20 -- connectivity builders create exactly the requested connections."""
from __future__ import annotations

import ast
from typing import List, Optional, Tuple

from sa.core import AnalysisError, unparse, walk_no_nested
from sa.terms import Expander, T
from . import idx

LEVEL = "other"
CF = "jaxley/connect.py"
EXPLANATION = (
    "R-C20-layout (mixed-radix / stride typing with symbolic population sizes): in fully_connect the "
    "row-wise pairing of pre_rows and post_rows must enumerate the product cells(pre) x cells(post): the "
    "two 1-D layouts are lists of named axes with symbolic extents, reshape/T/ravel must regroup them "
    "with *symbolically equal* extents (num_pre != num_post is in the quantifier), and on each axis "
    "exactly one side carries its cell axis. R-C20-length: pre_rows and post_rows have equal length in "
    "every case of the split {0,1,2,3} of the number of connections (the only thing the code compares), "
    "and hstack of a possibly empty list is guarded. R-C20-roles: presynaptic site = local branch 0, "
    "comp 0 of the pre view (or first compartment offset of the drawn pre cell), postsynaptic site "
    "sampled from the drawn post cell of the post view, (row, column) of the matrix index (pre, post) "
    "cell lists in that order, same permutation applied to both ends, shape/dtype assertions present, "
    "arguments of _append_multiple_synapses in (pre, post) order."
)
ASSUMPTIONS = ["every cell has a branch 0 / comp 0", "pandas groupby().sample(n) returns n rows per group, group-major",
               "the distribution of the random draws is not decided"]


# --------------------------------------------------------------------------------------
# symbolic extents and layouts


def extent_key(t: T) -> Optional[str]:
    """Canonical name of a symbolic extent: number of cells of a view, or other term key."""
    # len(X._cells_in_view)
    if t.op == "call" and t.name == "len" and t.args and t.args[0].op == "attr" and t.args[0].name == "_cells_in_view":
        return "ncells(" + t.args[0].args[0].key() + ")"
    if t.op == "const":
        return repr(t.name)
    return t.key()


class Unknown(Exception):
    pass


def layout_of(t: T) -> List[Tuple[str, str]]:
    """Flat layout (slow -> fast) of a 1-D index array term: list of (axis name, extent)."""
    if t.op == "mcall" and t.name in ("to_numpy", "copy", "astype", "flatten") and t.name != "flatten":
        return layout_of(t.args[0])
    if t.op == "attr" and t.name in ("index", "values"):
        return layout_of(t.args[0])
    if t.op == "mcall" and t.name == "sample":
        g = t.args[0]
        if g.op == "mcall" and g.name == "groupby" and len(g.args) >= 2 and g.args[1].op == "const":
            col = g.args[1].name
            tbl = g.args[0]
            owner = tbl.args[0] if tbl.op == "attr" else tbl
            n = t.args[1] if len(t.args) > 1 else t.kw.get("n")
            if col == "global_cell_index" and n is not None:
                return [("cell", "ncells(" + owner.key() + ")"), ("draw", extent_key(n))]
        raise Unknown("sample on an unrecognised grouping")
    if t.op == "mcall" and t.name == "ravel":
        nd = layout_nd(t.args[0])
        order = t.kw.get("order")
        if order is not None and order.op == "const" and order.name == "F":
            nd = nd[::-1]
        return [a for d in nd for a in d]
    if t.op == "mcall" and t.name in ("flatten",):
        nd = layout_nd(t.args[0])
        return [a for d in nd for a in d]
    if t.op == "mcall" and t.name == "repeat":
        base = layout_of(t.args[0])
        return base + [("rep", extent_key(t.args[1]))]
    if t.op == "mcall" and t.name == "tile":
        base = layout_of(t.args[1])
        return [("rep", extent_key(t.args[2]))] + base
    raise Unknown(f"layout of {t.short(60)}")


def layout_nd(t: T):
    if t.op == "attr" and t.name == "T":
        return layout_nd(t.args[0])[::-1]
    if t.op == "mcall" and t.name == "transpose" and len(t.args) == 1:
        return layout_nd(t.args[0])[::-1]
    if t.op == "mcall" and t.name == "reshape":
        flat = layout_of(t.args[0])
        shape = t.args[1]
        dims = list(shape.args) if shape.op in ("tuple", "list") else list(t.args[1:])
        order = t.kw.get("order")
        forder = order is not None and order.op == "const" and order.name == "F"
        return reshape(flat, dims, forder)
    raise Unknown(f"n-d layout of {t.short(60)}")


def reshape(flat, dims: List[T], forder: bool):
    """Regroup a flat layout into len(dims) axes; extents must match symbolically."""
    exts = [e for _n, e in flat]
    want = []
    for d in dims:
        if d.op == "unary" and d.name == "USub" and d.args[0].op == "const" and d.args[0].name == 1:
            want.append(None)
        elif d.op == "const" and d.name == -1:
            want.append(None)
        else:
            want.append(extent_key(d))
    if want.count(None) > 1 or len(want) != len(flat):
        raise Unknown("reshape rank")
    # memory order of the new axes, slow -> fast
    mem = want[::-1] if forder else want
    if None in mem:
        known = [w for w in mem if w is not None]
        rest = list(exts)
        for k in known:
            if k in rest:
                rest.remove(k)
            else:
                raise Unknown(f"extent {k} is not a factor of {exts}")
        mem[mem.index(None)] = rest[0]
    out = []
    for (name, ext), w in zip(flat, mem):
        if ext != w:
            raise Mismatch(f"regrouping is a relabelling only if {ext} == {w}")
        out.append([(name, ext)])
    return out[::-1] if forder else out


class Mismatch(Exception):
    pass


# --------------------------------------------------------------------------------------


def check(repo, col, tier):
    col.rule("R-C20-layout", "pairing of pre and post rows enumerates cells(pre) x cells(post)", 1)
    col.rule("R-C20-length", "pre_rows and post_rows have equal length for every number of connections", 3)
    col.rule("R-C20-roles", "pre site / post site / argument roles", 14)
    _fully(repo, col)
    _sparse(repo, col)
    _matrix(repo, col)
    _common(repo, col)
    from . import c12
    c12.cell_offsets_definition(repo, col, "R-C20-roles")
    # the per-cell compartment offsets that sparse_connect looks the presynaptic site up with are taken from per-cell VIEWS
    # (their cumsum_ncomp[-1]): a view's cumulative counts must be those of its own branches (shared with C11)
    from . import c11
    col.rule("R-C20-structure", "per-cell views carry the compartment counts of their own branches", 2)
    c11.view_structure(repo, col, "R-C20-structure")
    # populations given as named groups: the matrix rows / columns are matched with the cells of the group in ASCENDING order,
    # one entry per cell -- a group extended by several add_to_group calls must stay sorted and free of duplicates
    col.rule("R-C20-groups", "groups hold sorted, unique row labels", 1)
    c11.group_normal_form(repo, col, "R-C20-groups")
    col.rule("R-C20-locs", "the recorded pre / post location is the centre of the recorded compartment within its own branch", 3)
    recorded_locs(repo, col, "R-C20-locs")
    col.rule("R-C20-rows", "one edge row per requested pair: parts aligned by position, pre / post compartment columns from their own side", 6)
    edge_rows(repo, col, "R-C20-rows")
    # the builders create sub-views of the population views they are given (cell by cell): a sub-view's edges are those of its parent
    col.rule("R-C20-views", "a sub-view keeps only edges of its parent view, with both ends in view", 3)
    c11._edges(repo, col, "R-C20-views")
    # the populations the builders connect are the view's lists of global cell / compartment indices
    c11.listed_in_view(repo, col, "R-C20-views")
    # the builders re-scope and sub-select the population views they are given: every selection returns a FRESH view through the one
    # funnel (_at_nodes / _at_edges), `scope()` never changes the caller's own view
    col.rule("R-C20-filter", "selection and re-scoping of the population views return fresh views", 12)
    c11._filter(repo, col, "R-C20-filter")
    c11.select_expansion(repo, col, "R-C20-filter")
    # a population given as a group (or channel) restricted by a view is the restriction: every link derives its view from the receiver
    col.rule("R-C20-chain", "every link of a selection chain derives its view from the view it is called on", 8)
    c11.derived_from_receiver(repo, col, "R-C20-chain")
    # ... and the populations are selected with `net.cell(<index>)`: every index form names the cells it says (a slice with its step)
    c11._index(repo, col, "R-C20-views")


def edge_rows(repo, col, R):
    """Network._append_multiple_synapses writes one row per requested (pre, post) pair.  The row is put together from three
    tables side by side (`pd.concat(axis=1)`), which ALIGNS ON ROW LABELS: the fresh edge numbers carry 0..n-1, so each of the two
    node tables must be re-labelled 0..n-1 as well (`reset_index(drop=True)`) or pairs are torn apart.  The column that ends up as
    `<side>_global_comp_index` is the `global_comp_index` of that side's nodes; the new edges are numbered from the base's edge
    count, one number per pair.  Local helpers are looked through (their column renamings included)."""
    from sa.terms import canon
    from .c11 import _str_parts
    fi = repo.method("Network", "_append_multiple_synapses")
    ex = idx.expander(repo, fi)
    st = [s_ for s_ in ex.stores if s_.kind == "attr" and s_.key.name == "edges" and s_.base.op == "attr" and s_.base.name == "base"]
    if not st:
        raise AnalysisError("_append_multiple_synapses no longer stores the base module's edge table")
    raw = st[-1].value
    SIDES = ("pre_nodes", "post_nodes")

    def strs(t):
        """a list of column names as python strings, or None"""
        if t.op != "list":
            return None
        out = []
        for c in t.args:
            parts = _str_parts(c)
            if len(parts) != 1 or not isinstance(parts[0], str):
                return None
            out.append(parts[0])
        return out

    # column renamings `X.columns = [...]`, in this function and in the local helpers it calls (arguments substituted)
    renames = {}
    for s_ in ex.stores:
        if s_.kind == "attr" and s_.key.name == "columns":
            renames[canon(idx.inline(repo, fi, s_.base, value_only=True)).key()] = s_.value
    for c in T.find_all(raw, lambda x: x.op == "call" and x.name in ex.nested):
        ne = ex.nested[c.name]
        m = idx._bind(ne.fi.node, list(c.args), c.kw)
        if m is None:
            continue
        for s_ in ne.stores:
            if s_.kind == "attr" and s_.key.name == "columns":
                renames[canon(idx.inline(repo, fi, idx.subst(s_.base, m), value_only=True)).key()] = idx.subst(s_.value, m)
    v = canon(idx.inline(repo, fi, raw, value_only=True))
    side_by_side = T.find(v, lambda x: x.op in ("mcall", "call") and x.name == "concat" and x.kw.get("axis") is not None and x.kw["axis"].op == "const"
                          and x.kw["axis"].name in (1, "columns"))
    if side_by_side is None:
        col.unk(R, fi, "new edge rows: construction", f"no side-by-side concatenation found in {v.short(120)}", node=st[-1].node)
        return
    parts = [a for a in side_by_side.args if a.op == "list"]
    parts = list(parts[0].args) if parts else []
    sides = {}
    for part in parts:
        sel = T.find(part, lambda x: x.op == "sub" and x.args[0].op == "param" and x.args[0].name in SIDES)
        src = sel.args[0] if sel is not None else (part if part.op == "param" and part.name in SIDES else None)
        fresh = part.op in ("mcall", "call") and part.name == "DataFrame"
        relabel = T.find(part, lambda x: x.op == "mcall" and x.name == "reset_index" and x.kw.get("drop") is not None and x.kw["drop"].name is True)
        what = f"{src.name} part" if src is not None else "edge-number part"
        col.check(fresh or relabel is not None, R, fi, f"new edge rows: the {what} is labelled 0..n-1 before the side-by-side concatenation",
                  "fresh DataFrame" if fresh else "reset_index(drop=True)",
                  f"`{part.short(90)}` keeps the row labels of the node table: pd.concat(axis=1) aligns on labels, so the pre compartment, the "
                  f"post compartment and the edge number of one pair land in different rows (NaN elsewhere)", node=st[-1].node)
        if src is None:
            continue
        side = src.name.split("_")[0]
        cols_from = None
        if sel is not None:
            k = sel.args[1]
            cols_from = strs(k) if k.op == "list" else ([k.name] if k.op == "const" else None)
        new_names = None
        for sub_ in part.walk():
            if sub_.key() in renames:
                new_names = strs(renames[sub_.key()])
                break
        if new_names is None:
            rn = T.find(part, lambda x: x.op == "mcall" and x.name == "rename" and x.kw.get("columns") is not None)
            if rn is not None and rn.kw["columns"].op == "dict":
                m = {}
                for kv in rn.kw["columns"].args:
                    a_, b_ = (_str_parts(kv.args[0]), _str_parts(kv.args[1])) if kv.op == "kv" else ([None], [None])
                    if len(a_) == 1 and len(b_) == 1 and isinstance(a_[0], str) and isinstance(b_[0], str):
                        m[a_[0]] = b_[0]
                new_names = [m.get(c, c) for c in (cols_from or [])]
        sides[side] = (cols_from, new_names)
        if cols_from is None or new_names is None or len(cols_from) != len(new_names):
            col.unk(R, fi, f"new edge rows: {side}_global_comp_index is the global compartment index of the {side} nodes",
                    f"columns {cols_from} -> {new_names} not recognised", node=st[-1].node)
        else:
            m = dict(zip(new_names, cols_from))
            col.check(m.get(f"{side}_global_comp_index") == "global_comp_index", R, fi,
                      f"new edge rows: {side}_global_comp_index is the global compartment index of the {side} nodes", "",
                      f"the {src.name} columns {cols_from} are stored as {new_names}", node=st[-1].node)
    col.check(set(sides) == {"pre", "post"}, R, fi, "new edge rows hold a pre and a post part", "", f"parts from {sorted(sides)}", node=st[-1].node)
    # numbering
    rng = T.find(side_by_side, lambda x: x.op == "call" and x.name == "range" and len(x.args) == 2)
    nbase = lambda t: t.op == "call" and t.name == "len" and t.args[0].op == "attr" and t.args[0].name == "edges" and t.args[0].args[0].op == "attr" \
        and t.args[0].args[0].name == "base"
    npairs = lambda t: t.op == "call" and t.name == "len" and t.args[0].op == "param" and t.args[0].name in SIDES
    if rng is None:
        col.unk(R, fi, "new edges are numbered len(base.edges) .. + number of pairs", "numbering not recognised", node=st[-1].node)
    else:
        a, b = rng.args
        ok = nbase(a) and b.op == "binop" and b.name == "+" and len(b.args) == 2 and ((nbase(b.args[0]) and npairs(b.args[1])) or (nbase(b.args[1]) and npairs(b.args[0])))
        col.check(ok, R, fi, "new edges are numbered len(base.edges) .. + number of pairs", "",
                  f"the new rows are numbered {rng.short(100)}: one number per pair, continuing the BASE module's edge table", node=st[-1].node)


def recorded_locs(repo, col, R):
    """`pre_locs` / `post_locs` of a new synapse row say where on its branch the recorded compartment lies:
    loc = (k + 1/2) / n with k = global_comp_index - (first compartment of the branch), n = ncomp of THAT branch.  `k = index % n`
    agrees only when all branches before it have a multiple of n compartments."""
    from sa.termalg import term_rat
    from sa.algebra import Rat, Und
    fi = repo.func("jaxley/utils/cell_utils.py", "loc_of_index")
    ex = idx.expander(repo, fi)
    r = ex.merged_return() if len(ex.returns) != 1 else ex.returns[0]
    if r is None or len(fi.params) != 3:
        raise AnalysisError("loc_of_index: return value / signature not recognised")
    g_, b_, n_ = fi.params
    r = idx.inline(repo, fi, r, value_only=True, keep=("cumsum_leading_zero",))
    mod = T.find(r, lambda x: x.op == "binop" and x.name in ("%", "//"))

    def leaf(x):
        if x.op == "param" and x.name == g_:
            return Rat.atom("g")
        if x.op == "sub" and x.args[1].op == "param" and x.args[1].name == b_:
            base = x.args[0]
            if base.op == "param" and base.name == n_:
                return Rat.atom("n")
            if base.op in ("call", "mcall") and base.name == "cumsum_leading_zero" and \
                    T.find(base, lambda y: y.op == "param" and y.name == n_) is not None:
                return Rat.atom("first")
        return None
    try:
        form = term_rat(r, leaf)
        want = (Rat.const(1) / Rat.const(2) + Rat.atom("g") - Rat.atom("first")) / Rat.atom("n")
        ok = form.eq(want)
    except Und:
        form, ok = None, False
    col.add(R, fi, "loc_of_index: loc = (global index - first compartment of the branch + 1/2) / ncomp of the branch",
            "DISCHARGED" if ok else ("VIOLATED" if (mod is not None or (form is not None and set(form.n.atoms()) | set(form.d.atoms()) <= {"g", "first", "n"})) else "UNDECIDED"),
            "(0.5 + index - cumsum_ncomp[branch]) / ncomp_per_branch[branch]" if ok else
            f"loc_of_index returns `{r.short(100)}`"
            + (": the position within the branch is taken modulo the branch's own compartment count, which equals `index - first compartment of "
               "the branch` only if every earlier branch has a multiple of that count; with different counts per branch the recorded "
               "pre_locs / post_locs name another compartment than pre/post_global_comp_index" if mod is not None else f" = {form}"), node=fi.node)
    # both ends are converted with their OWN rows
    ap = repo.method("Network", "_append_multiple_synapses")
    exa = idx.expander(repo, ap)
    for which in ("pre", "post"):
        sts = [s_ for s_ in exa.stores if s_.kind == "sub" and s_.key.op == "const" and s_.key.name == f"{which}_locs"]
        if not sts:
            col.bad(R, ap, f"`{which}_locs` is recorded", f"the column `{which}_locs` of the new synapse rows is no longer filled", node=ap.node)
            continue
        from sa.terms import fuse_comprehensions as _fuse
        v = _fuse(idx.inline(repo, ap, sts[0].value, value_only=True, keep=("loc_of_index",)))   # `a, b = [f(x) for x in (p, q)]` is a = f(p), b = f(q)
        call = T.find(v, lambda x: x.op == "call" and x.name == "loc_of_index")
        srcs = {x.name for a_ in (call.args[:2] if call is not None else []) for x in a_.walk() if x.op == "param"}
        col.check(call is not None and srcs == {f"{which}_nodes"}, R, ap, f"`{which}_locs` is computed from the {which}synaptic rows",
                  f"loc_of_index({which}_nodes[...], {which}_nodes[...], ncomp_per_branch)",
                  f"`{which}_locs` is computed from {sorted(srcs) or v.short(60)}", node=sts[0].node)


def _append_call(ex: Expander):
    cs = [c for c in ex.calls if isinstance(c.func, ast.Attribute) and c.func.attr == "_append_multiple_synapses"]
    if not cs:
        raise AnalysisError(f"{ex.fi.qual}: call of _append_multiple_synapses vanished")
    return cs[0]


def _is_first_comp_of(t: T, view_param: str):
    """t == <view_param>.scope('local').branch(0).comp(0).nodes[...]"""
    chain = []
    x = t
    while True:
        if x.op == "mcall" and x.name in ("copy", "reset_index", "set_index"):
            x = x.args[0]
            continue
        if x.op == "sub" and x.args[0].op == "attr" and x.args[0].name == "loc":
            x = x.args[0].args[0]
            continue
        break
    if not (x.op == "attr" and x.name == "nodes"):
        return False, "not a node table"
    x = x.args[0]
    seq = []
    while x.op == "mcall":
        seq.append((x.name, [a for a in x.args[1:]]))
        x = x.args[0]
    seq = seq[::-1]
    if not (x.op == "param" and x.name == view_param):
        return False, f"rooted at {x.short()}"
    names = [n for n, _a in seq]
    if names != ["scope", "branch", "comp"]:
        return False, f"selection chain {names}"
    sc, br, cp = seq
    ok = sc[1] and sc[1][0].op == "const" and sc[1][0].name == "local" and \
        br[1] and br[1][0].op == "const" and br[1][0].name == 0 and cp[1] and cp[1][0].op == "const" and cp[1][0].name == 0
    return ok, f"{[(n, [a.short() for a in a_]) for n, a_ in seq]}"


def _fully(repo, col):
    fi = repo.func(CF, "fully_connect")
    ex = idx.expander(repo, fi)
    c = _append_call(ex)
    # (module-level helpers that only compute a value -- `first_comp_nodes(view)` -- are looked through)
    pre, post = (idx.inline(repo, fi, ex.term(c.args[0]), value_only=True, keep=("sample_comp",)), idx.inline(repo, fi, ex.term(c.args[1]), value_only=True, keep=("sample_comp",)))
    pre_param, post_param = fi.params[0], fi.params[1]
    pre, post = _method_form(pre), _method_form(post)
    # pre rows: first compartment of each pre cell, repeated
    rep = T.find(pre, lambda x: x.op == "mcall" and x.name in ("repeat", "tile"))
    src = T.find(pre, lambda x: x.op == "attr" and x.name == "nodes")
    ok, why = _is_first_comp_of(rep.args[0].args[0] if rep is not None and rep.args[0].op == "attr" else pre, pre_param)
    col.check(ok, "R-C20-roles", fi, "fully_connect: presynaptic site = local branch 0, comp 0 of each pre cell",
              "pre_cell_view.scope('local').branch(0).comp(0)", f"pre rows come from {why}", node=c)
    # post rows: post view's own node table at the sampled indices
    lp = T.find(post, lambda x: x.op == "sub" and x.args[0].op == "attr" and x.args[0].name == "loc")
    ok = lp is not None and lp.args[0].args[0].op == "attr" and lp.args[0].args[0].name == "nodes" and \
        lp.args[0].args[0].args[0].op == "param" and lp.args[0].args[0].args[0].name == post_param
    col.check(ok, "R-C20-roles", fi, "fully_connect: post rows are rows of the post view", "post_cell_view.nodes.loc[...]",
              f"post rows are {post.short()}", node=c)
    recv = ex.term(c.func.value)
    col.check(recv.op == "attr" and recv.name == "base", "R-C20-roles", fi, "fully_connect: appended to the base network",
              "view.base._append_multiple_synapses", f"receiver {recv.short()}", node=c)
    # ---- layout
    if lp is None or rep is None:
        col.unk("R-C20-layout", fi, "fully_connect pairing", "row selectors not found", node=c)
        return
    try:
        if rep.name == "tile":     # np.tile(rows, n): the whole list n times (repetition is the SLOW axis)
            pre_l = layout_of(T("mcall", "tile", [rep.args[0], _rows_layout_src(rep.args[1], pre_param), rep.args[2]]))
        else:
            pre_l = layout_of(T("mcall", "repeat", [_rows_layout_src(rep.args[0], pre_param), rep.args[1]]))
    except (Unknown, Mismatch) as e:
        col.unk("R-C20-layout", fi, "fully_connect: layout of pre rows", str(e), node=c)
        return
    try:
        post_l = layout_of(lp.args[1])
    except Mismatch as e:
        col.bad("R-C20-layout", fi, "fully_connect: re-layout of the sampled post rows",
                f"the reshape regroups the flat (post-cell slow, draw fast) array into axes of other extents: {e}; "
                f"with num_pre != num_post rows of different post cells are mixed, so some (pre, post) pairs are "
                f"created twice and others never", node=lp.args[1].node or c)
        return
    except Unknown as e:
        col.unk("R-C20-layout", fi, "fully_connect: layout of post rows", str(e), node=c)
        return
    ok, why = _product(pre_l, post_l)
    col.check(ok, "R-C20-layout", fi, "fully_connect: row t pairs pre cell t // num_post with post cell t % num_post",
              f"pre {pre_l}, post {post_l}",
              f"pre rows are laid out as {pre_l} but post rows as {post_l}: {why}", node=lp.args[1].node or c)


def _method_form(t: T) -> T:
    """np.repeat(A, n) / np.ravel(A) / np.reshape(A, s) / np.transpose(A) in their method spelling; A.reshape(-1) is A.ravel()"""
    if not t.args and not t.kw:
        return t
    args = [_method_form(a) for a in t.args]
    kw = {k: _method_form(v) for k, v in t.kw.items()}
    if t.op == "mcall" and args and args[0].op == "free" and args[0].name in ("np", "jnp", "numpy") and \
            t.name in ("repeat", "ravel", "reshape", "transpose") and len(args) >= 2:
        args = args[1:]
    if t.op == "mcall" and t.name == "reshape" and len(args) == 2 and not kw and (
            (args[1].op == "const" and args[1].name == -1) or
            (args[1].op == "unary" and args[1].name == "USub" and args[1].args[0].op == "const" and args[1].args[0].name == 1)):
        return T("mcall", "ravel", [args[0]], {}, t.node)
    return T(t.op, t.name, args, kw, t.node)


def _rows_layout_src(idx_t: T, pre_param):
    """`pre_rows.index` where pre_rows has one row per pre cell -> a pseudo-term with layout [cell]."""
    return T("cellrows", pre_param)


_orig_layout_of = layout_of


def layout_of(t: T):  # noqa: F811  (extends the base cases)
    if t.op == "cellrows":
        return [("cell", f"ncells(param({t.name}))")]
    return _orig_layout_of(t)


def _product(pre_l, post_l):
    if len(pre_l) != 2 or len(post_l) != 2:
        return False, "layouts are not two-axis"
    for (n1, e1), (n2, e2) in zip(pre_l, post_l):
        if e1 != e2:
            return False, f"axis extents differ ({e1} vs {e2}) unless the populations have equal size"
    cells = [(n1 == "cell", n2 == "cell") for (n1, _), (n2, _) in zip(pre_l, post_l)]
    if sorted(cells) != [(False, True), (True, False)]:
        return False, "each axis must carry the cell index of exactly one side"
    return True, ""


# --------------------------------------------------------------------------------------


def _case_lengths(expr: ast.AST, listname: str):
    """Length of `hstack(X) if len(X) > k else []` for len(X) = n in 0..3, or None."""
    if isinstance(expr, ast.IfExp):
        t = expr.test
        if isinstance(t, ast.Compare) and len(t.ops) == 1 and isinstance(t.comparators[0], ast.Constant) and \
                isinstance(t.left, ast.Call) and unparse(t.left.func) == "len":
            k = t.comparators[0].value
            op = t.ops[0]

            def holds(n):
                return {ast.Gt: n > k, ast.GtE: n >= k, ast.NotEq: n != k, ast.Lt: n < k, ast.LtE: n <= k,
                        ast.Eq: n == k}.get(type(op))

            def length(branch, n):
                if isinstance(branch, (ast.List, ast.Tuple)) and not branch.elts:
                    return 0
                if isinstance(branch, ast.Call) and unparse(branch.func).split(".")[-1] in ("hstack", "concatenate", "array", "asarray"):
                    return n if n > 0 else "raises"
                return None

            out = {}
            for n in range(4):
                h = holds(n)
                if h is None:
                    return None
                out[n] = length(expr.body if h else expr.orelse, n)
            return out
    if isinstance(expr, ast.Call) and unparse(expr.func).split(".")[-1] in ("hstack", "concatenate"):
        return {0: "raises", 1: 1, 2: 2, 3: 3}
    return None


def _case_lengths_t(t: T, counts=frozenset()):
    """Length of the term `hstack(X) if <X non-empty> else []` for len(X) = n in 0..3, or None if not derivable.
    `counts`: keys of terms that ARE the number n of drawn connections (the `size` of the random choices)."""
    STACK = ("hstack", "concatenate", "array", "asarray")

    def length(branch, n):
        if branch.op in ("list", "tuple") and not branch.args:
            return 0
        if branch.op == "mcall" and branch.name in STACK:
            return n if n > 0 else "raises"
        # the list of per-connection samples itself (one entry per drawn connection): `.loc[list]` looks up len(list) rows
        if branch.op in ("listacc", "comp") or (branch.op == "phi" and all(a_.op in ("listacc", "comp", "list", "undef", "carried") for a_ in branch.args)):
            return n
        return None

    def holds(cnd, n):
        neg = False
        while cnd.op == "not" or (cnd.op == "unary" and cnd.name == "Not"):
            neg = not neg
            cnd = cnd.args[0]
        r = None
        if cnd.op == "cmp" and len(cnd.args) == 2 and ((cnd.args[0].op == "call" and cnd.args[0].name == "len") or cnd.args[0].key() in counts) and \
                cnd.args[1].op == "const" and isinstance(cnd.args[1].name, int):
            k = cnd.args[1].name
            r = {">": n > k, ">=": n >= k, "!=": n != k, "<": n < k, "<=": n <= k, "==": n == k}.get(cnd.name)
        elif cnd.op in ("list", "listacc", "comp", "phi", "carried") or T.find(cnd, lambda x: x.op in ("listacc", "comp")) is not None:
            r = n > 0  # truthiness of the list itself
        if r is None:
            return None
        return (not r) if neg else r

    if t.op == "ifexp":
        out = {}
        for n in range(4):
            h = holds(t.args[0], n)
            if h is None:
                return None
            out[n] = length(t.args[1] if h else t.args[2], n)
        return out
    if t.op == "mcall" and t.name in ("hstack", "concatenate"):
        return {0: "raises", 1: 1, 2: 2, 3: 3}
    if t.op == "mcall" and t.name in ("asarray", "array"):
        # an array made of one SCALAR per drawn connection (`sample_comp(cell)[0]`): length n for every n, the empty one included
        lst = next((a_ for a_ in t.args if a_.op != "free"), None)
        while lst is not None and lst.op == "phi":
            alts = [a_ for a_ in lst.args if a_.op not in ("undef", "carried") and not (a_.op == "list" and not a_.args)]
            lst = alts[0] if len(alts) == 1 else None
        el = lst.args[1] if (lst is not None and lst.op == "listacc" and len(lst.args) > 1) else (lst.args[0] if (lst is not None and lst.op == "comp") else None)
        if el is not None and el.op == "sub" and el.args[1].op == "const" and isinstance(el.args[1].name, int):
            return {0: 0, 1: 1, 2: 2, 3: 3}
    return None


def _sparse(repo, col):
    fi = repo.func(CF, "sparse_connect")
    ex = idx.expander(repo, fi)
    c = _append_call(ex)
    pre_param, post_param = fi.params[0], fi.params[1]
    # length of the post index array per number of drawn connections, on the TERM handed to `.loc[...]` for the post rows
    # (an if/else statement and a conditional expression are the same term; the list may be a comprehension or filled
    # by append in a loop)
    post_t = ex.term(c.args[1])
    loc = T.find(post_t, lambda x: x.op == "sub" and x.args[0].op == "attr" and x.args[0].name == "loc")
    if loc is None:
        raise AnalysisError("sparse_connect: the post rows are no longer looked up with .loc[...]")
    # the number of drawn connections: what the random choices of the cells are sized with
    counts = frozenset(q.kw["size"].key() for a_ in c.args[:2] for q in T.find_all(ex.term(a_), lambda x: x.op == "mcall" and x.name == "choice" and x.kw.get("size") is not None))
    lens = _case_lengths_t(loc.args[1], counts)
    stack = loc.node or c
    if lens is None:
        col.unk("R-C20-length", fi, stack, "length of the stacked post indices is not derivable")
    else:
        bad = {n: l for n, l in lens.items() if l != n}
        col.check(not bad, "R-C20-length", fi, "sparse_connect: #post rows == #pre rows for 0, 1, 2, 3 drawn connections",
                  f"lengths {lens}",
                  f"with n drawn connections the post index array has length {lens} (n -> length); the pre rows have "
                  f"length n, so a draw with {sorted(bad)} connection(s) "
                  f"{'raises' if 'raises' in bad.values() else 'pairs ' + str(sorted(bad)) + ' pre row(s) with ' + str(sorted(set(bad.values()))) + ' post rows'}",
                  node=stack)
    # the append is guarded against the empty draw
    g = ex.stmt_guards.get(id(_stmt_of(fi.node, c)), ())
    def says_nonempty(x):
        """the condition holds only if some row array is non-empty: len(a) > 0, len(a) != 0, len(a) >= 1, not (len(a) == 0), ..."""
        neg = False
        while x.op == "not" or (x.op == "unary" and x.name == "Not"):
            neg, x = not neg, x.args[0]
        if x.op == "cmp" and len(x.args) == 2 and ((x.args[0].op in ("call", "mcall") and x.args[0].name == "len") or x.args[0].key() in counts) and \
                x.args[1].op == "const" and isinstance(x.args[1].name, int):
            k, o = x.args[1].name, x.name
            pos = (o == ">" and k >= 0) or (o == ">=" and k >= 1) or (o == "!=" and k == 0)
            negd = (o == "==" and k == 0) or (o == "<" and k <= 1) or (o == "<=" and k <= 0)
            return (pos and not neg) or (negd and neg)
        if x.op in ("call", "mcall") and x.name == "len" and not neg:
            return True   # truthiness of the length
        return False
    guarded = any(says_nonempty(x) for x in g)
    col.check(guarded, "R-C20-length", fi, "sparse_connect: nothing is appended for an empty draw",
              "`if len(pre_rows) > 0`", "the append is not guarded against an empty draw", node=c)
    # roles
    pre, post = ex.term(c.args[0]), ex.term(c.args[1])
    def drawn_from(t_, param):
        """the VALUES of the cell draw `t_` are cells of view `param` and of no other view: a reordering `draw[perm]` keeps the
        values of `draw` (the permutation may be computed from either end), so only the value source counts"""
        while t_.op in ("sub", "elem"):
            t_ = t_.args[0]
        if t_.op == "mcall" and t_.name in ("choice", "permutation") and len(t_.args) >= 2:
            t_ = t_.args[1]   # the population drawn from (the NUMBER of draws involves both views)
        views = {x.args[0].name for x in t_.walk() if x.op == "attr" and x.name == "_cells_in_view" and x.args[0].op == "param"}
        return views == {param}
    pi = T.find(pre, lambda x: x.op == "sub" and x.args[0].op == "attr" and x.args[0].name == "_cumsum_ncomp_per_cell")
    ok = pi is not None and drawn_from(pi.args[1], pre_param)
    col.check(ok, "R-C20-roles", fi, "sparse_connect: presynaptic site = first compartment of the drawn pre cell",
              "base._cumsum_ncomp_per_cell[cells drawn from the pre view]", f"pre rows are {pre.short()}", node=c)
    sc = T.find(post, lambda x: x.op == "call" and x.name == "sample_comp")
    ok = False
    if sc is not None:
        v = sc.args[0]
        ok = v.op == "mcall" and v.name == "cell" and v.args[0].op == "mcall" and v.args[0].name == "scope" and \
            v.args[0].args[1].op == "const" and v.args[0].args[1].name == "global" and \
            v.args[0].args[0].op == "param" and v.args[0].args[0].name == post_param and \
            drawn_from(v.args[1], post_param)
    col.check(ok, "R-C20-roles", fi, "sparse_connect: postsynaptic site sampled inside the drawn post cell",
              "sample_comp(post_view.scope('global').cell(c)) with c drawn from the post view's cells",
              f"post rows are {post.short()}", node=c)
    # same permutation on both ends: if the drawn pre cells are reordered, the drawn post cells are reordered with the
    # same index array
    pre_perm = T.find(pre, lambda x: x.op == "mcall" and x.name == "argsort")
    post_perm = T.find(post, lambda x: x.op == "mcall" and x.name == "argsort")
    same = (pre_perm is None and post_perm is None) or (pre_perm is not None and post_perm is not None and pre_perm.key() == post_perm.key())
    col.check(same, "R-C20-roles", fi, "sparse_connect: pre and post cell draws are permuted together",
              "both indexed by the same argsort", "the sorting permutation is applied to one end only: pre and post cells of a connection are "
              "no longer the pair that was drawn", node=c)
    # one pre cell and one post cell per connection: both ends are drawn the same number of times
    def draw_size(t_):
        d = T.find(t_, lambda x: x.op == "mcall" and x.name in ("choice", "randint", "integers") and "size" in x.kw)
        return d.kw["size"] if d is not None else None
    s_pre, s_post = draw_size(pre), draw_size(post)
    if s_pre is not None and s_post is not None:
        col.check(s_pre.key() == s_post.key(), "R-C20-length", fi, "sparse_connect: as many pre cells as post cells are drawn",
                  "size=num_connections on both ends", f"the pre cells are drawn `{s_pre.short(50)}` times, the post cells `{s_post.short(50)}` "
                  f"times: the two ends of the connections no longer pair up", node=c)


def _stmt_of(fn, node):
    for st in ast.walk(fn):
        if isinstance(st, ast.stmt):
            for ch in ast.iter_child_nodes(st):
                for n in ast.walk(ch):
                    if n is node and isinstance(st, (ast.Expr, ast.Assign)):
                        return st
    return None


def _matrix(repo, col):
    fi = repo.func(CF, "connectivity_matrix_connect")
    ex = idx.expander(repo, fi)
    c = _append_call(ex)
    pre_param, post_param, _syn, mat = fi.params[:4]
    pre, post = (idx.inline(repo, fi, ex.term(c.args[0]), value_only=True, keep=("sample_comp",)), idx.inline(repo, fi, ex.term(c.args[1]), value_only=True, keep=("sample_comp",)))
    # assertions
    asserts = [ex.term(n.test) for n in walk_no_nested(fi.node) if isinstance(n, ast.Assert)]
    about_mat = lambda t_: T.find(t_, lambda x: x.op == "param" and x.name == mat) is not None
    shape_ok = shape_seen = dtype_ok = False
    shp = None
    for t_ in asserts:
        for x in t_.walk():
            if x.op == "cmp" and x.name == "==" and len(x.args) == 2:
                sh = next((a_ for a_ in x.args if a_.op == "attr" and a_.name == "shape" and about_mat(a_)), None)
                tp = next((a_ for a_ in x.args if a_.op == "tuple" and len(a_.args) == 2), None)
                if sh is not None and tp is not None:
                    shape_seen, shp = True, x.short(80)
                    a, b = tp.args
                    shape_ok = T.find(a, lambda y: y.op == "param" and y.name == pre_param) is not None and \
                        T.find(b, lambda y: y.op == "param" and y.name == post_param) is not None
            if x.op == "cmp" and x.name in ("==", "is") and len(x.args) == 2:
                dt = next((a_ for a_ in x.args if a_.op == "attr" and a_.name == "dtype" and about_mat(a_)), None)
                bl = next((a_ for a_ in x.args if (a_.op in ("name", "free", "global", "builtin") and a_.name == "bool") or
                           (a_.op == "attr" and a_.name in ("bool_", "bool"))), None)
                dtype_ok = dtype_ok or (dt is not None and bl is not None)
    col.add("R-C20-roles", fi, "matrix connect: shape asserted to be (num_pre, num_post)",
            "DISCHARGED" if shape_ok else ("VIOLATED" if shape_seen or not asserts else "VIOLATED"), shp or "" if shape_ok else
            "the (num_pre, num_post) shape assertion is missing or transposed", node=fi.node)
    col.check(dtype_ok, "R-C20-roles", fi, "matrix connect: boolean dtype asserted",
              "dtype == bool", "the dtype assertion is missing", node=fi.node)
    # np.where(matrix) -> (rows, cols) -> (pre, post); of the TRANSPOSED matrix the first coordinate is the column (post cell)
    def coord(item_t):
        """which coordinate of the matrix AS GIVEN the term `where(...)#k` is: 0 = row (pre), 1 = column (post), None = not derivable"""
        w_ = T.find(item_t, lambda x: x.op == "mcall" and x.name in ("where", "nonzero") and len(x.args) >= 2)
        if w_ is None or item_t.name not in (0, 1):
            return None
        m_ = w_.args[1]
        while m_.op == "mcall" and m_.name in ("asarray", "array", "astype", "copy") and m_.args:
            m_ = next((a_ for a_ in m_.args if a_.op != "free"), m_.args[0])
        if (m_.op == "attr" and m_.name == "T") or (m_.op == "mcall" and m_.name == "transpose" and len(m_.args) == 1):
            return 1 - item_t.name
        return item_t.name
    w = T.find(post, lambda x: x.op == "mcall" and x.name in ("where", "nonzero"))
    ok_post = False
    sc = T.find(post, lambda x: x.op == "call" and x.name == "sample_comp")
    if sc is not None:
        cellarg = sc.args[0].args[1] if sc.args[0].op == "mcall" and sc.args[0].name == "cell" else None
        if cellarg is not None:
            it = T.find(cellarg, lambda x: x.op == "sub" and x.args[1].op == "item")
            if it is not None:
                which = coord(it.args[1])
                src = it.args[0]
                ok_post = which == 1 and T.find(src, lambda x: x.op == "param" and x.name == post_param) is not None
            v = sc.args[0]
            ok_scope = v.op == "mcall" and v.name == "cell" and v.args[0].op == "mcall" and v.args[0].name == "scope" and \
                v.args[0].args[1].op == "const" and v.args[0].args[1].name == "global" and v.args[0].args[0].op == "param" \
                and v.args[0].args[0].name == post_param
            col.check(ok_scope, "R-C20-roles", fi, "matrix connect: post site sampled in global scope of the post view",
                      "post_view.scope('global').cell(c)", f"sampled from {v.short()}", node=c)
    col.check(ok_post, "R-C20-roles", fi, "matrix connect: column index selects the post cell",
              "post_cell_inds[to_idx] with (from_idx, to_idx) = np.where(matrix)",
              f"post cells are {post.short(200)}", node=c)
    it = T.find(pre, lambda x: x.op == "sub" and x.args[1].op == "item" and
                T.find(x.args[1], lambda y: y.op == "mcall" and y.name in ("where", "nonzero")) is not None)
    ok_pre = it is not None and coord(it.args[1]) == 0 and T.find(it.args[0], lambda x: x.op == "param" and x.name == pre_param) is not None
    col.check(ok_pre, "R-C20-roles", fi, "matrix connect: row index selects the pre cell", "pre_cell_inds[from_idx]",
              f"pre cells are {pre.short(200)}", node=c)
    # pre site: first compartment of the pre cell
    nodes_src = T.find(pre, lambda x: x.op == "attr" and x.name == "nodes" and x.args[0].op == "mcall" and x.args[0].name == "comp")
    ok, why = _is_first_comp_of(nodes_src, pre_param) if nodes_src is not None else (False, "not found")
    col.check(ok, "R-C20-roles", fi, "matrix connect: presynaptic site = local branch 0, comp 0 of the pre cell",
              "pre_cell_view.scope('local').branch(0).comp(0)", f"pre site is {why}", node=c)
    # length: unguarded stacking of a possibly empty list
    # (the statement that stacks the sampled post indices -- a local of its own or directly inside the `.loc[...]` lookup)
    stack = next((n for n in walk_no_nested(fi.node) if isinstance(n, ast.Assign) and isinstance(n.targets[0], ast.Name)
                  and ("hstack" in unparse(n.value) or "concatenate" in unparse(n.value))), None)
    ploc = T.find(post, lambda x: x.op == "sub" and x.args[0].op == "attr" and x.args[0].name == "loc")
    if stack is None and ploc is not None and _case_lengths_t(ploc.args[1]) is not None:
        # no stacking statement: the post indices are built some other way whose length is derivable from the term
        stack = next((n for n in walk_no_nested(fi.node) if isinstance(n, ast.Assign) and ploc.args[1].node is not None and n.value is ploc.args[1].node), None) or c
    if stack is None:
        col.unk("R-C20-length", fi, "matrix connect: stacking of post indices", "not found", node=fi.node)
    else:
        lens = _case_lengths(stack.value, "") if isinstance(stack, ast.Assign) and ("hstack" in unparse(stack.value) or "concatenate" in unparse(stack.value)) else None
        if lens is None and isinstance(stack, ast.Assign):
            loc_ = T.find(ex.term(stack.value), lambda x: x.op == "sub" and x.args[0].op == "attr" and x.args[0].name == "loc")
            lens = _case_lengths_t(loc_.args[1]) if loc_ is not None else None
        if lens is None and ploc is not None:
            lens = _case_lengths_t(ploc.args[1])
        if lens is not None and _empty_case_returns_early(fi, ex, stack, mat):
            lens = dict(lens)
            lens[0] = 0  # the empty request returns before anything is stacked or appended
        if lens is None:
            col.unk("R-C20-length", fi, stack, "length not derivable")
        else:
            bad = {n: l for n, l in lens.items() if l != n}
            col.check(not bad, "R-C20-length", fi, "matrix connect: #post rows == #True entries for 0, 1, 2, 3 entries",
                      f"{lens}", f"an all-False matrix makes `{unparse(stack.value)[:40]}...` stack an empty list "
                                 f"(lengths per #True entries: {lens}); zero requested connections raise instead of "
                                 f"creating none", node=stack)


def _empty_case_returns_early(fi, ex, stack, matrix_param) -> bool:
    """An earlier top-level `if <no True entry>: return` dominates the stacking statement.
    Accepted tests: len(X) == 0 / not len(X) with X derived from np.where(matrix) or from the
    cell lists indexed by it, `not matrix.any()`, `matrix.sum() == 0`."""
    for st in fi.node.body:
        if st is stack:
            return False
        if isinstance(st, ast.If) and st.body and isinstance(st.body[-1], ast.Return) and not st.orelse:
            t = ex.term(st.test)
            about_matrix = T.find(t, lambda x: x.op == "param" and x.name == matrix_param) is not None
            txt = t.pretty()
            def count(x):
                """the number of entries / of True entries: len(X), X.size, X.shape[0], np.size(X), X.sum(), np.count_nonzero(X)"""
                return (x.op == "call" and x.name == "len") or (x.op == "attr" and x.name == "size") or \
                    (x.op == "mcall" and x.name in ("sum", "size", "count_nonzero")) or \
                    (x.op == "sub" and x.args[0].op == "attr" and x.args[0].name == "shape" and x.args[1].op == "const" and x.args[1].name == 0)
            empties = (t.op == "cmp" and len(t.args) == 2 and t.args[1].op == "const" and count(t.args[0]) and
                       ((t.name in ("==", "<=") and t.args[1].name == 0) or (t.name == "<" and t.args[1].name == 1))) or \
                      (t.op == "cmp" and len(t.args) == 2 and t.args[0].op == "const" and count(t.args[1]) and
                       ((t.name in ("==", ">=") and t.args[0].name == 0) or (t.name == ">" and t.args[0].name == 1))) or \
                      (t.op == "unary" and t.name == "Not" and (count(t.args[0]) or
                          (t.args[0].op == "mcall" and t.args[0].name == "any")))
            if about_matrix and empties:
                return True
    return False


def _view_rank_array(t: T):
    """True if `t` is a positional array extracted from a *view's* node/edge table
    (`view.nodes.index.to_numpy()`, `view.nodes[col].to_numpy()`, `view._cells_in_view`, ...):
    its positions are ranks within the view, not global indices."""
    x = t
    while x.op == "mcall" and x.name in ("to_numpy", "tolist", "to_list", "copy", "astype", "unique", "flatten"):
        x = x.args[0]
    if x.op == "attr" and x.name == "values":
        x = x.args[0]
    if x.op == "attr" and x.name == "index":
        x = x.args[0]
    elif x.op == "sub" and x.args[1].op == "const" and isinstance(x.args[1].name, str):
        x = x.args[0]
    else:
        return False
    # a node table owned by a view (not `.base`)
    tbl = T.find(x, lambda y: y.op == "attr" and y.name in ("nodes", "edges"))
    if tbl is None:
        return False
    owner = tbl.args[0]
    return T.find(owner, lambda y: y.op == "attr" and y.name == "base") is None and \
        T.find(owner, lambda y: y.op == "param") is not None


def _positional_lookups(repo, col):
    """A positional array of a view must not be subscripted with global indices."""
    from sa.spaces import Classifier

    cl = Classifier({})
    n = 0
    for name in ("fully_connect", "sparse_connect", "connectivity_matrix_connect"):
        fi = repo.func(CF, name)
        ex = idx.expander(repo, fi)
        for kind, arr, ix, node in idx.gather_sites(ex):
            if kind != "gather" or not _view_rank_array(arr):
                continue
            sp = cl.space(ix, "node")
            if sp is None:
                continue
            n += 1
            col.bad("R-C20-roles", fi, f"{unparse(node)[:70]}: positional lookup with a global index",
                    f"`{unparse(node.value)[:40]}` lists the rows of a *view* (positions are ranks within the view) but is "
                    f"subscripted with {idx._name(sp.s)} (possibly shifted): correct only for a contiguous population "
                    f"starting at the offset; use a label-based lookup (`.loc`)", node=node)
    return n


def _common(repo, col):
    _positional_lookups(repo, col)
    fi = repo.func(CF, "sample_comp")
    ex = idx.expander(repo, fi)
    r = ex.returns[0] if ex.returns else None
    ok = r is not None and r.op == "mcall" and r.name == "choice" and len(r.args) >= 2 and \
        r.args[1].op == "attr" and r.args[1].name == "_comps_in_view" and r.args[1].args[0].op == "param"
    col.check(ok, "R-C20-roles", fi, "sample_comp draws from the compartments of the given view",
              "np.random.choice(view._comps_in_view, ...)", f"returns {r.short() if r else None}", node=fi.node)
    fi = repo.func(CF, "connect")
    ex = idx.expander(repo, fi)
    c = _append_call(ex)
    a, b = ex.term(c.args[0]), ex.term(c.args[1])
    ok = a.op == "attr" and a.name == "nodes" and a.args[0].op == "param" and a.args[0].name == fi.params[0] and \
        b.op == "attr" and b.name == "nodes" and b.args[0].op == "param" and b.args[0].name == fi.params[1]
    col.check(ok, "R-C20-roles", fi, "connect passes (pre.nodes, post.nodes) in that order", "(pre.nodes, post.nodes)",
              f"passes ({a.short()}, {b.short()})", node=c)
    for name in ("fully_connect", "sparse_connect", "connectivity_matrix_connect", "connect"):
        f2 = repo.func(CF, name)
        e2 = idx.expander(repo, f2)
        c2 = _append_call(e2)
        s = e2.term(c2.args[2]) if len(c2.args) > 2 else None
        col.check(s is not None and s.op == "param" and s.name == f2.params[2], "R-C20-roles", f2,
                  f"{name}: the given synapse type is appended", "synapse_type", f"third argument is {s.short() if s else None}", node=c2)
    # _append_multiple_synapses: column derived from pre_nodes is the pre column
    fi = repo.method("Network", "_append_multiple_synapses")
    ex = idx.expander(repo, fi)
    from .c11 import _str_parts
    seen = {}

    def facts(e_, binding):
        for s_ in e_.stores:
            if s_.kind == "attr" and s_.key.name == "columns":
                base = idx.subst(s_.base, binding) if binding else s_.base
                val = idx.subst(s_.value, binding) if binding else s_.value
                src = T.find(base, lambda x: x.op == "param" and x.name in fi.params)
                if val.op == "list" and len(val.args) == 1 and src is not None:
                    parts = _str_parts(val.args[0])
                    if len(parts) == 1 and isinstance(parts[0], str):
                        seen[src.name] = parts[0]

    def rename_facts(t, binding):
        """`X.rename(columns={old: new})` with X derived from one of the node-table parameters"""
        t = idx.subst(t, binding) if binding else t
        from sa.terms import fuse_comprehensions as _fz
        t = _fz(t)   # a comprehension over a literal tuple of (side, table) pairs is the list of its instances
        for x in t.walk():
            if x.op == "mcall" and x.name == "rename" and "columns" in x.kw and x.kw["columns"].op == "dict":
                src = T.find(x.args[0], lambda y: y.op == "param" and y.name in fi.params)
                for kv in x.kw["columns"].args:
                    parts = _str_parts(kv.args[1])
                    if parts and all(isinstance(p_, str) for p_ in parts):
                        parts = ["".join(parts)]
                    if src is not None and len(parts) == 1 and isinstance(parts[0], str):
                        seen[src.name] = parts[0]

    facts(ex, None)
    for r_ in list(ex.returns) + [s_.value for s_ in ex.stores]:
        rename_facts(r_, None)
    # a local helper that is applied to pre_nodes and to post_nodes: one set of facts per call site
    for cnode in ex.calls:
        if isinstance(cnode.func, ast.Name) and cnode.func.id in ex.nested:
            ne = ex.nested[cnode.func.id]
            t = ex.term(cnode)
            m = idx._bind(ne.fi.node, list(t.args), t.kw)
            if m is not None:
                facts(ne, m)
                for r_ in ne.returns:
                    rename_facts(r_, m)
    ok = seen.get(fi.params[1]) == "pre_global_comp_index" and seen.get(fi.params[2]) == "post_global_comp_index"
    col.check(ok, "R-C20-roles", fi, "_append_multiple_synapses: pre_nodes feed the pre column, post_nodes the post column",
              f"{seen}", f"column naming is {seen}", node=fi.node)
