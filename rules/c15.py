"""C15 -- physical units (the only clause of C15 that static analysis decides)."""
from __future__ import annotations

import ast

from sa.core import AnalysisError, unparse, walk_no_nested
from sa.terms import Expander, T
from . import cable

LEVEL = "other"
EXPLANATION = (
    "Convergence orders are limits over runs and are NOT decided (see not-decided list in DESIGN.md). "
    "Decided: 'this fixes the physical units of every parameter'. R-C15-units: with the documented "
    "units as seeds (um, ohm*cm, uF/cm^2, S/cm^2, mA/cm^2, nA, mV, ms) each conversion is compared, as "
    "an exact rational identity, with the textbook formula rewritten in cm/S/A: axial conductances "
    "(factor 10^7), point-process current (10^5), channel current mA->uA per cm^2 (1000), and the "
    "division of every current term by the capacitance in the voltage equation (factor 1)."
)
ASSUMPTIONS = ["documented units are the seeds", "compute_impact_on_node is used only up to proportionality"]


def check(repo, col, tier):
    col.rule("R-C15-units", "conversion constants are the ones the documented units force", 6)
    cable.check_axial(repo, col, {"oracle": "R-C15-units", "kirchhoff": "R-C15-units", "cap": "R-C15-units"})
    cable.check_point_process(repo, col, "R-C15-units")
    _channel_factor(repo, col)
    _capacitance(repo, col)
    from . import c10
    c10.derived_after_overrides(repo, col, "R-C15-units")
    # the discretised operator itself (shared with C01): a wrong matrix entry makes the scheme converge to another equation
    from . import c01_solver
    col.rule("R-C15-assembly", "implicit matrices of both back ends are the discretised cable operator", 10)
    c01_solver._assembly_jaxley(repo, col, "R-C15-assembly")
    c01_solver._assembly_sparse(repo, col, "R-C15-assembly")
    # ... and the graph it is assembled on: a branch point couples the LAST compartment of the parent with the FIRST of each
    # child, for any per-branch compartment counts (a refinement ladder that refines branches unequally depends on it)
    # several mechanisms in one compartment: their conductances and reversal currents ADD in the voltage equation (shared with C02)
    from . import c02 as _c02
    col.rule("R-C15-currents", "membrane currents are computed at and accumulated into the rows of their channel", 9)
    _c02.channel_current_rows(repo, col, "R-C15-currents")
    col.rule("R-C15-scheme", "each solver name runs its scheme: backward Euler with dt, Crank-Nicolson as 2*V(dt/2) - V, forward Euler explicitly", 10)
    c01_solver._scheme(repo, col, "R-C15-scheme")
    # the level schedule of a network keeps every level of every cell (shared with C01/C12): a cell deeper than its neighbours is
    # otherwise only partly eliminated, and no refinement of the grid makes that converge
    col.rule("R-C15-merge", "merged level schedule contains every level of every cell", 1)
    c01_solver._merge(repo, col, "R-C15-merge")
    col.rule("R-C15-schedule", "the level sweeps of the custom solvers triangulate and back-substitute every level with its own accessors", 8)
    c01_solver._schedule(repo, col, "R-C15-schedule")
    col.rule("R-C15-ends", "branch-point edges attach at each branch's own first / last compartment", 4)
    c01_solver._ends(repo, col, "R-C15-ends")
    c01_solver.category_major(repo, col, "R-C15-ends")


def _channel_factor(repo, col):
    fi = repo.method("Module", "_channel_currents")
    ex = Expander(repo, fi)
    found = 0
    # the two accumulators are the pair returned next to the states (whatever the locals are called)
    acc_names = set()
    for r_ in ast.walk(fi.node):
        if isinstance(r_, ast.Return) and isinstance(r_.value, ast.Tuple) and len(r_.value.elts) == 2 and isinstance(r_.value.elts[1], ast.Tuple):
            acc_names |= {x.id for x in r_.value.elts[1].elts if isinstance(x, ast.Name)}
    for s in ex.calls:
        if isinstance(s.func, ast.Attribute) and s.func.attr in ("add", "set") and isinstance(s.func.value, ast.Subscript):
            base = s.func.value.value
            if isinstance(base, ast.Attribute) and base.attr == "at":
                tgt = unparse(base.value)
                if tgt in acc_names:
                    v = ex.term(s.args[0])
                    consts = [x.name for x in v.walk() if x.op == "const" and isinstance(x.name, (int, float))
                              and x.name not in (0, 1, 0.0, 1.0, -1)]
                    # the literal factor applied to the mA/cm^2 current
                    fac = [c for c in consts if c not in (0.001,)]
                    found += 1
                    ok = 1000.0 in fac or 1000 in fac
                    col.check(ok and len([c for c in fac if c in (1000, 1000.0)]) == 1, "R-C15-units", fi,
                              f"{tgt}: mA/cm^2 -> uA/cm^2",
                              "channel current (mA/cm^2) is multiplied by 1000 before entering the voltage equation (uA/cm^2)",
                              f"factor applied to the channel current in {tgt} is {fac}, the units force 1000", node=s)
    if found < 2:
        raise AnalysisError("_channel_currents: accumulation of voltage_terms/constant_terms not found")


def _capacitance(repo, col, R="R-C15-units"):
    fi = repo.method("Module", "step")
    ex = Expander(repo, fi)
    d = None
    for n in walk_no_nested(fi.node):
        if isinstance(n, ast.Dict) and any(isinstance(k, ast.Constant) and k.value == "voltage_terms" for k in n.keys):
            d = n
    if d is None:
        raise AnalysisError("Module.step: solver_kwargs dict display not found")
    from . import c01_solver, idx
    ex = idx.expander(repo, fi)
    kw = {k.value: ex.term(v) for k, v in zip(d.keys, d.values) if isinstance(k, ast.Constant)}
    c01_solver.current_terms(repo, col, R, fi, ex, kw, d)
