"""C04 -- built-in mechanisms implement their published kinetics and currents.

Translation validation: canonical forms of the repository's rate / steady-state /
time-constant / current / update expressions against spec/kinetics.txt (the oracle).
"""
from __future__ import annotations

import ast
from fractions import Fraction as Fr

from sa.algebra import Und, Rat, rat_of, ONE, PW, ObjV, as_pw
from sa.core import AnalysisError, unparse, walk_no_nested, const_str
from . import kin
from sa.terms import T

LEVEL = "translation_validation"
EXPLANATION = (
    "R-C04-eq: every gate function, update law and current equation of HH, Leak, Na, K, Km, CaL, CaT, "
    "IonotropicSynapse, TestSynapse, TanhRateSynapse is evaluated over exact rational-exponential "
    "forms and compared, by cross-multiplied polynomial identity, with the published equations in "
    "spec/kinetics.txt (holds for every voltage and parameter value, not a sample). R-C04-defaults: "
    "HH defaults equal hh.mod; a parameter stored under one unprefixed name by several classes has "
    "one default; conductance defaults positive. R-C04-keys: every params/states key read is declared "
    "by the same class with the same prefix pattern, prefixed keys are built from self._name. "
    "R-C04-rename: Channel.change_name and Synapse.change_name rewrite both dictionaries identically "
    "and update _name."
)
ASSUMPTIONS = [
    "spec/kinetics.txt is the oracle (written from the cited papers / NEURON hh.mod)",
    "save_exp is compared as exp on the unclipped domain; the clip is judged by C03/C17",
    "exprel(u)=u/(exp(u)-1) is compared away from u=0; the guard is judged by C03",
]


def _pattern_of_key(e: ast.AST, prefix_names, fn=None):
    """Key pattern of a dict key expression: («name»_x | literal | None).  A local name that is bound exactly once in `fn` (to a
    literal or an f-string) stands for that expression (`state_name = f"{prefix}_s"`)."""
    if isinstance(e, ast.Name) and fn is not None:
        defs = [n.value for n in walk_no_nested(fn) if isinstance(n, ast.Assign) and len(n.targets) == 1 and
                isinstance(n.targets[0], ast.Name) and n.targets[0].id == e.id]
        others = [n for n in walk_no_nested(fn) if isinstance(n, (ast.AugAssign, ast.For, ast.comprehension)) and
                  any(isinstance(x, ast.Name) and x.id == e.id and isinstance(x.ctx, ast.Store) for x in ast.walk(n.target))]
        if len(defs) == 1 and not others and isinstance(defs[0], (ast.JoinedStr, ast.Constant)):
            return _pattern_of_key(defs[0], prefix_names)
    if isinstance(e, ast.Constant) and isinstance(e.value, str):
        return e.value, "literal"
    if isinstance(e, ast.JoinedStr):
        out, dyn = "", False
        for v in e.values:
            if isinstance(v, ast.Constant):
                out += str(v.value)
            elif isinstance(v, ast.FormattedValue):
                t = unparse(v.value)
                if t in prefix_names or t == "self._name":
                    out += "«name»"
                    dyn = True
                else:
                    return None, "unknown"
        return out, ("prefixed" if dyn else "literal")
    return None, "unknown"


def _prefix_names(fn: ast.FunctionDef):
    names = set()
    for n in walk_no_nested(fn):
        if isinstance(n, ast.Assign) and unparse(n.value) == "self._name":
            for t in n.targets:
                if isinstance(t, ast.Name):
                    names.add(t.id)
    return names


def _declared(repo, cinfo, attr):
    """Key patterns declared in __init__ as self.<attr> = {...}."""
    out = {}
    if "__init__" not in cinfo.methods:
        return None
    fn = cinfo.methods["__init__"].node
    pn = _prefix_names(fn)
    for n in walk_no_nested(fn):
        if isinstance(n, ast.Assign) and len(n.targets) == 1 and unparse(n.targets[0]) == f"self.{attr}":
            if isinstance(n.value, ast.Dict):
                for k, v in zip(n.value.keys, n.value.values):
                    pat, kind = _pattern_of_key(k, pn)
                    out[pat] = (kind, v, k)
                return out
    return None


def save_exp_form(repo, col, R):
    """The evaluator looks through the saturation inside `save_exp` (and only there): that is sound only while save_exp(x) IS
    exp(min(x, 20)) -- an upper clip, nothing else, with the documented bound.  A lower clip, another bound or a changed body alters
    every rate of every mechanism."""
    from . import idx
    from sa.terms import T
    fi = repo.func("jaxley/solver_gate.py", "save_exp")
    ex = idx.expander(repo, fi)
    r = ex.merged_return() if len(ex.returns) != 1 else ex.returns[0]
    if r is None:
        raise AnalysisError("save_exp has no return value")
    x, bound_p = fi.params[0], (fi.params[1] if len(fi.params) > 1 else None)
    is_x = lambda t: t.op == "param" and t.name == x
    ok, why = False, f"returns {r.short(100)}"
    bound = None
    if r.op in ("mcall", "call") and r.name == "exp":
        a = [q for q in r.args if q.op != "free"]
        c = a[0] if a else None
        if c is not None and c.op in ("mcall", "call") and c.name == "where":
            # min(x, b) written as a selection: where(x > b, b, x) / where(x < b, x, b) (and the non-strict forms)
            wa = [q for q in c.args if q.op != "free"]
            if len(wa) == 3 and wa[0].op == "cmp" and len(wa[0].args) == 2:
                l_, r_ = wa[0].args
                opn = wa[0].name
                if is_x(r_) and not is_x(l_):
                    l_, r_, opn = r_, l_, {">": "<", "<": ">", ">=": "<=", "<=": ">="}.get(opn, opn)
                if is_x(l_) and not is_x(r_):
                    if opn in (">", ">=") and wa[1].key() == r_.key() and is_x(wa[2]):
                        bound = r_
                    elif opn in ("<", "<=") and is_x(wa[1]) and wa[2].key() == r_.key():
                        bound = r_
        if c is not None and c.op in ("mcall", "call") and c.name in ("clip", "minimum"):
            ca = [q for q in c.args if q.op != "free"]
            if c.name == "minimum" and len(ca) == 2 and is_x(ca[0]):
                bound = ca[1]
            elif c.name == "clip" and ca and is_x(ca[0]):
                lo = c.kw.get("min", c.kw.get("a_min", ca[1] if len(ca) > 1 else None))
                hi = c.kw.get("max", c.kw.get("a_max", ca[2] if len(ca) > 2 else None))
                if lo is None or (lo.op == "const" and lo.name is None):
                    bound = hi
                else:
                    why = f"the exponent is also clipped from below (`{c.short(60)}`): exp no longer decays for very negative arguments"
    ok = bound is not None
    col.check(ok, R, fi, "save_exp(x) = exp(min(x, bound)): an upper clip of the exponent and nothing else", "exp(clip(x, max=max_value))", why, node=fi.node)
    if ok:
        dflt = None
        if bound.op == "param" and bound.name == bound_p and fi.node.args.defaults:
            d = fi.node.args.defaults[-1]
            dflt = d.value if isinstance(d, ast.Constant) else None
        elif bound.op == "const":
            dflt = bound.name
        col.check(dflt == 20.0, R, fi, "the exponent saturates at 20 (exp(20) ~ 4.9e8; reached only outside the physiological range)", "max_value = 20.0",
                  f"the bound is {dflt!r}: with a smaller bound the rate functions saturate inside the voltage range, with none exp overflows", node=fi.node)
        callers = [(f, c) for f in repo.all_functions() for c in ast.walk(f.node) if isinstance(c, ast.Call) and unparse(c.func).split(".")[-1] == "save_exp"
                   and (len(c.args) > 1 or c.keywords)]
        col.check(not callers, R, fi, "no caller overrides the saturation bound", "all calls are save_exp(u)",
                  f"`{unparse(callers[0][1])[:60]}` in {callers[0][0].qual} passes its own bound" if callers else "", node=callers[0][1] if callers else fi.node)


def check(repo, col, tier):
    spec = kin.load_spec()
    col.rule("R-C04-saturation", "save_exp is exp with an upper clip of the exponent at 20", 1)
    save_exp_form(repo, col, "R-C04-saturation")
    col.rule("R-C04-eq", "code canonical form == published form (cross-multiplied identity)", 30)
    col.rule("R-C04-defaults", "defaults equal the published ones / shared names agree / conductances > 0", 8)
    col.rule("R-C04-keys", "keys read are declared by the same class with the same prefix pattern", 30)
    col.rule("R-C04-rename", "change_name rewrites params and states identically and updates _name", 2)
    programs = 0

    chan = {c.name: c for c in kin.mech_classes(repo, "Channel")}
    syn = {c.name: c for c in kin.mech_classes(repo, "Synapse")}
    for name in spec:
        if name not in chan and name not in syn:
            raise AnalysisError(f"built-in mechanism class {name} vanished")
    for name, c in list(chan.items()) + list(syn.items()):
        if name not in spec:
            col.unk("R-C04-eq", c.file, f"class {name}", "built-in mechanism without reference equations", func=name)

    for name, sp in spec.items():
        cinfo = chan.get(name) or syn.get(name)
        kind = sp["kind"]
        # ---- gate functions
        for fn, (args, gkind, ra, rb) in sp["gates"].items():
            ev = kin.new_eval(repo)
            if fn not in cinfo.methods:
                raise AnalysisError(f"anchor {name}.{fn} vanished")
            fi = cinfo.methods[fn]
            try:
                got = ev.call(fi, [kin.A(a) for a in args], selfv=ObjV(name))
                if not isinstance(got, tuple) or len(got) != 2:
                    raise Und("gate function does not return a pair")
                for kind_, stack, node_ in kin.foreign_saturation(ev):
                    col.bad("R-C04-eq", fi, f"{fn}: `{kind_}` inside a published rate expression",
                            f"`{unparse(node_)[:70]}` saturates a quantity of {name}.{fn}; the published equation has no such "
                            f"bound, so the kinetics differ wherever the bound is active", node=node_)
                clipped_exponentials(repo, col, "R-C04-eq", ev, fi, name, fn, (ra, rb))
                for i, (g, r, lab) in enumerate(zip(got, (ra, rb), ("first", "second"))):
                    programs += 1
                    _guard_regions(col, ev, fi, name, fn, g, r, args)
                    g = kin.main_region(g)
                    want = kin.ref(ev, r)
                    what = {"ab": ("alpha", "beta"), "inftau": ("x_inf", "tau")}[gkind][i]
                    ret = _return_elt(fi.node, i)
                    col.check(g.eq(want), "R-C04-eq", fi, f"{fn}: {what}",
                              "equals the published form",
                              f"{what} of {name}.{fn} differs from the published form `{r}`",
                              node=ret, sides={"code": repr(g)[:400], "reference": r})
            except Und as e:
                col.unk("R-C04-eq", fi, f"{fn}", f"outside the analysable fragment: {e}", node=fi.node)
        # ---- update law per state
        programs += update_laws(repo, col, "R-C04-eq", name, sp, cinfo, kind)
        # ---- current
        ev = kin.new_eval(repo)
        fi = repo.method(name, "compute_current")
        try:
            programs += 1
            got, S, P = kin.call_current(ev, repo, name, kind)
            want = kin.ref(ev, sp["current"])
            col.check(got.eq(want), "R-C04-eq", fi, "current equation",
                      "equals the published current",
                      f"current of {name} differs from the published `{sp['current']}`",
                      node=fi.node, sides={"code": repr(got)[:400], "reference": sp["current"]})
        except Und as e:
            col.unk("R-C04-eq", fi, "compute_current", f"outside the analysable fragment: {e}", node=fi.node)

        # ---- the gate functions are evaluated with the same arguments wherever they are used
        _sibling_gate_calls(repo, col, name, sp, cinfo)
        # ---- keys
        _check_keys(repo, col, cinfo, kind)

    # ---- defaults
    _check_defaults(repo, col, spec, chan, syn)
    # ---- rename
    _check_rename(repo, col)
    col.rule("R-C04-interface", "every channel implements update_states / compute_current / init_state with the interface's parameter order", 12)
    kin.interface_agreement(repo, col, "R-C04-interface", "Channel", ("update_states", "compute_current", "init_state"), 12)
    col.info["programs"] = programs
    col.info["disagreements_checked"] = sum(1 for o in col.obs if o.rule == "R-C04-eq" and o.status != "DISCHARGED")


def _sibling_gate_calls(repo, col, name, sp, cinfo, R="R-C04-eq"):
    """update_states, init_state (and compute_current) of one mechanism call its gate functions: every call of a gate must
    hand over the same quantities (the voltage and the same entries of `params`).  A call that drops an argument (falling
    back to a default added to the gate's signature) makes the initial state / current belong to other kinetics than the
    update."""
    from . import idx as _idx
    calls = {}
    for mname in ("update_states", "init_state", "compute_current"):
        m = cinfo.methods.get(mname)
        if m is None:
            continue
        ex = _idx.expander(repo, m)
        for c in ex.calls:
            if isinstance(c.func, ast.Attribute) and isinstance(c.func.value, ast.Name) and c.func.value.id == "self" and c.func.attr in sp["gates"]:
                t = ex.term(c)
                sig = tuple(a.key() for a in t.args[1:]) + tuple(sorted((k, v.key()) for k, v in t.kw.items()))
                calls.setdefault(c.func.attr, []).append((mname, sig, c, m))
    for gate, lst in sorted(calls.items()):
        sigs = {sig for _m, sig, _c, _fi in lst}
        if len(lst) < 2:
            continue
        ref = lst[0]
        for mname, sig, c, m in lst[1:]:
            col.check(sig == ref[1], R, m, f"{name}.{mname} evaluates {gate} with the same arguments as {ref[0]}",
                      f"{len(sig)} argument(s)",
                      f"`{unparse(c)}` in {mname} and `{unparse(ref[2])}` in {ref[0]} hand different arguments to the same gate function: "
                      f"a dropped argument silently takes the default of the gate's signature, so the state written by {mname} belongs "
                      f"to other kinetics than the update", node=c)


def clipped_exponentials(repo, col, R, ev, fi, name, fn, refs):
    """Every exponential in the mechanisms is save_exp(u) = exp(min(u, 20)).  Two algebraically equal ways of writing a
    rate (multiplying numerator and denominator by exp(c), merging exp(a)/exp(b) into exp(a-b)) therefore differ as soon as
    one of THEIR exponents exceeds 20, and with steeper exponents that happens at smaller voltages (inside [-200, 200] mV).
    Obligation: the exponent arguments that the gate function itself hands to save_exp (outside the singularity helpers)
    are exactly arguments that occur in the published form; a new exponent is a change of the kinetics at large |v|."""
    code_args = []
    for kind_, x, stack, node in ev.atoms.clip_sites:
        stack = kin.real_stack(stack)
        if kind_ != "clip" or not stack or not stack[-1].endswith("save_exp") or len(stack) < 2 or not stack[-2].endswith("." + fn):
            continue
        for _c, r in as_pw(x).pieces:
            code_args.append((r, node))
    ev2 = kin.new_eval(repo)
    for r in refs:
        kin.ref(ev2, r)
    ref_args = list(ev2.atoms.exp_args)
    extra = []
    for r, node in code_args:
        if not any(r.eq(q) for q in ref_args):
            extra.append((r, node))
    col.check(not extra, R, fi, f"{fn}: exponentials taken by the gate function are those of the published form",
              f"{len(code_args)} clipped exponentials, all published",
              f"{name}.{fn} evaluates save_exp({extra[0][0] if extra else ''}), an exponent that the published form "
              f"`{' | '.join(refs)}` does not contain: exp is clipped at 20, so this rewriting saturates at other voltages than the published "
              f"one (the rate differs inside the voltage range although the formulas are algebraically equal)", node=extra[0][1] if extra else fi.node)


def update_laws(repo, col, R, name, sp, cinfo, kind) -> int:
    """Rate and steady state of every state update against the reference equations (spec/kinetics.txt)."""
    programs = 0
    if sp["states"] or "update_states" in cinfo.methods:
        ev = kin.new_eval(repo)
        fi = repo.method(name, "update_states")
        try:
            upd, S, P = kin.call_update(ev, repo, name, kind)
            for kind_, stack, node_ in kin.foreign_saturation(ev):
                col.bad(R, fi, f"update_states: `{kind_}` inside the published kinetics",
                        f"`{unparse(node_)[:70]}` saturates a quantity of {name}.update_states; the published equations "
                        f"have no such bound, so the kinetics differ wherever the bound is active", node=node_)
            keys = set(upd) | set(sp["states"])
            for key in sorted(keys):
                programs += 1
                if key not in sp["states"]:
                    col.bad(R, fi, f"update of {key}", "state update without a published law",
                            node=fi.node)
                    continue
                if key not in upd:
                    col.bad(R, fi, f"update of {key}",
                            "published state is not updated by update_states", node=fi.node)
                    continue
                skind, ra, rb = sp["states"][key]
                new = kin.main_region(upd[key])
                own_atom = f"S[{key}]"
                foreign = sorted(a_ for a_ in new.atoms() if a_.startswith("S[") and a_ != own_atom)
                if own_atom not in new.atoms() and foreign:
                    col.bad(R, fi, f"update of {key}: advances its own previous value",
                            f"the new value of `{key}` does not depend on the old value of `{key}` but on {foreign}: the gate is "
                            f"advanced from another state's value, which is not the solution of its own equation", node=fi.node)
                    continue
                try:
                    k, xinf, E = kin.decompose_update(ev, new, own_atom)
                except Und as e_:
                    col.unk(R, fi, f"update of {key}", f"outside the analysable fragment: {e_}", node=fi.node)
                    continue
                a, b = kin.ref(ev, ra), kin.ref(ev, rb)
                if skind == "ab":
                    k_ref, x_ref = a + b, a / (a + b)
                else:
                    k_ref, x_ref = ONE / b, a
                col.check(k.eq(k_ref), R, fi, f"update of {key}: rate 1/tau",
                          "rate of the exponential update equals the published 1/tau",
                          f"the update of {key} relaxes with a rate different from the published one",
                          node=fi.node, sides={"code": repr(k)[:400], "reference": repr(k_ref)[:400]})
                col.check(xinf.eq(x_ref), R, fi, f"update of {key}: steady state",
                          "target of the exponential update equals the published steady state",
                          f"the update of {key} relaxes toward a value different from the published steady state",
                          node=fi.node, sides={"code": repr(xinf)[:400], "reference": repr(x_ref)[:400]})
        except Und as e:
            col.unk(R, fi, "update_states", f"outside the analysable fragment: {e}", node=fi.node)

    return programs


def _taylor_exprel(ev_, args, kw):
    """exprel(u) near u = 0: 1 - u/2 + u^2/12 (used only to take the value at the singular point)."""
    u = rat_of(args[0])
    return PW.of(ONE - u / Rat.const(2) + u * u / Rat.const(12))


def _guard_regions(col, ev, fi, name, fn, value, ref_text, args):
    """On every guarded region |u| < eps of a rate, the code's value at the singular voltage must equal
    the published rate there (exprel filled with its limit)."""
    from sa.algebra import as_pw

    pw = as_pw(value)
    for conds, piece in pw.pieces:
        true_guards = [g for g, b in conds if b]
        if not true_guards:
            continue
        for g in true_guards:
            gkind, lhs, bound = ev.guards[g]
            if gkind != "abs<" or "v" not in lhs.atoms():
                col.unk("R-C04-eq", fi, f"{fn}: guarded region", "guard is not |affine(v)| < eps", node=fi.node)
                continue
            ac = kin.affine_in(lhs, "v")
            if ac is None or ac[0].is_zero():
                col.unk("R-C04-eq", fi, f"{fn}: guarded region", "cannot solve the guard for v", node=fi.node)
                continue
            v0 = -ac[1] / ac[0]
            ev2 = kin.new_eval(ev.repo)
            ev2.opaque_calls["exprel"] = _taylor_exprel
            # reference at the singular voltage, with the same atom table as the code side
            ev2.atoms = ev.atoms
            try:
                want0 = kin.subst_var(ev, kin.ref(ev2, ref_text), "v", v0)
                got0 = kin.subst_var(ev, piece, "v", v0)
            except Und as e:
                col.unk("R-C04-eq", fi, f"{fn}: value at the removable singularity v = {v0}", str(e), node=fi.node)
                continue
            col.check(got0.eq(want0), "R-C04-eq", fi, f"{fn}: value at the removable singularity v = {v0}",
                      "equals the published rate (singularity filled with its limit)",
                      f"at v = {v0} the guarded branch of {name}.{fn} evaluates to {got0} but the published rate is {want0}",
                      node=fi.node, sides={"code": repr(got0), "reference": repr(want0)})


def _return_elt(fn: ast.FunctionDef, i: int):
    for n in walk_no_nested(fn):
        if isinstance(n, ast.Return) and isinstance(n.value, ast.Tuple) and len(n.value.elts) > i:
            return n.value.elts[i]
    return fn


def _check_keys(repo, col, cinfo, kind, R="R-C04-keys", methods=("update_states", "compute_current", "init_state")):
    pa, sa_ = ("channel_params", "channel_states") if kind == "channel" else ("synapse_params", "synapse_states")
    dp, ds = _declared(repo, cinfo, pa), _declared(repo, cinfo, sa_)
    init = cinfo.methods.get("__init__")
    if dp is None or ds is None:
        col.unk(R, cinfo.file, f"{cinfo.name}.__init__", f"{pa}/{sa_} are not dict displays",
                func=f"{cinfo.name}.__init__")
        return
    for pat, (k, _v, knode) in list(dp.items()) + list(ds.items()):
        if pat is None:
            col.unk(R, init, knode, "key is neither a literal nor built from self._name")
        else:
            # a prefixed key must be built from self._name, never from the literal class name
            lit_cls = k == "literal" and pat.startswith(cinfo.name + "_")
            col.check(not lit_cls, R, init, f"declared key {pat}",
                      "declared key is unprefixed or built from self._name",
                      f"key `{pat}` hard-codes the class name; renaming the mechanism would not rename it",
                      node=knode)
    for mname in methods:
        if mname not in cinfo.methods:
            continue
        fi = cinfo.methods[mname]
        pn = _prefix_names(fi.node)
        params = fi.params
        dynamic_keys = False
        # which parameter is the states dict / the params dict
        for n in ast.walk(fi.node):
            if isinstance(n, ast.Subscript) and isinstance(n.value, ast.Name) and n.value.id in ("states", "params"):
                pat, k = _pattern_of_key(n.slice, pn, fi.node)
                decl = ds if n.value.id == "states" else dp
                if pat is None:
                    dynamic_keys = True
                    continue
                col.check(pat in decl, R, fi, f"{n.value.id}[{pat}]",
                          "key is declared by the class",
                          f"`{unparse(n)}` reads key pattern `{pat}` which {cinfo.name} does not declare in "
                          f"{'its states' if n.value.id == 'states' else 'its parameters'} "
                          f"(declared: {sorted(p for p in decl if p)})", node=n)
        if dynamic_keys:
            # keys computed at run time (a loop over a table of gates): take the keys the abstract evaluation reads/returns
            try:
                ev = kin.new_eval(repo)
                if mname == "update_states":
                    r, S, P = kin.call_update(ev, repo, cinfo.name, kind)
                elif mname == "init_state":
                    r, S, P = kin.call_init(ev, repo, cinfo.name)
                else:
                    r, S, P = kin.call_current(ev, repo, cinfo.name, kind)
                for d, decl, what in ((S, ds, "states"), (P, dp, "params")):
                    for key in sorted(set(d.reads)):
                        col.check(key in decl, R, fi, f"{what}[{key}] (key computed at run time)", "key is declared by the class",
                                  f"{mname} reads key `{key}` which {cinfo.name} does not declare (declared: {sorted(p for p in decl if p)})",
                                  node=fi.node)
                if isinstance(r, dict) and mname != "compute_current":
                    for key in r:
                        col.check(key in ds, R, fi, f"returned key {key} (computed at run time)", "returned key is a declared state",
                                  f"{mname} returns key `{key}` which is not a declared state of {cinfo.name}", node=fi.node)
            except Und as e:
                col.unk(R, fi, f"{mname}: keys computed at run time", f"outside the analysable fragment: {e}", node=fi.node)
        # returned dict keys must be declared states
        for n in walk_no_nested(fi.node):
            if isinstance(n, ast.Return) and isinstance(n.value, ast.Dict) and mname != "compute_current":
                for kx in n.value.keys:
                    pat, k = _pattern_of_key(kx, pn, fi.node)
                    col.check(pat in ds, R, fi, f"returned key {pat}",
                              "returned key is a declared state",
                              f"{mname} returns key `{pat}` which is not a declared state of {cinfo.name}", node=kx)


def _num(v):
    try:
        return Fr(repr(ast.literal_eval(v)))
    except Exception:
        return None


def _check_defaults(repo, col, spec, chan, syn):
    shared = {}
    for name, cinfo in chan.items():
        dp = _declared(repo, cinfo, "channel_params")
        if dp is None:
            continue
        init = cinfo.methods["__init__"]
        for pat, (k, v, knode) in dp.items():
            if pat is None:
                continue
            val = _num(v)
            if name in spec and pat in spec[name]["params"]:
                want = spec[name]["params"][pat]
                col.check(val == want, "R-C04-defaults", init, f"default of {pat}",
                          "equals the published default",
                          f"default of {pat} is {unparse(v)}, the published value is {float(want)}", node=v)
            if k == "literal":
                shared.setdefault(pat, []).append((name, val, init, v))
            if pat.split("_")[-1].startswith("g") and val is not None:
                col.check(val > 0, "R-C04-defaults", init, f"conductance default {pat} > 0",
                          "positive", f"conductance default {pat} = {unparse(v)} is not positive", node=v)
    for pat, lst in sorted(shared.items()):
        if len(lst) < 2:
            continue
        vals = {x[1] for x in lst}
        for name, val, init, v in lst:
            col.check(len(vals) == 1, "R-C04-defaults", init, f"shared parameter {pat}",
                      f"same default in {[x[0] for x in lst]}",
                      f"parameter `{pat}` is stored under one unprefixed name by {[x[0] for x in lst]} with "
                      f"different defaults {sorted(float(x) for x in vals if x is not None)}: the value depends on insertion order",
                      node=v)


def _dict_rewrite(repo, fi, ex, t):
    from . import idx
    """(key map K, value map V, source dict) of `{K: V for k, v in SRC.items()}` -- written as a dict comprehension or as
    a helper that fills a fresh dict in a loop over `entries.items()` -- with the iteration key / value replaced by the
    placeholders KEY / VAL.  None if `t` is not such a rewriting."""
    from sa.terms import T as _T
    K = V = it = None
    if t.op == "dictcomp" and len(t.args) == 3:
        K, V, it = t.args
    elif t.op == "call":
        top = ex
        ne = top.nested.get(t.name)
        if ne is None:
            r = repo.resolve_name(repo.mods[fi.file], t.name)
            from sa.core import FuncInfo
            ne = idx.expander(repo, r) if isinstance(r, FuncInfo) else None
        m = idx._bind(ne.fi.node, list(t.args), t.kw) if ne is not None else None
        fills = [s_ for s_ in ne.stores if s_.kind == "sub" and s_.base.op in ("dict", "call") and all(g.op == "loop" for g in s_.guards) and s_.guards] if ne is not None else []
        if not (m is None or len(fills) != 1 or len(ne.returns) != 1 or ne.returns[0].key() != fills[0].base.key()):
            f_ = fills[0]
            K, V, it = idx.subst(f_.key, m), idx.subst(f_.value, m), idx.subst(f_.guards[-1].args[0], m)
    elif t.op == "dict" and not t.args:
        # a fresh dictionary filled in a loop of this function:  d = {}; for k, v in SRC.items(): d[K(k)] = V(v)
        fills = [s_ for s_ in ex.stores if s_.kind == "sub" and s_.base.op == "dict" and s_.base.node is t.node and
                 s_.guards and all(g.op == "loop" for g in s_.guards)]
        if len(fills) != 1 or len(fills[0].guards) != 1:
            return None
        f_ = fills[0]
        K, V, it = f_.key, f_.value, f_.guards[0].args[0]
        # the key map may be a local helper (`rename(key)`)
        K = idx.inline(repo, fi, K, value_only=True)
        V = idx.inline(repo, fi, V, value_only=True)
    if K is None:
        # any other way of filling a fresh dictionary entry by entry (in this function or in a helper) is the comprehension it
        # amounts to (sa.terms: loop == comprehension)
        from sa.terms import fuse_comprehensions as _fuse
        tf = _fuse(idx.inline(repo, fi, t, value_only=True))
        if tf.op == "dictcomp" and len(tf.args) == 3:
            K, V, it = tf.args
    if K is None:
        return None
    if not (it.op == "mcall" and it.name == "items"):
        return None
    el = _T("elem", None, [it])
    k0, k1 = _T("item", 0, [el]).key(), _T("item", 1, [el]).key()
    src_key = it.args[0].key()

    def ph(x):
        if x.key() == k0:
            return _T("free", "KEY")
        if x.key() == k1 or (x.op == "sub" and x.args[0].key() == src_key and x.args[1].key() == k0):
            return _T("free", "VAL")     # v of `for k, v in d.items()`, also in its normal form d[k]
        if not x.args and not x.kw:
            return x
        return _T(x.op, x.name, [ph(a_) for a_ in x.args], {k_: ph(v_) for k_, v_ in x.kw.items()}, x.node)
    return ph(K), ph(V), it.args[0]


def _prefix_swap_verdict(K, new_param):
    """'ok' if K maps  old_name + "_" + rest -> new_name + "_" + rest  and every other key to itself; 'bad' if it is a
    recognisable different map; None if not recognised."""
    from sa.terms import canon
    K = canon(K)
    is_key = lambda x: x.op == "free" and x.name == "KEY"

    def is_old(x):  # self._name + "_"
        return x.op == "binop" and x.name == "+" and x.args[0].op == "attr" and x.args[0].name == "_name" and \
            x.args[1].op == "const" and x.args[1].name == "_"

    def is_new(x):  # new_name + "_"
        return x.op == "binop" and x.name == "+" and x.args[0].op == "param" and x.args[0].name == new_param and \
            x.args[1].op == "const" and x.args[1].name == "_"
    if K.op != "ifexp":
        return "bad" if is_key(K) or T.find(K, is_key) is not None else None
    c, a_, b_ = K.args
    if not (c.op == "mcall" and c.name == "startswith" and len(c.args) == 2 and is_key(c.args[0])):
        return None
    if not is_old(c.args[1]):
        return "bad"
    rest_ok = False
    if a_.op == "binop" and a_.name == "+" and is_new(a_.args[0]):
        r = a_.args[1]
        rest_ok = (r.op == "sub" and is_key(r.args[0]) and r.args[1].op == "slice" and r.args[1].args[0].op == "call" and
                   r.args[1].args[0].name == "len" and is_old(r.args[1].args[0].args[0]) and
                   r.args[1].args[1].op == "const" and r.args[1].args[1].name is None) or \
                  (r.op == "mcall" and r.name == "removeprefix" and is_key(r.args[0]) and is_old(r.args[1]))
    elif a_.op == "mcall" and a_.name == "replace" and len(a_.args) == 4 and is_key(a_.args[0]):
        rest_ok = is_old(a_.args[1]) and is_new(a_.args[2]) and a_.args[3].op == "const" and a_.args[3].name == 1
    return "ok" if (rest_ok and is_key(b_)) else "bad"


def _check_rename(repo, col):
    from . import idx
    ch = repo.method("Channel", "change_name")
    sy = repo.method("Synapse", "change_name")
    maps = {}
    for fi, (pa, st) in ((ch, ("channel_params", "channel_states")), (sy, ("synapse_params", "synapse_states"))):
        ex = idx.expander(repo, fi)
        newp = fi.params[1] if len(fi.params) > 1 else None
        sets = [s_ for s_ in ex.stores if s_.kind == "attr" and s_.key.name == "_name" and s_.base.op == "param" and s_.base.name == "self"]
        ok_name = bool(sets) and all(s_.value.op == "param" and s_.value.name == newp for s_ in sets)
        col.check(bool(ok_name), "R-C04-rename", fi, "self._name = new_name",
                  "_name is updated to the new name", "change_name does not set _name to the new name", node=fi.node)
        rw = {}
        for d in (pa, st):
            s_ = next((x for x in ex.stores if x.kind == "attr" and x.key.name == d and x.base.op == "param" and x.base.name == "self"), None)
            rw[d] = _dict_rewrite(repo, fi, ex, s_.value) if s_ is not None else None
            if s_ is None:
                col.bad("R-C04-rename", fi, f"{d} rewriting", f"`{d}` is not rewritten by change_name: its keys keep the old prefix", node=fi.node)
            elif rw[d] is None:
                derives = T.find(s_.value, lambda x: x.op == "attr" and x.name == d and x.args[0].op == "param" and x.args[0].name == "self") is not None
                col.add("R-C04-rename", fi, f"{d} rewriting", "UNDECIDED" if derives else "VIOLATED",
                        f"not a key-by-key rewriting of the dictionary: {s_.value.short(80)}" if derives else
                        f"the new `{d}` is {s_.value.short(80)}: it is not computed from the old `self.{d}`, so the values the mechanism "
                        f"carried (defaults changed by the user) are lost by the renaming", node=s_.node)
        if rw.get(pa) and rw.get(st):
            (Ka, Va, Sa), (Kb, Vb, Sb) = rw[pa], rw[st]
            from sa.terms import canon as _canon
            # a local helper that computes the new key (`renamed(key)`, with an early return for the keys that stay) is looked through
            Ka, Kb = (_canon(idx.inline(repo, fi, K_, value_only=True)) for K_ in (Ka, Kb))
            own = lambda S, d: S.op == "attr" and S.name == d and S.args[0].op == "param" and S.args[0].name == "self"
            same = Ka.key() == Kb.key() and Va.key() == Vb.key() and own(Sa, pa) and own(Sb, st)
            col.check(same, "R-C04-rename", fi, f"{pa} / {st} rewriting",
                      "both dictionaries are rewritten from themselves by the same key map",
                      f"{pa} and {st} are rewritten differently: {Ka.short(60)} over {Sa.short(30)} vs {Kb.short(60)} over {Sb.short(30)}", node=fi.node)
            col.check(Va.op == "free" and Va.name == "VAL", "R-C04-rename", fi, "values are carried over unchanged", "value -> value",
                      f"values are mapped to {Va.short(60)}", node=fi.node)
            v = _prefix_swap_verdict(Ka, newp)
            col.add("R-C04-rename", fi, "key map of change_name", {"ok": "DISCHARGED", "bad": "VIOLATED", None: "UNDECIDED"}[v],
                    "old prefix is replaced by the new prefix, other keys are kept" if v == "ok" else
                    f"key map `{Ka.short(120)}` is not a prefix swap that leaves unprefixed keys alone", node=fi.node)
            maps[fi.qual] = Ka
    if len(maps) == 2:
        a, b = list(maps.values())
        pa_, pb_ = (f_.params[1] if len(f_.params) > 1 else None for f_ in (ch, sy))
        # both are the prefix swap (each held to the same specification above), or they are written identically
        both_ok = _prefix_swap_verdict(a, pa_) == "ok" and _prefix_swap_verdict(b, pb_) == "ok"
        col.check(both_ok or a.key() == b.key(), "R-C04-rename", sy, "sibling agreement",
                  "Channel.change_name and Synapse.change_name use the same key map",
                  "Channel.change_name and Synapse.change_name rename keys differently", node=sy.node)


def _is_prefix_swap(fn):
    """Structural check of the dict-comprehension key map (nothing is executed).

    Accepted idioms for `key -> new key`:
      new_prefix + key[len(old_prefix):] if key.startswith(old_prefix) else key
      new_prefix + key.removeprefix(old_prefix) if key.startswith(old_prefix) else key
      key.replace(old_prefix, new_prefix, 1) if key.startswith(old_prefix) else key
    """
    found = False
    for n in walk_no_nested(fn):
        if not isinstance(n, ast.DictComp):
            continue
        found = True
        gen = n.generators[0]
        kname = gen.target.elts[0].id if isinstance(gen.target, ast.Tuple) and isinstance(gen.target.elts[0], ast.Name) else None
        if kname is None:
            return False
        k = n.key
        if not isinstance(k, ast.IfExp):
            return False
        if unparse(k.test) != f"{kname}.startswith(old_prefix)" or unparse(k.orelse) != kname:
            return False
        body = unparse(k.body)
        if body not in (
            f"new_prefix + {kname}[len(old_prefix):]",
            f"new_prefix + {kname}.removeprefix(old_prefix)",
            f"{kname}.replace(old_prefix, new_prefix, 1)",
        ):
            return False
        # values are carried over unchanged
        vname = gen.target.elts[1].id if isinstance(gen.target.elts[1], ast.Name) else None
        if unparse(n.value) != vname:
            return False
    if not found:
        return False
    defs = {}
    for n in walk_no_nested(fn):
        if isinstance(n, ast.Assign) and isinstance(n.targets[0], ast.Name):
            defs[n.targets[0].id] = unparse(n.value)
    newp = fn.args.args[1].arg if len(fn.args.args) > 1 else None
    return defs.get("old_prefix") == "self._name + '_'" and defs.get("new_prefix") == f"{newp} + '_'"
