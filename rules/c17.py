"""C17 -- parameter transforms are bounded, monotone bijections."""
from __future__ import annotations

import ast
from fractions import Fraction as Fr

from sa.algebra import (Und, Rat, Poly, PW, ObjV, Atoms, Evaluator, rat_of, as_pw, ONE, ZERO, rat_sign)
from sa.core import AnalysisError, unparse, walk_no_nested
from sa.terms import Expander, T, canon
from . import idx
from . import kin

LEVEL = "other"
TF = "jaxley/optimize/transforms.py"
EXPLANATION = (
    "R-C17-inverse: for Sigmoid, Softplus, NegSoftplus, Affine, inverse(forward(x)) == x and "
    "forward(inverse(y)) == y as identities of canonical forms (exp/log rewrites valid on the "
    "unsaturated domain). R-C17-saturation: a clipped exponential (save_exp/clip/minimum) inside a "
    "declared bijection makes forward constant beyond the clip -- not injective, not strictly monotone. "
    "R-C17-mono: d forward/d exp(x) has a definite sign over positive atoms (upper > lower encoded by "
    "substitution). R-C17-bounds: the limits of forward at x -> -inf/+inf equal the constructor's "
    "declared lower/upper. R-C17-struct: Chain inverts in reverse order with .inverse, Masked uses one "
    "mask both ways and passes the untouched value elsewhere, ParamTransform maps (param, transform) "
    "pairwise with forward/inverse, Custom delegates, no Python branch on the value."
)
ASSUMPTIONS = ["SigmoidTransform is used with upper > lower", "round-off size is not decided", "CustomTransform's functions are user code"]

ELEMENTARY = ["SigmoidTransform", "SoftplusTransform", "NegSoftplusTransform", "AffineTransform"]


def _mk(repo, cls, ev, ctor_args):
    obj = ObjV(cls)
    init = repo.method(cls, "__init__")
    ev.call(init, ctor_args, selfv=obj)
    return obj


def _ctor_atoms(repo, cls):
    """Constructor arguments as atoms; `upper > lower` encoded as upper := lower + W."""
    init = repo.method(cls, "__init__")
    names = init.params[1:]
    vals = {}
    for n in names:
        vals[n] = kin.A(n)
    if "lower" in names and "upper" in names:
        vals["upper"] = PW.of(Rat.atom("lower") + Rat.atom("W"))
    return names, [vals[n] for n in names], vals


def diff_atom(ev, r: Rat, atom: str) -> Rat:
    """Partial derivative w.r.t. an atom; log#i atoms are differentiated by the chain rule."""

    def dp(p: Poly) -> Rat:
        out = ZERO
        for mono, c in p.t.items():
            for i, (a, e) in enumerate(mono):
                rest = tuple(x for j, x in enumerate(mono) if j != i)
                if a == atom:
                    m2 = tuple(sorted(rest + (((a, e - 1),) if e != 1 else ())))
                    out = out + Rat(Poly({m2: c * e}))
                elif a.startswith("log#"):
                    q = ev.atoms.arg_of(a)
                    if atom in q.atoms():
                        dq = diff_atom(ev, q, atom)
                        m2 = tuple(sorted(rest + (((a, e - 1),) if e != 1 else ())))
                        out = out + Rat(Poly({m2: c * e})) * dq / q
                elif "#" in a and not a.startswith("log#"):
                    q = ev.atoms.arg_of(a)
                    if q is not None and atom in q.atoms():
                        raise Und(f"derivative through opaque atom {a}")
        return out

    return (dp(r.n) * Rat(r.d) - Rat(r.n) * dp(r.d)) / Rat(r.d * r.d)


def limit(ev, r: Rat, atom: str, at: str):
    """Limit of the form as atom -> 0+ or +inf.  Returns a Rat, or '+inf' / '-inf', or raises Und."""
    # log atoms: replace by the log of their argument's limit when that is finite and positive
    logs = [a for a in r.atoms() if a.startswith("log#") and atom in ev.atoms.arg_of(a).atoms()]
    if logs:
        # only the form  c*log(q) + rest  (c constant) is handled
        a = logs[0]
        ac = kin.affine_in(r, a)
        if ac is None:
            raise Und("non-affine use of a logarithm")
        c, rest = ac
        if atom in c.atoms():
            raise Und("logarithm with a coefficient that depends on the variable")
        lq = limit(ev, ev.atoms.arg_of(a), atom, at)
        lr = limit(ev, rest, atom, at)
        if isinstance(lq, str):
            sc = rat_sign(c, kin.positive_atoms(ev, [c]) | {"W"})
            if sc is None or isinstance(lr, str):
                raise Und("sign of log coefficient")
            return "+inf" if (lq == "+inf") == (sc > 0) else "-inf"
        if lq.eq(ONE):
            return lr
        if lq.is_zero():
            sc = rat_sign(c, kin.positive_atoms(ev, [c]) | {"W"})
            if sc is None or isinstance(lr, str):
                raise Und("sign of log coefficient")
            return "-inf" if sc > 0 else "+inf"
        return c * ev.atoms.log(lq) + lr if not isinstance(lr, str) else lr
    if atom not in r.atoms():
        return r

    def lead(p: Poly):
        degs = {}
        for mono, c in p.t.items():
            e = Fr(0)
            rest = []
            for a, x in mono:
                if a == atom:
                    e = x
                else:
                    rest.append((a, x))
            degs.setdefault(e, {})
            k = tuple(rest)
            degs[e][k] = degs[e].get(k, 0) + c
        pick = min(degs) if at == "0" else max(degs)
        return pick, Poly(degs[pick])

    dn, ln = lead(r.n)
    dd, ld = lead(r.d)
    if dn == dd:
        return Rat(ln, ld)
    bigger = (dn > dd) if at == "inf" else (dn < dd)
    if not bigger:
        return ZERO
    s = rat_sign(Rat(ln, ld), kin.positive_atoms(ev, [Rat(ln, ld)]) | {"W"})
    if s is None:
        raise Und("sign of a diverging limit")
    return "+inf" if s > 0 else "-inf"


def check(repo, col, tier):
    col.rule("R-C17-inverse", "inverse(forward(x)) == x and forward(inverse(y)) == y on the unsaturated domain", 8)
    col.rule("R-C17-saturation", "no clipped exponential inside a declared bijection", 3)
    col.rule("R-C17-mono", "forward strictly monotone", 4)
    col.rule("R-C17-bounds", "limits of forward equal the declared bounds", 4)
    col.rule("R-C17-struct", "composite transforms delegate correctly", 10)
    mi = repo.mod(TF)
    for cls in ELEMENTARY:
        if cls not in mi.classes:
            raise AnalysisError(f"anchor class {cls} vanished")
    for cls in ELEMENTARY:
        _elementary(repo, col, cls)
    _struct(repo, col)
    _exact_bounds(repo, col, "R-C17-bounds")
    _no_saturation(repo, col, "R-C17-saturation")
    col.rule("R-C17-overflow", "no logarithm of an exponential that can overflow on the domain", 2)
    _overflow(repo, col, "R-C17-overflow")


def _elementary(repo, col, cls):
    fwd, inv = repo.method(cls, "forward"), repo.method(cls, "inverse")
    # ---- identities, clip transparent
    ev = kin.new_eval(repo, transparent=True)
    try:
        names, args, vals = _ctor_atoms(repo, cls)
        obj = _mk(repo, cls, ev, args)
        x = kin.A("x")
        y = ev.call(fwd, [x], selfv=obj)
        ypw = as_pw(y)
        if len(ypw.pieces) > 1:
            # forward is defined piecewise (jnp.where): the identity must hold on every piece, with the SAME inverse
            backpw = as_pw(ev.call(inv, [y], selfv=obj))
            bad = [(kin.region_name(ev, c_), r_) for c_, r_ in backpw.pieces if not r_.eq(Rat.atom("x"))]
            col.check(not bad, "R-C17-inverse", inv, f"{cls}: inverse(forward(x)) == x on every piece of forward",
                      f"{len(backpw.pieces)} pieces",
                      f"forward is defined piecewise; on the region [{bad[0][0] if bad else ''}] inverse(forward(x)) reduces to "
                      f"{bad[0][1] if bad else ''}, not x: the pieces do not fit the one inverse (a jump / kink where they meet makes "
                      f"forward non-monotone or the round trip inexact)", node=fwd.node)
            return
        back = rat_of(ev.call(inv, [y], selfv=obj))
        col.check(back.eq(Rat.atom("x")), "R-C17-inverse", inv, f"{cls}: inverse(forward(x)) == x",
                  "identity of canonical forms", f"inverse(forward(x)) reduces to {back}, not x", node=inv.node,
                  sides={"inverse(forward(x))": repr(back)[:300]})
        ev2 = kin.new_eval(repo, transparent=True)
        obj2 = _mk(repo, cls, ev2, _ctor_atoms(repo, cls)[1])
        yy = kin.A("y")
        z = rat_of(ev2.call(fwd, [ev2.call(inv, [yy], selfv=obj2)], selfv=obj2))
        col.check(z.eq(Rat.atom("y")), "R-C17-inverse", fwd, f"{cls}: forward(inverse(y)) == y",
                  "identity of canonical forms", f"forward(inverse(y)) reduces to {z}, not y", node=fwd.node,
                  sides={"forward(inverse(y))": repr(z)[:300]})
    except Und as e:
        col.unk("R-C17-inverse", fwd, f"{cls}", f"outside the analysable fragment: {e}", node=fwd.node)
        return
    # ---- saturation: clip sites reached from forward / inverse
    evs = kin.new_eval(repo, transparent=True)
    objs = _mk(repo, cls, evs, _ctor_atoms(repo, cls)[1])
    evs.atoms.clip_sites.clear()
    evs.call(fwd, [kin.A("x")], selfv=objs)
    n_f = len(evs.atoms.clip_sites)
    evs.call(inv, [kin.A("y")], selfv=objs)
    n_i = len(evs.atoms.clip_sites) - n_f
    col.check(n_f == 0, "R-C17-saturation", fwd, f"{cls}.forward: clipped exponential",
              "forward uses no saturating primitive",
              f"{cls}.forward routes through a clipped exponential (save_exp = exp(min(x, 20))): beyond the clip "
              f"forward is constant, so it is neither injective nor strictly monotone and inverse(forward(x)) != x",
              node=fwd.node)
    col.check(n_i == 0, "R-C17-saturation", inv, f"{cls}.inverse: clipped exponential",
              "inverse uses no saturating primitive",
              f"{cls}.inverse routes through a clipped exponential: forward(inverse(y)) != y beyond the clip",
              node=inv.node)
    # ---- monotonicity and bounds
    yv = rat_of(y)
    exp_atoms = sorted(a for a in yv.atoms() | _log_inner_atoms(ev, yv) if a.startswith("exp["))
    if not exp_atoms:
        # affine in x
        try:
            d = diff_atom(ev, yv, "x")
        except Und as e:
            col.unk("R-C17-mono", fwd, f"{cls}: d forward/dx", str(e), node=fwd.node)
            return
        init = repo.method(cls, "__init__")
        guard = any(isinstance(n, ast.If) and any(isinstance(b, ast.Raise) for b in n.body) for n in walk_no_nested(init.node))
        nz_atoms = d.atoms()
        ok = (not d.is_zero()) and "x" not in nz_atoms and guard
        col.check(ok, "R-C17-mono", fwd, f"{cls}: d forward/dx = {d}",
                  "derivative is a constant that the constructor rejects when it is zero",
                  f"forward has derivative {d}; strict monotonicity is not ensured (constructor guard present: {guard})",
                  node=fwd.node)
        col.ok("R-C17-bounds", fwd, f"{cls}: unbounded affine map", "no bounds declared", node=fwd.node)
        return
    E = exp_atoms[0]
    try:
        d = diff_atom(ev, yv, E)
        pos = kin.positive_atoms(ev, [d]) | {"W"}
        s = rat_sign(d, pos)
        col.add("R-C17-mono", fwd, f"{cls}: d forward/d exp(x)",
                "DISCHARGED" if s in (1, -1) else "UNDECIDED",
                f"derivative has definite sign {s} for all x" if s else f"sign of {d} not decided", node=fwd.node)
        lo, hi = limit(ev, yv, E, "0"), limit(ev, yv, E, "inf")
        if s == -1:
            lo, hi = hi, lo
    except Und as e:
        col.unk("R-C17-bounds", fwd, f"{cls}: range of forward", str(e), node=fwd.node)
        return
    declared_lo = rat_of(vals["lower"]) if "lower" in vals else None
    declared_hi = rat_of(vals["upper"]) if "upper" in vals else None

    def show(v):
        return v if isinstance(v, str) else repr(v)

    def same(v, decl, inf):
        if decl is None:
            return v == inf
        return (not isinstance(v, str)) and v.eq(decl)

    col.check(same(lo, declared_lo, "-inf"), "R-C17-bounds", fwd, f"{cls}: infimum of forward",
              f"inf = {show(lo)} equals the declared lower bound" if declared_lo is not None else "unbounded below as declared",
              f"{cls}({', '.join(names)}): the infimum of forward is {show(lo)}, the declaration says "
              f"{'lower = ' + repr(declared_lo) if declared_lo is not None else 'no lower bound'}", node=fwd.node)
    col.check(same(hi, declared_hi, "+inf"), "R-C17-bounds", fwd, f"{cls}: supremum of forward",
              f"sup = {show(hi)} equals the declared upper bound" if declared_hi is not None else "unbounded above as declared",
              f"{cls}({', '.join(names)}): the supremum of forward is {show(hi)}, the declaration says "
              f"{'upper = ' + repr(declared_hi) if declared_hi is not None else 'no upper bound'}", node=fwd.node)


def _overflow(repo, col, R):
    """A composite like log(exp(z) - 1) is representable (it is ~ z) where its intermediate exp(z) is not (z > 709 in float64, 88 in
    float32): the transform returns inf for a finite, representable input.  An overflow inside 1 / (1 + exp(.)) is benign -- it
    saturates to the representable limit -- so the obligation is about logarithms only: whatever is handed to log / log1p contains
    no exp / expm1 / cosh / sinh / power of an argument that can be large and positive on the method's domain.  The sign of the
    argument is decided semantically: the method is evaluated on its domain (forward on a free x, inverse on y = forward(x)), the
    exact form of every exponent is recorded, and it must be negative for all values of the atoms (exp atoms and log(1 + positive)
    are positive, widths are positive)."""
    EXPS = ("exp", "expm1", "exp2", "cosh", "sinh", "power", "float_power")
    LOGS = ("log", "log1p", "log2", "log10")
    mi = repo.mod(TF)
    seen = {}     # id(call node) -> list of signs (+1 / -1 / None) over all evaluations that reached it

    def record(ev, name):
        orig = ev.PRIMS.get(name)
        if orig is None:
            return

        def prim(self_, args, kw, node, _orig=orig):
            for _c, r in as_pw(args[0]).pieces:
                pos = kin.positive_atoms(self_, [r]) | {"W"}
                for a_ in r.atoms():
                    if a_.startswith("log#"):
                        inner = self_.atoms.arg_of(a_) - ONE
                        if rat_sign(inner, kin.positive_atoms(self_, [inner]) | {"W"}) == 1:
                            pos.add(a_)         # log(1 + positive) > 0
                seen.setdefault(id(node), []).append(rat_sign(r, pos) if not r.eq(ZERO) else -1)
            return _orig(self_, args, kw, node)
        ev.PRIMS[name] = prim
    for cls in ELEMENTARY:
        try:
            ev = kin.new_eval(repo, transparent=True)
            ev.PRIMS = dict(ev.PRIMS)
            for nm in ("exp", "expm1"):
                record(ev, nm)
            obj = _mk(repo, cls, ev, _ctor_atoms(repo, cls)[1])
            y = ev.call(repo.method(cls, "forward"), [kin.A("x")], selfv=obj)
            ev.call(repo.method(cls, "inverse"), [y], selfv=obj)
        except Und:
            pass        # R-C17-inverse reports what cannot be evaluated; unreached exponentials count as unbounded below
    n = 0
    for cname, ci in sorted(mi.classes.items()):
        for mname in ("forward", "inverse"):
            if mname not in ci.methods:
                continue
            fi = ci.methods[mname]
            local = {st.targets[0].id: st.value for st in ast.walk(fi.node) if isinstance(st, ast.Assign) and len(st.targets) == 1 and isinstance(st.targets[0], ast.Name)}

            def risky(e, depth=0):
                out = []
                for c in ast.walk(e):
                    if isinstance(c, ast.Call) and unparse(c.func).split(".")[-1] in EXPS and c.args:
                        signs = seen.get(id(c))
                        if not signs or any(s_ != -1 for s_ in signs):
                            out.append(c)
                    if isinstance(c, ast.Name) and c.id in local and depth < 4:
                        out += risky(local[c.id], depth + 1)
                return out
            for c in ast.walk(fi.node):
                if isinstance(c, ast.Call) and unparse(c.func).split(".")[-1] in LOGS and c.args:
                    n += 1
                    bad = risky(c.args[0])
                    col.check(not bad, R, fi, f"{cname}.{mname}: `{unparse(c)[:60]}` takes the logarithm of nothing that can overflow", "every exponent is <= 0 on the domain",
                              f"`{unparse(bad[0])[:50] if bad else ''}` is evaluated before the logarithm and its argument is not bounded above on the domain of "
                              f"{mname}: for inputs beyond ~709 (float64; ~88 in float32) it is inf and so is the result, although the result itself (about "
                              f"the size of the input) is representable -- inverse(forward(x)) != x for a finite x", node=bad[0] if bad else c)
    if n < 2:
        raise AnalysisError(f"only {n} logarithms found in the transforms")


defs = {}


def _no_saturation(repo, col, R):
    """A declared bijection is strictly monotone on all of R: its forward / inverse contain no saturating primitive at all (clip,
    minimum, maximum, a `where` that substitutes a constant) -- whatever the bound is computed from (`finfo(float32).eps`, ...), beyond it
    the map is constant, so it is not injective and inverse(forward(x)) != x there.  (Decided on the syntax, so it also holds when
    the evaluation of the method is outside the analysable fragment.)"""
    mi = repo.mod(TF)
    for cls in ELEMENTARY:
        for mname in ("forward", "inverse"):
            fi = repo.method(cls, mname)
            sat = [c for c in ast.walk(fi.node) if isinstance(c, ast.Call) and unparse(c.func).split(".")[-1] in ("clip", "minimum", "maximum", "fmin", "fmax", "nan_to_num")]
            col.check(not sat, R, fi, f"{cls}.{mname}: no saturating primitive", "strictly monotone on all of R",
                      f"`{unparse(sat[0])[:70] if sat else ''}` saturates: {cls}.{mname} is constant beyond the bound (under x64 already for |x| > ~16 if the bound is a "
                      f"float32 epsilon), neither injective nor invertible there", node=sat[0] if sat else fi.node)


def _exact_bounds(repo, col, R):
    """The interval a transform maps onto is the one DECLARED: whatever the constructor stores is computed from its arguments in
    the precision they were given in.  A narrowing cast (dtype=float32 / float16 / bfloat16 / an integer type, `.astype` to one of
    them) moves the bounds to the nearest representable number: forward() then leaves the declared interval by up to one float32 ulp
    under x64, and inverse() of a value between the two intervals is nan / -inf."""
    NARROW = ("float32", "float16", "bfloat16", "half", "single", "int32", "int16", "int8", "int64", "int", "uint8", "int_")
    mi = repo.mod(TF)
    n = 0
    for cname, ci in sorted(mi.classes.items()):
        if "__init__" not in ci.methods:
            continue
        fi = ci.methods["__init__"]
        bad = None
        for c in ast.walk(fi.node):
            if not isinstance(c, ast.Call):
                continue
            fn = unparse(c.func).split(".")[-1]
            dt = next((k.value for k in c.keywords if k.arg == "dtype"), None)
            if fn == "astype" and c.args:
                dt = c.args[0]
            if dt is None and fn in NARROW and unparse(c.func).split(".")[0] in ("jnp", "np", "jax"):
                dt = c.func
            if dt is not None and unparse(dt).split(".")[-1].strip("'\"") in NARROW:
                bad = c
        n += 1
        col.check(bad is None, R, fi, f"{cname}.__init__ stores what it is given in the precision it is given in", "no narrowing cast",
                  f"`{unparse(bad)[:70] if bad else ''}` narrows a constructor argument: under x64 the stored bound is the nearest float32, so forward() "
                  f"leaves the declared interval near saturation and inverse() of a value in the gap is not finite", node=bad or fi.node)
    if n < 5:
        raise AnalysisError(f"only {n} transform constructors found")
    # the mask of a MaskedTransform selects ENTRIES: it is stored with the shape it was given in (a (n, 1) column mask broadcasts over
    # rows, the same mask squeezed to (n,) broadcasts over columns)
    mt = mi.classes.get("MaskedTransform")
    if mt is not None and "__init__" in mt.methods:
        fi = mt.methods["__init__"]
        ex = idx.expander(repo, fi)
        st = [s_ for s_ in ex.stores if s_.kind == "attr" and s_.key.name == "mask"]
        if not st:
            col.unk(R, fi, "MaskedTransform stores the mask with the shape it is given in", "store not found", node=fi.node)
        for s_ in st:
            t = s_.value
            while t.op in ("mcall", "call") and t.name in ("asarray", "array", "astype", "copy") and t.args:
                t = next((a_ for a_ in t.args if a_.op != "free"), t.args[0])
            reshaped = T.find(s_.value, lambda x: (x.op in ("mcall", "call") and x.name in ("squeeze", "ravel", "flatten", "reshape", "atleast_1d", "any", "all", "transpose")) or
                              (x.op == "attr" and x.name == "T"))
            col.add(R, fi, "MaskedTransform stores the mask with the shape it is given in", "DISCHARGED" if t.op == "param" else ("VIOLATED" if reshaped is not None else "UNDECIDED"),
                    "self.mask = mask" if t.op == "param" else
                    f"the mask is stored as `{s_.value.short(70)}`: a mask with a broadcasting axis (shape (n, 1), to select rows of an (n, k) parameter) then selects "
                    f"other entries -- bounded entries pass through untransformed and untouched ones are transformed, identically in forward and inverse", node=s_.node)


def _log_inner_atoms(ev, r):
    out = set()
    for a in r.atoms():
        if a.startswith("log#"):
            out |= ev.atoms.arg_of(a).atoms()
    return out


# --------------------------------------------------------------------------------------


def _struct(repo, col):
    R = "R-C17-struct"
    # Transform.__call__ -> self.forward(x)
    fi = repo.method("Transform", "__call__")
    ex = Expander(repo, fi)
    ok = len(ex.returns) == 1 and ex.returns[0].op == "mcall" and ex.returns[0].name == "forward" and \
        ex.returns[0].args[0].key() == T("param", "self").key() and ex.returns[0].args[1].op == "param"
    col.check(ok, R, fi, "Transform.__call__ == self.forward(x)", "calling a transform applies forward",
              f"__call__ returns {ex.returns[0].short() if ex.returns else None}", node=fi.node)

    # ... and stays dynamic in every subclass: `__call__` is resolved on the class, so a class-level alias `__call__ = forward` binds
    # THAT class's forward for good -- a subclass that overrides `forward` (NegSoftplusTransform) is then called with its parent's
    # map, and `ChainTransform.forward`, which calls its members, leaves the bound.  A `def __call__` in a subclass must dispatch too.
    fam = [c_ for c_ in repo.classes.values() if c_.name != "Transform" and any(b_.name == "Transform" for b_ in repo.mro(c_.name))]
    subs = lambda c_: [d_ for d_ in fam if d_ is not c_ and any(b_.name == c_.name for b_ in repo.mro(d_.name))]
    for c_ in fam:
        alias = c_.attrs.get("__call__")
        if alias is not None:
            over = [d_.name for d_ in subs(c_) if "forward" in d_.methods]
            col.check(not over, R, repo.method(c_.name, "forward") if "forward" in c_.methods else fi, f"{c_.name}: calling a transform dispatches to the forward of ITS class",
                      "no subclass overrides forward", f"`__call__ = {unparse(alias)}` in the body of {c_.name} binds {c_.name}'s own function; {', '.join(over)} "
                      f"override(s) `forward` but inherit(s) this `__call__`: calling such a transform (as ChainTransform.forward does) applies the parent's map, "
                      f"leaves the bounds and is not undone by `inverse`", node=alias)
        if "__call__" in c_.methods:
            m_ = c_.methods["__call__"]
            exm = Expander(repo, m_)
            okm = len(exm.returns) == 1 and exm.returns[0].op == "mcall" and exm.returns[0].name == "forward" and exm.returns[0].args[0].key() == T("param", "self").key()
            col.check(okm, R, m_, f"{c_.name}.__call__ == self.forward(x)", "dispatches to forward", f"__call__ returns {exm.returns[0].short() if exm.returns else None}", node=m_.node)

    # ChainTransform: forward folds the value through the transforms in order, inverse through their inverses in reverse
    # order -- as a loop `for t in seq: v = t(v)` or as functools.reduce(lambda v, t: t(v), seq, v)
    f, i = repo.method("ChainTransform", "forward"), repo.method("ChainTransform", "inverse")
    for fi, want_rev in ((f, False), (i, True)):
        ex = idx.expander(repo, fi)
        arg = fi.params[1]
        seq_t = step = init_ok = None
        loops = [n for n in walk_no_nested(fi.node) if isinstance(n, ast.For)]
        red = next((c for c in ex.calls if isinstance(c.func, (ast.Name, ast.Attribute)) and unparse(c.func).split(".")[-1] == "reduce"), None)
        if len(loops) == 1 and red is None:
            lp = loops[0]
            seq_t = ex.term(lp.iter)
            tv = lp.target.id if isinstance(lp.target, ast.Name) else None
            if len(lp.body) == 1 and isinstance(lp.body[0], ast.Assign) and isinstance(lp.body[0].value, ast.Call):
                c = lp.body[0].value
                tgt = unparse(lp.body[0].targets[0])
                if len(c.args) == 1 and unparse(c.args[0]) == arg and tgt == arg:
                    fn_txt = unparse(c.func)
                    step = "inverse" if fn_txt == f"{tv}.inverse" else ("forward" if fn_txt in (tv, f"{tv}.forward") else "?")
            rets = [n for n in walk_no_nested(fi.node) if isinstance(n, ast.Return)]
            init_ok = len(rets) == 1 and unparse(rets[0].value) == arg
        elif red is not None and not loops:
            rt = ex.term(red)
            fa = [a_ for a_ in rt.args if a_.op != "free"]
            if len(fa) == 3:
                fn_t, seq_t, init_t = fa
                init_ok = init_t.op == "param" and init_t.name == arg and bool(ex.returns) and ex.returns[0].key() == rt.key()
                lam = fn_t.node
                if not isinstance(lam, ast.Lambda) and isinstance(red.args[0] if red.args else None, ast.Name):
                    # a local `def step(value, transform): return transform(value)` is the same step function
                    d_ = [n for n in ast.walk(fi.node) if isinstance(n, ast.FunctionDef) and n is not fi.node and n.name == red.args[0].id]
                    body_ = [x for x in d_[0].body if not (isinstance(x, ast.Expr) and isinstance(x.value, ast.Constant))] if len(d_) == 1 else []
                    if len(body_) == 1 and isinstance(body_[0], ast.Return) and body_[0].value is not None and not d_[0].decorator_list:
                        lam = ast.Lambda(args=d_[0].args, body=body_[0].value)
                if isinstance(lam, ast.Lambda) and len(lam.args.args) == 2:
                    acc, el = lam.args.args[0].arg, lam.args.args[1].arg
                    body = lam.body
                    if isinstance(body, ast.Call) and len(body.args) == 1 and unparse(body.args[0]) == acc:
                        fn_txt = unparse(body.func)
                        step = "inverse" if fn_txt == f"{el}.inverse" else ("forward" if fn_txt in (el, f"{el}.forward") else "?")
        if seq_t is None or step is None:
            col.unk(R, fi, fi.qual, "neither a single loop nor a reduce over the transforms recognised", node=fi.node)
            continue
        is_rev = (seq_t.op == "call" and seq_t.name == "reversed" and seq_t.args[0].pretty() == "self.transforms") or \
                 (seq_t.op == "sub" and seq_t.args[0].pretty() == "self.transforms" and seq_t.args[1].op == "slice" and
                  seq_t.args[1].args[2].op == "unary")
        is_fwd = seq_t.pretty() == "self.transforms"
        col.check(is_rev if want_rev else is_fwd, R, fi, f"{fi.qual}: iteration order",
                  "forward applies the transforms in order, inverse in reverse order",
                  f"{fi.qual} iterates `{seq_t.short(60)}`", node=fi.node)
        want = "inverse" if want_rev else "forward"
        col.add(R, fi, f"{fi.qual}: loop body",
                "DISCHARGED" if step == want else ("VIOLATED" if step in ("forward", "inverse") else "UNDECIDED"),
                f"each step feeds the running value through the element's {want}" if step == want else
                f"each step applies the element's `{step}` instead of its `{want}`", node=fi.node)
        col.check(bool(init_ok), R, fi, f"{fi.qual}: returns the threaded value", "returns the result of the last step",
                  "does not start from the argument / return the threaded value", node=fi.node)

    # MaskedTransform
    for name, meth in (("forward", "forward"), ("inverse", "inverse")):
        fi = repo.method("MaskedTransform", name)
        ex = Expander(repo, fi)
        arg = fi.params[1]
        ok = False
        detail = ""
        from sa.terms import canon as _canon
        from . import idx as _idx
        if len(ex.returns) == 1:
            r = _canon(_idx.inline(repo, fi, ex.returns[0], value_only=True))     # a private helper shared by both directions is looked through
            if r.op == "mcall" and r.name == "where" and len(r.args) == 4:
                m, a, b = r.args[1], r.args[2], r.args[3]
                # self.transform.<meth>(v), also as a bound method handed to a helper and called there
                direct = a.op == "mcall" and a.name == meth and a.args[0].pretty() == "self.transform" and a.args[1].op == "param" and a.args[1].name == arg
                bound = a.op == "callv" and len(a.args) == 2 and a.args[0].op == "attr" and a.args[0].name == meth and \
                    a.args[0].args[0].pretty() == "self.transform" and a.args[1].op == "param" and a.args[1].name == arg
                ok = m.pretty() == "self.mask" and (direct or bound) and b.op == "param" and b.name == arg
                detail = r.short()
        if not ok and len(ex.returns) == 1:
            r = _canon(_idx.inline(repo, fi, ex.returns[0], value_only=True))
            # arithmetic blending  m * f(v) + ~m * v  evaluates f on every entry and multiplies by 0:
            # NaN/inf of the inner transform outside its range leak into the untouched entries
            if r.op == "binop" and r.name == "+" and all(x.op == "binop" and x.name == "*" for x in r.args) and \
                    any(T.find(x, lambda y: y.op == "attr" and y.name == "mask") is not None for x in r.args):
                detail = ("an arithmetic blend `mask * transform(v) + ~mask * v`: the inner transform is evaluated on the "
                          "untouched entries too and 0 * NaN = NaN, so values outside its range are not passed through unchanged")
        col.add(R, fi, f"MaskedTransform.{name}", "DISCHARGED" if ok else ("VIOLATED" if detail else "UNDECIDED"),
                f"where(self.mask, self.transform.{meth}(v), v): same mask both ways, untouched value elsewhere" if ok
                else f"MaskedTransform.{name} returns {detail or 'an unrecognised form'}", node=fi.node)

    # CustomTransform
    for name, attr in (("forward", "forward_fn"), ("inverse", "inverse_fn")):
        fi = repo.method("CustomTransform", name)
        ex = Expander(repo, fi)
        r = ex.returns[0] if ex.returns else None
        ok = r is not None and r.op == "mcall" and r.name == attr and r.args[0].pretty() == "self" and \
            len(r.args) == 2 and r.args[1].op == "param"
        col.check(ok, R, fi, f"CustomTransform.{name} delegates to self.{attr}", "delegates",
                  f"returns {r.short() if r else None}", node=fi.node)
    init = repo.method("CustomTransform", "__init__")
    exi = Expander(repo, init)
    st = {s.key.name: s.value.pretty() for s in exi.stores if s.kind == "attr"}
    col.check(st.get("forward_fn") == "forward_fn" and st.get("inverse_fn") == "inverse_fn", R, init,
              "CustomTransform stores forward_fn / inverse_fn in their own slots", "stored in their own slots",
              f"constructor stores {st}", node=init.node)

    # ParamTransform: tree_map(f, params, self.tf_dict) with f(x, tf) = tf.<name>(x) -- f may be a lambda or a local function,
    # the method may be looked up with getattr(tf, <constant name>), and the call may sit in a private helper of the class
    for name in ("forward", "inverse"):
        fi = repo.method("ParamTransform", name)
        ex = idx.expander(repo, fi)
        r = ex.returns[0] if ex.returns else None
        owner_ex, binds = ex, {}
        if r is not None and r.op == "mcall" and r.args and r.args[0].op == "param" and r.args[0].name == "self" and \
                r.name in repo.classes["ParamTransform"].methods and r.name != "tree_map":
            g = repo.classes["ParamTransform"].methods[r.name]
            gex = idx.expander(repo, g)
            m = idx._bind(g.node, list(r.args[1:]), r.kw, skip_self=True)
            gr = gex.merged_return()
            if m is not None and gr is not None:
                owner_ex, binds = gex, m
                r = canon(idx.subst(gr, m))
        ok, shape, detail = False, False, r.short(120) if r is not None else None
        if r is not None and r.op == "mcall" and r.name == "tree_map" and len(r.args) == 4:
            fn_t, a, b = r.args[1], r.args[2], r.args[3]
            params_, body = None, None
            if fn_t.op == "lambda" and isinstance(fn_t.node, ast.Lambda):
                params_ = [x.arg for x in fn_t.node.args.args]
                body = fn_t.args[0]
            elif fn_t.op == "localfn" and fn_t.name in owner_ex.nested:
                ne = owner_ex.nested[fn_t.name]
                a_ = ne.fi.node.args
                pos_ = [x.arg for x in a_.posonlyargs + a_.args]
                dflt = dict(zip(pos_[len(pos_) - len(a_.defaults):], a_.defaults)) if a_.defaults else {}
                # tree_map calls the leaf function with the leaves only: parameters with a constant default keep that default
                const_d = {k: T("const", v.value) for k, v in dflt.items() if isinstance(v, ast.Constant)}
                params_ = [p_ for p_ in pos_ if p_ not in dflt]
                mr = ne.merged_return()
                body = canon(idx.subst(mr, {**const_d, **binds})) if (mr is not None and len(const_d) == len(dflt)) else None
            if params_ is not None and len(params_) == 2 and body is not None:
                shape = True
                p0, p1 = params_
                def is_p(t_, nm):
                    return (t_.op == "param" and t_.name in (nm, "λ" + nm)) or (t_.op in ("name", "free") and t_.name == nm)
                meth = None
                if body.op == "mcall" and len(body.args) == 2 and is_p(body.args[0], p1) and is_p(body.args[1], p0):
                    meth = body.name
                elif body.op == "callv" and len(body.args) == 2 and is_p(body.args[1], p0):
                    fnv = body.args[0]
                    if is_p(fnv, p1):
                        meth = "forward"  # __call__ == forward
                    elif fnv.op == "call" and fnv.name == "getattr" and len(fnv.args) == 2 and is_p(fnv.args[0], p1) and fnv.args[1].op == "const":
                        meth = fnv.args[1].name
                ok = meth == name and a.op == "param" and b.pretty() == "self.tf_dict"
                detail = f"leaf function applies `{meth}` to ({p0}, {p1}); trees {a.short(30)}, {b.short(30)}"
        # a transform looked up by parameter NAME in a table flattened over all entries: entries that share a name (the same
        # parameter made trainable for two groups, with different bounds) collapse into one, an entry then meets another entry's transform
        if r is not None and not ok and not shape:
            by_name = T.find(r, lambda x: x.op == "sub" and x.args[0].op == "dictcomp" and
                             T.find(x.args[0], lambda y: y.op == "attr" and y.name == "tf_dict") is not None and
                             T.find(x.args[0], lambda y: y.op == "mcall" and y.name == "items") is not None)
            if by_name is not None:
                shape = True
                detail = (f"the transform is looked up by parameter name in a table built over ALL entries (`{by_name.short(70)}`): two entries "
                          f"with the same name (one parameter, two groups with different bounds) collapse, the earlier one is transformed with the "
                          f"later one's transform")
        col.add(R, fi, f"ParamTransform.{name}", "DISCHARGED" if ok else ("VIOLATED" if shape else "UNDECIDED"),
                f"tree_map(lambda x, tf: tf.{name}(x), params, self.tf_dict): each transform meets exactly its own entry"
                if ok else f"ParamTransform.{name}: {detail}", node=fi.node)

    # ... and the tree of transforms is kept as it was given: entry k of the list belongs to entry k of the parameters
    fi = repo.method("ParamTransform", "__init__")
    ex = idx.expander(repo, fi)
    st = [s_ for s_ in ex.stores if s_.kind == "attr" and s_.key.name == "tf_dict" and s_.base.op == "param" and s_.base.name == "self"]
    if not st:
        col.unk(R, fi, "ParamTransform keeps the tree of transforms as given", "no store of self.tf_dict", node=fi.node)
    else:
        v = st[-1].value
        p_ = fi.params[1] if len(fi.params) > 1 else None
        same = v.op == "param" and v.name == p_
        keyed = T.find(v, lambda x: x.op in ("dictcomp", "dictacc", "dict") or (x.op in ("call", "mcall") and x.name in ("dict", "ChainMap", "update", "setdefault")))
        col.add(R, fi, "ParamTransform keeps the tree of transforms as given", "DISCHARGED" if same else ("VIOLATED" if keyed is not None else "UNDECIDED"),
                "self.tf_dict = tf_dict" if same else
                (f"the tree is rebuilt through a table keyed by parameter name (`{keyed.short(70)}`): two entries with the same name (one parameter made "
                 f"trainable for two groups, with different bounds) end up with ONE transform, and the other entry is mapped with bounds that are not its own"
                 if keyed is not None else f"self.tf_dict = {v.short(80)}"), node=st[-1].node)

    # no Python branch on the value in forward/inverse of any transform
    mi = repo.mod(TF)
    for c in mi.classes.values():
        for name in ("forward", "inverse"):
            if name in c.methods:
                fi = c.methods[name]
                arg = fi.params[1] if len(fi.params) > 1 else None
                branches = [n for n in walk_no_nested(fi.node) if isinstance(n, (ast.If, ast.While, ast.IfExp))
                            and any(isinstance(x, ast.Name) and x.id == arg for x in ast.walk(n.test))]
                col.check(not branches, R, fi, f"{c.name}.{name}: no Python branch on the value",
                          "identical under jit", "a Python branch on the transformed value behaves differently under jit",
                          node=branches[0] if branches else fi.node)
