"""C12 -- assembly preserves constituents (structural clause only)."""
from __future__ import annotations

import ast

from sa.algebra import Und, Rat, PW, rat_of, parse_ref
from sa.core import AnalysisError, unparse, walk_no_nested
from sa.terms import Expander, T
from . import idx, kin

LEVEL = "other"
EXPLANATION = (
    "Decided (structural clause): R-C12-concat -- Branch/Cell/Network constructors concatenate the "
    "constituents' node tables in constituent order with fresh row labels, number compartments "
    "densely, repeat branch indices by each branch's own compartment count and cell indices by each "
    "cell's own compartment count; per-branch counts are taken from the constituents in order. "
    "R-C12-offsets -- every local->global conversion adds the offset of the same space: parents "
    "(non-root entries + branch offset of the cell), level tables ([branch offset, branch-point "
    "offset]), the three edge blocks of the network ([N, N] for type 0, [P, N] for types 1-2, [N, P] "
    "for types 3-4 with P = total compartments - compartments of the cell + branch-point offset, as "
    "exact forms), padded widths concatenated from the cells' own solve indexers. R-C12-channels -- "
    "channels are united by name, currents by current name, and only the presence columns are filled "
    "with False. NOT decided: that a network without synapses simulates each cell exactly as the cell "
    "alone and permutation equivariance (numerical; they follow from C01 and these clauses but are not "
    "proved)."
)
ASSUMPTIONS = ["pandas concat keeps row order", "cells have exactly one root branch at position 0"]


def check(repo, col, tier):
    col.rule("R-C12-concat", "constituent tables concatenated in order with dense global indices", 10)
    col.rule("R-C12-offsets", "local->global conversions add the offset of the same index space", 8)
    col.rule("R-C12-channels", "channel union and presence fill", 3)
    _concat(repo, col)
    _offsets(repo, col)
    _channels(repo, col)
    # the merged level schedule keeps every level of every cell (shared with C01)
    from . import c01_solver
    col.rule("R-C12-merge", "merged level schedule contains every level of every cell", 1)
    c01_solver._merge(repo, col, "R-C12-merge")
    # a network's edge table interleaves the cells' edge blocks (cell 0 type 1, cell 0 type 2, cell 1 type 1, ...): the coupling
    # conductances must be computed row by row in TABLE order, and every cell's own edge table must attach branch points to each
    # branch's own first / last compartment (shared with C01/C02/C13)
    from . import cable
    col.rule("R-C12-conductances", "coupling conductances are computed for the edge rows in table order, with the roles of each row", 6)
    cable.check_axial(repo, col, {"roles": "R-C12-conductances", "cap": "R-C12-conductances"}, want=("roles", "cap"))
    col.rule("R-C12-ends", "a cell's branch-point edges attach at each branch's own first / last compartment", 4)
    c01_solver._ends(repo, col, "R-C12-ends")
    c01_solver.category_major(repo, col, "R-C12-ends")
    # "listing sibling branches in a different order only permutes the result": the level schedule must pick the branches of a level
    # wherever they are listed, and the padded solver layout must place every compartment by its own branch (shared with C01/C02)
    col.rule("R-C12-levels", "level bookkeeping, branch-point grouping and within-branch edge tables", 8)
    c01_solver._levels(repo, col, "R-C12-levels")
    # forward Euler on a network of unbranched cells: every cell's edges must stay in that cell's row
    col.rule("R-C12-explicit", "forward Euler vector field: one row per branch, neighbours within the branch", 4)
    c01_solver._vectorfield(repo, col, "R-C12-explicit")
    # uncoupled cells with different compartment counts must be REFUSED by the explicit scheme, not reshaped together
    col.rule("R-C12-refuse", "forward Euler refuses what its (nbranches, -1) layout cannot represent", 3)
    c01_solver._refuse(repo, col, "R-C12-refuse")
    # a network is a disjoint union: the generic sparse system needs a row for every compartment, also for a point cell listed last
    col.rule("R-C12-dimension", "the sparse system of a network has a row for every compartment and branch point", 3)
    c01_solver._dimension(repo, col, "R-C12-dimension")
    # siblings of different lengths in either order: every band of the custom solver is scattered at the PADDED row of its compartment
    col.rule("R-C12-assembly", "padded solver rows are identity rows; real rows carry the backward-Euler entries at their padded positions", 8)
    c01_solver._assembly_jaxley(repo, col, "R-C12-assembly")
    from . import c01
    col.rule("R-C12-layout", "every compartment's row is the one its neighbours' couplings point to (padded layout)", 8)
    c01._layout(repo, col, "R-C12-layout")


def _stores(ex, name):
    return [s for s in ex.stores if (s.kind == "attr" and s.key.name == name) or
            (s.kind == "sub" and s.key.op == "const" and s.key.name == name)]


def _concat(repo, col):
    R = "R-C12-concat"
    for cls, lst in (("Branch", "compartment_list"), ("Cell", "branch_list"), ("Network", "cells")):
        fi = repo.method(cls, "__init__")
        ex = idx.expander(repo, fi)
        st = _stores(ex, "nodes")
        if not st:
            raise AnalysisError(f"{cls}.__init__ no longer assigns self.nodes")
        from sa.terms import fuse_comprehensions as _fuse
        v = _fuse(st[0].value)        # a list of the tables filled in a loop is the comprehension
        ok = v.op == "mcall" and v.name == "concat" and v.args[1].op == "comp" and v.args[1].args[0].op == "attr" and \
            v.args[1].args[0].name == "nodes" and v.args[1].args[0].args[0].op == "elem"
        ig = v.kw.get("ignore_index") if v.op == "mcall" else None
        col.check(ok and ig is not None and ig.op == "const" and ig.name is True, R, fi,
                  f"{cls}: node table = concat of the constituents' tables in order, fresh row labels",
                  "pd.concat([c.nodes for c in constituents], ignore_index=True)",
                  f"{cls}.nodes is {v.short(120)} (ignore_index={ig.short() if ig else None}): row labels would repeat / not be "
                  f"the global compartment index", node=st[0].node)
        src = unparse(fi.node)
        # global_comp_index
        gci = _stores(ex, "global_comp_index")
        if cls == "Branch":
            want = "np.arange(self.ncomp).tolist()"
            okc = bool(gci) and idx.same_expr(repo, fi, gci[0].stmt, gci[0].stmt.value, want)
        else:
            okc = bool(gci) and idx.same_expr(repo, fi, gci[0].stmt, gci[0].stmt.value, "np.arange(self.cumsum_ncomp[-1])")
        if gci and not okc:
            # 0 .. n-1 with n written as any of the spellings of "the number of rows of the node table"
            gv = idx.shape_norm(gci[0].value)
            while gv.op in ("mcall", "call") and gv.name in ("tolist", "to_list", "list", "asarray", "array") and gv.args:
                gv = next((a_ for a_ in gv.args if a_.op != "free"), gv.args[0])
            na = [a_ for a_ in gv.args if a_.op != "free"] if gv.op in ("mcall", "call") and gv.name in ("arange", "range") else []
            if len(na) == 1:
                n_ = na[0]
                is_self_attr = lambda t_, nm_: t_.op == "attr" and t_.name == nm_ and t_.args and t_.args[0].op == "param" and t_.args[0].name == "self"
                last_cum = n_.op == "sub" and is_self_attr(n_.args[0], "cumsum_ncomp") and \
                    ((n_.args[1].op == "unary" and n_.args[1].name == "USub") or (n_.args[1].op == "const" and n_.args[1].name == -1))
                nodes_vals = {s_.value.key() for s_ in _stores(ex, "nodes") if s_.value is not None}
                n_rows = n_.op == "call" and n_.name == "len" and n_.args and (is_self_attr(n_.args[0], "nodes") or is_self_attr(n_.args[0], "_nodes_in_view") or
                                                                           is_self_attr(n_.args[0], "_internal_node_inds") or n_.args[0].key() in nodes_vals)
                total = n_.op in ("call", "mcall") and n_.name == "sum" and any(is_self_attr(a_, "ncomp_per_branch") for a_ in n_.args)
                okc = bool(last_cum or n_rows or total or (cls == "Branch" and is_self_attr(n_, "ncomp")))
        col.check(okc, R, fi, f"{cls}: global_comp_index = 0..n-1", "dense numbering in constituent order",
                  f"global_comp_index is {unparse(gci[0].stmt.value) if gci else None}", node=gci[0].node if gci else fi.node)
        gbi = _stores(ex, "global_branch_index")
        gbi_skip = False
        if cls == "Branch":
            okb = bool(gbi) and idx.same_expr(repo, fi, gbi[0].stmt, gbi[0].stmt.value, "[0] * self.ncomp")
        else:
            okb = bool(gbi) and idx.same_expr(repo, fi, gbi[0].stmt, gbi[0].stmt.value, "np.repeat(np.arange(self.total_nbranches), self.ncomp_per_branch).tolist()")
        if gbi and not okb and cls != "Branch":
            # repeat(arange(len(C)), C) with C the per-branch counts: the number of branches is the number of counts
            gv = idx.value_norm(gbi[0].value)
            if gv.op == "mcall" and gv.name == "repeat":
                ra = [a_ for a_ in gv.args if a_.op != "free"]
                npb_ = [s_ for s_ in ex.stores if s_.kind == "attr" and s_.key.name == "ncomp_per_branch" and s_.value is not None]
                if len(ra) == 2 and ra[0].op == "mcall" and ra[0].name == "arange" and npb_:
                    n_ = [a_ for a_ in ra[0].args if a_.op != "free"]
                    cnt = idx.value_norm(npb_[0].value)
                    is_cnt = lambda t_: t_.key() == cnt.key() or (t_.op == "attr" and t_.name == "ncomp_per_branch")
                    okb = len(n_) == 1 and n_[0].op == "call" and n_[0].name == "len" and is_cnt(n_[0].args[0]) and is_cnt(ra[1])
            # the same as a nested comprehension: [b for b, n in enumerate(C) for _ in range(n)]
            while gv.op in ("mcall", "call") and gv.name in ("tolist", "to_list", "list", "asarray", "array") and gv.args:
                gv = next((a_ for a_ in gv.args if a_.op != "free"), gv.args[0])
            if not okb and gv.op == "comp" and len(gv.args) == 3:
                b_, it1, it2 = gv.args
                npb_ = [s_ for s_ in ex.stores if s_.kind == "attr" and s_.key.name == "ncomp_per_branch" and s_.value is not None]
                cnt = idx.value_norm(npb_[0].value) if npb_ else None
                is_cnt = lambda t_: (cnt is not None and idx.value_norm(t_).key() == cnt.key()) or (t_.op == "attr" and t_.name == "ncomp_per_branch")
                el = T("elem", None, [it1])
                okb = it1.op == "call" and it1.name == "enumerate" and len(it1.args) == 1 and is_cnt(it1.args[0]) and \
                    b_.key() == T("item", 0, [el]).key() and it2.op == "call" and it2.name == "range" and len(it2.args) == 1 and \
                    it2.args[0].key() == T("item", 1, [el]).key()
            recognised = T.find(idx.value_norm(gbi[0].value), lambda x: x.op in ("mcall", "call") and x.name in ("repeat", "tile", "arange", "concatenate", "hstack", "chain")) is not None
            if not okb and not recognised:
                col.unk(R, fi, f"{cls}: global_branch_index repeats branch b ncomp[b] times",
                        f"global_branch_index is {unparse(gbi[0].stmt.value)[:80]}: not a form whose rows can be counted", node=gbi[0].node)
                gbi_skip = True
        if not gbi_skip:
            col.check(okb, R, fi, f"{cls}: global_branch_index repeats branch b ncomp[b] times",
                      "np.repeat(arange(nbranches), ncomp_per_branch)", f"global_branch_index is {unparse(gbi[0].stmt.value) if gbi else None}",
                      node=gbi[0].node if gbi else fi.node)
        gce = _stores(ex, "global_cell_index")
        if cls == "Network":
            okx = bool(gce) and _cell_index_blocks(repo, fi, ex, gce[0])
        elif cls == "Cell":
            okx = bool(gce) and idx.same_expr(repo, fi, gce[0].stmt, gce[0].stmt.value, "np.repeat(0, self.cumsum_ncomp[-1]).tolist()")
        else:
            okx = bool(gce) and idx.same_expr(repo, fi, gce[0].stmt, gce[0].stmt.value, "[0] * self.ncomp")
        if gce and not okx and cls in ("Cell", "Branch"):
            # a single cell: every row gets cell number 0, however the zeros are spelled (a length mismatch is an error of pandas, not a wrong table)
            zv = idx.value_norm(gce[0].value)
            while zv.op == "call" and zv.name == "int" and zv.args:
                zv = zv.args[0]
            z0 = lambda t_: t_.op == "const" and t_.name == 0 and not isinstance(t_.name, bool)
            okx = z0(zv) or \
                (zv.op == "binop" and zv.name == "*" and any(a_.op == "list" and len(a_.args) == 1 and z0(a_.args[0]) for a_ in zv.args)) or \
                (zv.op == "mcall" and zv.name in ("repeat", "full", "full_like") and any(z0(a_) for a_ in zv.args[1:3]) ) or \
                (zv.op == "mcall" and zv.name in ("zeros", "zeros_like") and (zv.kw.get("dtype") is None or str(zv.kw["dtype"].name) in ("int", "int64", "int32")))
        col.check(okx, R, fi, f"{cls}: global_cell_index repeats cell c by its own number of compartments", "",
                  f"global_cell_index is {unparse(gce[0].stmt.value) if gce else None}", node=gce[0].node if gce else fi.node)
        # per-branch counts from the constituents, in order
        npb = [s for s in ex.stores if s.kind == "attr" and s.key.name == "ncomp_per_branch"]
        t = unparse(npb[0].stmt.value) if npb else ""
        want = {"Branch": "np.asarray([self.ncomp])", "Cell": "np.asarray([branch.ncomp for branch in branch_list])",
                "Network": "np.concatenate([cell.ncomp_per_branch for cell in cells])"}[cls]
        col.check(bool(npb) and idx.same_expr(repo, fi, npb[0].stmt, npb[0].stmt.value, want, locals_from={"branch_list": "branches"}), R, fi,
                  f"{cls}: ncomp_per_branch taken from the constituents in order", want,
                  f"ncomp_per_branch is {t}", node=npb[0].node if npb else fi.node)
        cs = [s for s in ex.stores if s.kind == "attr" and s.key.name == "cumsum_ncomp"]
        col.check(bool(cs) and idx.same_expr(repo, fi, cs[0].stmt, cs[0].stmt.value, "cumsum_leading_zero(self.ncomp_per_branch)"), R, fi,
                  f"{cls}: cumsum_ncomp = cumsum_leading_zero(ncomp_per_branch)", "",
                  f"cumsum_ncomp is {unparse(cs[0].stmt.value) if cs else None}", node=cs[0].node if cs else fi.node)
    fi = repo.method("Network", "__init__")
    exn_ = idx.expander(repo, fi)
    xs = [s_ for s_ in exn_.stores if ((s_.kind in ("aug", "mcall") and s_.base.op == "attr" and s_.base.name == "xyzr") or
                                       (s_.kind == "attr" and s_.key.name == "xyzr")) and
          s_.value is not None and T.find(s_.value, lambda x: x.op == "attr" and x.name == "xyzr" and x.args[0].op == "elem") is not None]
    in_order = bool(xs) and all(any(g.op == "loop" for g in s_.guards) and
                                T.find(s_.value, lambda x: x.op == "elem" and T.find(x, lambda y: y.op in ("param", "attr") and y.name in ("cells", "_cells_list")) is not None) is not None
                                for s_ in xs)
    col.check(in_order, R, fi, "Network: coordinates of the cells are appended cell by cell, in the order of the cell list",
              "for cell in cells: xyzr += <copy of cell.xyzr>", "the coordinates of the network are not collected from its cells in order", node=fi.node)


def _is_cells(t):
    return (t.op == "param" and t.name == "cells") or (t.op == "attr" and t.name in ("_cells_list", "cells"))


def _cell_index_blocks(repo, fi, ex, store) -> bool:
    """global_cell_index = cell position c repeated (number of compartments of cell c) times, cells in order -- written as a
    chain of per-cell lists `[i] * n_i` or as np.repeat(arange(#cells), [n_c ...])."""
    from sa.terms import align_positions
    t = align_positions(idx.inline(repo, fi, store.value))
    ncell = lambda x: T.find(x, lambda y: y.op == "sub" and y.args[0].op == "attr" and y.args[0].name == "cumsum_ncomp" and
                             y.args[0].args[0].op == "elem" and _is_cells(y.args[0].args[0].args[0])) is not None
    # np.repeat(np.arange(len(cells)), [n_c for cell in cells])
    rp = T.find(t, lambda x: x.op == "mcall" and x.name == "repeat" and len(x.args) == 3)
    if rp is not None:
        vals, cnts = rp.args[1], rp.args[2]
        v_ok = vals.op == "mcall" and vals.name == "arange" and len(vals.args) == 2 and vals.args[1].op == "call" and \
            vals.args[1].name == "len" and _is_cells(vals.args[1].args[0])
        c_ok = cnts.op == "comp" and _is_cells(cnts.args[1]) and ncell(cnts.args[0])
        return v_ok and c_ok
    # chain(*[[i] * n_i for i, cell in enumerate(cells)])
    cm = T.find(t, lambda x: x.op == "comp" and len(x.args) == 2 and x.args[0].op == "binop" and x.args[0].name == "*")
    if cm is not None and T.find(t, lambda x: x.op in ("mcall", "call") and x.name in ("chain", "from_iterable", "concatenate", "sum")) is not None:
        a_, b_ = cm.args[0].args
        lst, cnt = (a_, b_) if a_.op == "list" else (b_, a_)
        v_ok = lst.op == "list" and len(lst.args) == 1 and lst.args[0].op == "pos" and _is_cells(lst.args[0].args[0])
        it_ok = cm.args[1].op == "call" and cm.args[1].name == "enumerate" and _is_cells(cm.args[1].args[0])
        return v_ok and ncell(cnt) and it_ok
    return False


def _shifted_parents(repo, fi, value):
    """comb_parents = concatenation over the cells, in order, of `cell.comb_parents.at[1:].add(O_c)` with O_c the number of
    branches of the cells before cell c (entry c of the leading-zero cumulative sum of the cells' branch counts)."""
    from sa.terms import align_positions
    t = align_positions(idx.inline(repo, fi, value))
    cat = t if (t.op == "mcall" and t.name in ("concatenate", "hstack")) else T.find(t, lambda x: x.op == "mcall" and x.name in ("concatenate", "hstack"))
    if cat is None:
        return "UNDECIDED", "not a concatenation over the cells"
    adds = [x for x in cat.walk() if x.op == "mcall" and x.name in ("add", "set") and x.args and x.args[0].op == "sub" and
            x.args[0].args[0].op == "attr" and x.args[0].args[0].name == "at"]
    if not adds:
        # the whole array of a cell shifted at once (`p + offset`): the root's -1 is shifted too and is no longer a root
        whole = T.find(cat, lambda x: x.op == "binop" and x.name == "+" and any(
            a_.op == "attr" and a_.name == "comb_parents" and a_.args[0].op == "elem" and _is_cells(a_.args[0].args[0]) for a_ in x.args))
        if whole is not None and T.find(cat, lambda x: x.op == "mcall" and x.name in ("where", "maximum", "select")) is None:
            return "VIOLATED", (f"`{whole.short(60)}` shifts EVERY entry of a cell's parents, the root's -1 included: from the second cell on the "
                                f"root is no longer -1 but points at a branch of the cell before")
    if len(adds) != 1:
        return "UNDECIDED", f"{len(adds)} shifted blocks found"
    ad = adds[0]
    P, sl_, O = ad.args[0].args[0].args[0], ad.args[0].args[1], (ad.args[1] if len(ad.args) > 1 else None)
    if ad.name != "add" or O is None:
        return "VIOLATED", "the offset must be ADDED to the parent indices"
    p_ok = P.op == "attr" and P.name == "comb_parents" and P.args[0].op == "elem" and _is_cells(P.args[0].args[0])
    if not p_ok:
        return "UNDECIDED", f"shifted array is {P.short(60)}"
    s_ok = sl_.op == "slice" and sl_.args[0].op == "const" and sl_.args[0].name == 1 and sl_.args[1].op == "const" and sl_.args[1].name is None
    if not s_ok:
        return "VIOLATED", f"the entries shifted are [{sl_.short(30)}]: all entries but the root's -1 (index 0) must be shifted"

    def is_branch_cumsum(S):
        return (T.find(S, lambda x: x.op in ("mcall", "call") and x.name in ("cumsum", "cumsum_leading_zero")) is not None and
                T.find(S, lambda x: x.op == "attr" and x.name in ("total_nbranches", "nbranches_per_cell")) is not None) or \
            (S.op == "attr" and S.name == "_cumsum_nbranches")
    # O = S[pos(cells)]  or  the lock-step element of S[:-1]
    if O.op == "sub" and O.args[1].op == "pos" and _is_cells(O.args[1].args[0]) and is_branch_cumsum(O.args[0]):
        return "DISCHARGED", ""
    if O.op == "elem" and O.args[0].op == "sub" and O.args[0].args[1].op == "slice" and is_branch_cumsum(O.args[0].args[0]):
        lo, hi, st = O.args[0].args[1].args
        minus1 = (hi.op == "const" and hi.name == -1) or (hi.op == "unary" and hi.name == "USub" and hi.args[0].op == "const" and hi.args[0].name == 1)
        if lo.op == "const" and lo.name is None and minus1:
            return "DISCHARGED", ""
        return "VIOLATED", f"cell c is shifted by entry c of `{O.args[0].short(60)}`: that is not the number of branches before cell c"
    if O.op == "elem" and is_branch_cumsum(O.args[0]):
        # zip(S, cells): the lock-step element of S itself -- entry c, as long as S starts with the leading zero
        S = O.args[0]
        while S.op == "mcall" and S.name in ("astype", "copy", "tolist") and S.args:
            S = S.args[0]
        lead = (S.op == "attr" and S.name == "_cumsum_nbranches") or T.find(S, lambda x: x.op in ("mcall", "call") and x.name == "cumsum_leading_zero") is not None or \
            (S.op == "mcall" and S.name in ("concatenate", "hstack") and len(S.args) > 1 and S.args[1].op in ("list", "tuple") and S.args[1].args and
             T.find(S.args[1].args[0], lambda x: x.op in ("mcall", "call") and x.name == "cumsum") is None and
             T.find(S.args[1].args[0], lambda x: x.op == "const" and x.name == 0) is not None)
        if lead:
            return "DISCHARGED", ""
        return "UNDECIDED", f"cell c is shifted by element c of {S.short(60)}: leading zero not recognised"
    if O.op == "sub" and is_branch_cumsum(O.args[0]):
        return "VIOLATED", f"cell c is shifted by `{O.short(60)}`: not entry c of the leading-zero cumulative branch count"
    # a multiple of the cell number: c * (branches of ONE cell)
    prod = T.find(O, lambda x: x.op == "binop" and x.name == "*" and
                  any(T.find(a_, lambda y: (y.op in ("mcall", "call") and y.name in ("arange", "range")) or y.op == "pos") is not None for a_ in x.args))
    if prod is not None and T.find(O, lambda x: x.op in ("mcall", "call") and x.name in ("cumsum", "cumsum_leading_zero")) is None and \
            T.find(O, lambda x: x.op == "attr" and x.name == "_cumsum_nbranches") is None:
        return "VIOLATED", (f"cell c is shifted by `{prod.short(70)}`, c times the branch count of ONE cell: the number of branches before cell c is the SUM of "
                            f"the branch counts of the cells before it -- wrong from the third cell on as soon as the cells differ")
    return "UNDECIDED", f"offset is {O.short(80)}"


def _cell_branch_edges(repo, col, R):
    """Cell.__init__: branch k (k >= 1; branch 0 is the root) is the child of comb_parents[k]: parent column = comb_parents[1:], child
    column = arange(1, number of branches) -- the same start, up to the number of branches."""
    fi = repo.method("Cell", "__init__")
    ex = idx.expander(repo, fi)
    be = [s_ for s_ in ex.stores if s_.kind == "attr" and s_.key.name == "branch_edges"]
    if not be:
        col.unk(R, fi, "Cell: branch_edges pairs branch k with comb_parents[k]", "store not found", node=fi.node)
        return
    v = be[-1].value
    kv = {k.args[0].name: k.args[1] for k in T.find_all(v, lambda x: x.op == "kv") if k.args[0].op == "const"}
    kv.update({k: t_ for d_ in T.find_all(v, lambda x: x.op == "call" and x.name == "dict") for k, t_ in d_.kw.items()})
    par, ch = kv.get("parent_branch_index"), kv.get("child_branch_index")
    ok, why = False, f"columns {sorted(kv)}"
    if par is not None and ch is not None:
        cut = par.args[1] if (par.op == "sub" and par.args[1].op == "slice") else None
        rng = ch if (ch.op == "mcall" and ch.name == "arange") else None
        if cut is not None and rng is not None:
            lo = cut.args[0]
            ra = [a_ for a_ in rng.args if a_.op != "free"]
            nb = lambda t: T.find(t, lambda x: (x.op == "attr" and x.name == "total_nbranches") or (x.op == "call" and x.name == "len")) is not None
            ok = lo.op == "const" and lo.name == 1 and cut.args[1].op == "const" and cut.args[1].name is None and \
                len(ra) == 2 and ra[0].op == "const" and ra[0].name == 1 and nb(ra[1]) and ra[1].op != "binop"
            why = f"parent column {par.short(50)}, child column {ch.short(50)}"
    col.check(ok, R, fi, "Cell: branch_edges pairs branch k with comb_parents[k] for k = 1 .. nbranches-1", "comb_parents[1:], arange(1, total_nbranches)", why, node=be[-1].node)


def _offsets(repo, col):
    R = "R-C12-offsets"
    _cell_branch_edges(repo, col, R)
    fi = repo.method("Network", "__init__")
    ex = idx.expander(repo, fi)
    # branch_edges pairs every branch k that has a parent with that parent: parent = comb_parents[mask], child = where(mask)[0], ONE mask
    be = [s_ for s_ in ex.stores if s_.kind == "attr" and s_.key.name == "branch_edges"]
    if not be:
        col.unk(R, fi, "branch_edges pairs branch k with comb_parents[k]", "Network.__init__ no longer stores branch_edges", node=fi.node)
    if be:
        v = be[-1].value
        kv = {k.args[0].name: k.args[1] for k in T.find_all(v, lambda x: x.op == "kv") if k.args[0].op == "const"}
        kv.update({k: t_ for d_ in T.find_all(v, lambda x: x.op == "call" and x.name == "dict") for k, t_ in d_.kw.items()})
        par, ch = kv.get("parent_branch_index"), kv.get("child_branch_index")
        if par is None or ch is None:
            col.unk(R, fi, "branch_edges pairs branch k with comb_parents[k]", f"columns {sorted(kv)}", node=be[-1].node)
        else:
            pm = par.args[1] if par.op == "sub" else None
            w = ch
            while w is not None and w.op in ("mcall", "call") and w.name in ("asarray", "array", "astype") and w.args:
                w = next((a_ for a_ in w.args if a_.op != "free"), None)
            cm = None
            if w is not None and w.op == "sub" and w.args[1].op == "const" and w.args[1].name == 0 and w.args[0].op == "mcall" and w.args[0].name in ("where", "nonzero"):
                cm = next((a_ for a_ in w.args[0].args if a_.op != "free"), None)
            elif w is not None and w.op == "mcall" and w.name == "flatnonzero":
                cm = next((a_ for a_ in w.args if a_.op != "free"), None)
            ok = pm is not None and cm is not None and pm.key() == cm.key() and T.find(par.args[0], lambda x: x.op == "attr" and x.name == "comb_parents") is not None
            col.check(ok, R, fi, "branch_edges pairs branch k with comb_parents[k]", "comb_parents[m], where(m)[0] with one mask m",
                      f"parent column {par.short(60)}, child column {ch.short(60)}: the k-th row no longer names branch k and its own parent", node=be[-1].node)
    cp = [s for s in ex.stores if s.kind == "attr" and s.key.name == "comb_parents"]
    t = unparse(cp[-1].stmt.value) if cp else ""
    verdict, why = _shifted_parents(repo, fi, cp[-1].value) if cp else ("UNDECIDED", "comb_parents is not stored")
    col.add(R, fi, "parents: non-root entries of cell i are shifted by the branch offset of cell i", verdict,
            "cell.comb_parents.at[1:].add(cumsum_nbranches[i]), cell by cell in order" if verdict == "DISCHARGED" else
            f"comb_parents is {t[:80]}: {why}", node=cp[-1].node if cp else fi.node)
    # (that the blocks are the cells' own parent vectors, in the order of the cell list, is part of the obligation above)
    cb = [s for s in ex.stores if s.kind == "attr" and s.key.name == "_cumsum_nbranches"]
    col.check(bool(cb) and idx.same_expr(repo, fi, cb[0].stmt, cb[0].stmt.value, "cumsum_leading_zero(self.nbranches_per_cell)"), R, fi,
              "branch offsets = leading-zero cumsum of the cells' branch counts", "", f"is {unparse(cb[0].stmt.value) if cb else None}",
              node=cb[0].node if cb else fi.node)
    # (located by what consumes it: the leading-zero cumsum stored as _cumsum_nbranchpoints_per_cell, whatever the local is called)
    cbp = [s_ for s_ in ex.stores if s_.kind == "attr" and s_.key.name == "_cumsum_nbranchpoints_per_cell"]
    ok = bool(cbp) and idx.same_expr(repo, fi, cbp[0].stmt, cbp[0].stmt.value,
                                     "cumsum_leading_zero(jnp.asarray([len(cell._par_inds) for cell in cells]))")
    col.check(ok, R, fi, "branch points per cell = number of distinct parent branches of that cell", "",
              f"the per-cell branch-point offsets are {cbp[0].value.short(100) if cbp else None}", node=cbp[0].node if cbp else fi.node)
    from . import c01_solver as _c01s
    _c01s.consecutive_rank(repo, col, R)
    # merge_cells offsets: every level table of cell i is shifted by [branch offset of i, branch-point offset of i]
    mc = repo.func("jaxley/utils/cell_utils.py", "merge_cells")
    exm = idx.expander(repo, mc)
    terms = list(exm.returns)
    for s_ in exm.stores:
        terms += [t_ for t_ in (s_.value,) if t_ is not None]
    pair = None
    for t_ in terms:
        for x in t_.walk():
            if x.op == "binop" and x.name == "+":
                for side in x.args:
                    lst = T.find(side, lambda y: y.op == "list" and len(y.args) == 2 and all(z.op == "sub" for z in y.args))
                    if lst is not None and side.op == "mcall" and side.name in ("asarray", "array"):
                        pair = pair or (x, lst)
    if pair is None:
        col.unk(R, mc, "level tables: offsets of cell i", "offset expression not found", node=mc.node)
    else:
        x, lst = pair
        a0, a1 = lst.args
        names = [a0.args[0].name if a0.args[0].op == "param" else None, a1.args[0].name if a1.args[0].op == "param" else None]
        same_i = a0.args[1].key() == a1.args[1].key()
        from_enum = T.find(a0.args[1], lambda y: y.op == "item" and y.name == 0 and T.find(y, lambda z: z.op == "call" and z.name == "enumerate") is not None) is not None \
            or (a0.args[1].op == "item" and a0.args[1].name == 0)
        pm = mc.params
        ok = names == [pm[0], pm[1]] and same_i and from_enum
        col.check(ok, R, mc, "level tables: (branch, branch point) columns shifted by (branch offset, branch-point offset) of cell i",
                  "table + [cumsum_num_branches[i], cumsum_num_branchpoints[i]]",
                  f"offset expression is {x.short(120)}: column 0 must be shifted by {pm[0]}[i] and column 1 by {pm[1]}[i] with the same cell index i",
                  node=x.node or mc.node)
    # call sites hand the offsets over in that order
    nj = repo.method("Network", "_init_morph_jaxley_spsolve")
    exn = idx.expander(repo, nj)
    for c in [c for c in exn.calls if isinstance(c.func, ast.Name) and c.func.id == "merge_cells"]:
        a = [unparse(x) for x in c.args[:2]]
        at = [exn.term(x) for x in c.args[:2]]
        col.check(len(at) == 2 and all(t_.op == "attr" and t_.args[0].op == "param" and t_.args[0].name == "self" for t_ in at) and
                  [t_.name for t_ in at] == ["_cumsum_nbranches", "_cumsum_nbranchpoints_per_cell"], R, nj,
                  f"merge_cells receives (branch offsets, branch-point offsets): {unparse(c.args[2])[:50]}", str(a),
                  f"merge_cells is called with {a}", node=c)
    # padded widths: the cumulative widths handed to the indexer come from the cells' OWN solve indexers, in cell order
    from sa.terms import nest, fuse_comprehensions
    ic = next((c for c in exn.calls if isinstance(c.func, ast.Name) and c.func.id == "JaxleySolveIndexer"), None)
    if ic is None:
        raise AnalysisError("Network._init_morph_jaxley_spsolve no longer builds a JaxleySolveIndexer")
    it = exn.term(ic)
    cs = it.kw.get("cumsum_ncomp") or (it.args[0] if it.args else None)
    cs = fuse_comprehensions(idx.inline(repo, nj, cs, keep=("cumsum_leading_zero",))) if cs is not None else None
    ok = cs is not None and nest(cs, "cumsum_leading_zero", "concatenate", "diff", "cumsum_ncomp", "_solve_indexer", "each", "_cells_list")
    col.check(ok, R, nj, "padded widths are concatenated from the cells' own indexers",
              "cumsum_leading_zero(concatenate([diff(cell._solve_indexer.cumsum_ncomp) for cell in cells]))",
              f"the indexer's cumsum_ncomp is {cs.short(140) if cs is not None else None}", node=ic)
    ri = next((k.value for c in exn.calls if isinstance(c.func, ast.Name) and c.func.id == "JaxleySolveIndexer" for k in c.keywords if k.arg == "root_inds"), None)
    col.check(ri is not None and idx.same_expr(repo, nj, None, ri, "self._cumsum_nbranches[:-1]"), R, nj, "roots of the network = first branch of every cell",
              "cumsum_nbranches[:-1]", f"root_inds is {unparse(ri) if ri is not None else None}", node=ri or nj.node)
    # ---- edge blocks of the generic sparse system: the method is EXECUTED ABSTRACTLY for one symbolic cell (compartment
    # offset Noff, branch-point offset Poff, ncell compartments, Ntot compartments in the network); what reaches pd.concat
    # is a set of blocks (edge types, source offset, sink offset, type offset).  Loops over zip(...), a table-driven loop,
    # a local helper or comprehensions all reduce to the same blocks.
    ns = repo.method("Network", "_init_morph_jax_spsolve")
    ev = kin.new_eval(repo)
    bp = parse_ref(ev, "Ntot - ncell + Poff")
    N = Rat.atom("Noff")
    want = {frozenset({0}): (N, N), frozenset({1, 2}): (bp, N), frozenset({3, 4}): (N, bp)}
    try:
        blocks = _edge_blocks(repo, ns)
    except Und as e:
        raise AnalysisError(f"Network._init_morph_jax_spsolve: edge blocks not derivable ({e})")
    seen = {}
    for types, a, b_, c, node in blocks:
        seen.setdefault(types, []).append((a, b_, c, node))
    for types, (ws, wk) in want.items():
        got = seen.get(types)
        if not got:
            col.bad(R, ns, f"edge block of types {sorted(types)}", f"no edges of types {sorted(types)} are added to the network's edge table",
                    node=ns.node)
            continue
        for a, b_, c, node in got:
            ok = a.eq(ws) and b_.eq(wk) and c.is_zero()
            col.check(ok, R, ns, f"edge block of types {sorted(types)}: (source, sink) offsets",
                      f"source += {ws}, sink += {wk}",
                      f"edges of types {sorted(types)} are shifted by (source {a}, sink {b_}, type {c}); required (source {ws}, sink {wk}, "
                      f"type 0): compartments by the compartment offset of the cell, branch points by "
                      f"total compartments - compartments of the cell + branch-point offset", node=node)
    extra = [t for t in seen if t not in want]
    col.check(not extra, R, ns, "edge types are added in the groups {0}, {1,2}, {3,4}", "", f"unexpected grouping of edge types {sorted(map(sorted, extra))}",
              node=ns.node)
    # column order of the cell's edge table is (source, sink, type)
    cj = repo.method("Cell", "_init_morph_jax_spsolve")
    first = None
    for n in ast.walk(cj.node):
        if isinstance(n, ast.Dict) and any(isinstance(k, ast.Constant) and k.value == "source" for k in n.keys):
            keys = [k.value for k in n.keys if isinstance(k, ast.Constant)]
            if first is None or n.lineno < first[1]:
                first = (keys, n.lineno, n)
    ok = first is not None and first[0][:2] == ["source", "sink"]
    col.check(ok, R, cj, "cell edge table has columns (source, sink, type) -- the order the network's positional offsets assume",
              str(first[0] if first else None), f"first edge frame has columns {first[0] if first else None}", node=first[2] if first else cj.node)
    cell_offsets_definition(repo, col, R)


def cell_offsets_definition(repo, col, R):
    """`_cumsum_ncomp_per_cell[c]` is the global index of the first compartment of cell c (used as compartment offset of the
    edge blocks and as presynaptic site by sparse_connect): leading-zero cumsum of each cell's OWN number of compartments."""
    from sa.terms import nest, fuse_comprehensions
    ns = repo.method("Network", "_init_morph_jax_spsolve")
    st = [s_ for s_ in idx.expander(repo, ns).stores if s_.kind == "attr" and s_.key.name == "_cumsum_ncomp_per_cell"]
    if not st:
        raise AnalysisError("Network no longer defines _cumsum_ncomp_per_cell in _init_morph_jax_spsolve")
    v = fuse_comprehensions(idx.inline(repo, ns, st[0].value, keep=("cumsum_leading_zero",)))
    last = T.find(v, lambda x: x.op == "sub" and x.args[0].op == "attr" and x.args[0].name == "cumsum_ncomp" and
                  x.args[1].op == "unary" and x.args[1].name == "USub" and x.args[1].args[0].op == "const" and x.args[1].args[0].name == 1)
    per_cell = last is not None and T.find(last.args[0], lambda x: x.op == "elem") is not None
    ok = nest(v, "cumsum_leading_zero", "cumsum_ncomp", "each") and per_cell
    recognised = nest(v, "cumsum_leading_zero") or T.find(v, lambda x: x.op == "binop") is not None
    col.add(R, ns, "compartment offsets of the cells = leading-zero cumsum of the cells' own compartment counts",
            "DISCHARGED" if ok else ("VIOLATED" if recognised else "UNDECIDED"),
            "cumsum_leading_zero([cell.cumsum_ncomp[-1] for cell in cells])" if ok else
            f"_cumsum_ncomp_per_cell is {v.short(100)}: the offset of cell c must be the total number of compartments of the cells before it "
            f"(cells may differ in size, branches in their number of compartments)", node=st[0].node)


class _Seq:
    """one symbolic element standing for every cell: zip / comprehensions over such sequences stay one element long"""
    def __init__(self, elem):
        self.elem = elem


class _TypeCol:
    pass


class _Sel:
    def __init__(self, types):
        self.types = frozenset(types)


class _Rows:
    def __init__(self, types):
        self.types = types


class _Block:
    def __init__(self, types, a, b, c, node):
        self.types, self.a, self.b, self.c, self.node = types, a, b, c, node


class _Frame:
    def __init__(self, blocks=()):
        self.blocks = list(blocks)


class _Closure:
    def __init__(self, node, env):
        self.node, self.env = node, env


def _edge_blocks(repo, fi):
    from sa.algebra import ObjV, StrV, NONE
    A = kin.A
    cell = ObjV("Cell", {"_comp_edges": "EDGES", "cumsum_ncomp": "CUMSUM_CELL"})
    selfv = {"_cumsum_ncomp_per_cell": _Seq(A("Noff")), "_cumsum_nbranchpoints_per_cell": _Seq(A("Poff")), "_cells_list": _Seq(cell),
             "cells": _Seq(cell), "cumsum_ncomp": "CUMSUM_NET", "_comp_edges": _Frame(), "_par_inds": _Seq(A("par"))}
    out = []
    ctx = {"mod": repo.mods[fi.file], "cls": "Network", "defining_cls": "Network"}

    def flatten(v):
        if isinstance(v, _Block):
            return [v]
        if isinstance(v, _Frame):
            return list(v.blocks)
        if isinstance(v, _Seq):
            return flatten(v.elem)
        if isinstance(v, (tuple, list)):
            return [x for y in v for x in flatten(y)]
        return []

    def truth(v):
        if isinstance(v, StrV) and v.s in ("True", "False"):
            return v.s == "True"
        return None

    def ev(e, env):
        if isinstance(e, ast.Constant):
            if isinstance(e.value, bool):
                return StrV(repr(e.value))
            if isinstance(e.value, (int, float)):
                return A("0") if False else PW.of(Rat.const(e.value))
            if e.value is None:
                return NONE
            return StrV(str(e.value))
        if isinstance(e, ast.Name):
            if e.id in env:
                return env[e.id]
            raise Und(f"name {e.id}")
        if isinstance(e, ast.Attribute):
            if isinstance(e.value, ast.Name) and e.value.id == "self":
                if e.attr in selfv:
                    return selfv[e.attr]
                raise Und(f"self.{e.attr}")
            base = ev(e.value, env)
            if isinstance(base, ObjV) and e.attr in base.attrs:
                return base.attrs[e.attr]
            raise Und(f"attribute {ast.unparse(e)[:40]}")
        if isinstance(e, (ast.List, ast.Tuple)):
            return tuple(ev(x, env) for x in e.elts)
        if isinstance(e, ast.IfExp):
            t = truth(ev(e.test, env))
            if t is None:
                raise Und("undecidable conditional expression")
            return ev(e.body if t else e.orelse, env)
        if isinstance(e, ast.UnaryOp) and isinstance(e.op, ast.USub):
            v = ev(e.operand, env)
            return PW.of(-rat_of(v))
        if isinstance(e, ast.Subscript):
            base = ev(e.value, env)
            if base == "EDGES":
                if isinstance(e.slice, ast.Constant) and e.slice.value == "type":
                    return _TypeCol()
                sel = ev(e.slice, env)
                if isinstance(sel, _Sel):
                    return _Rows(sel.types)
                raise Und("selection of edge rows")
            if base == "CUMSUM_CELL" and ast.unparse(e.slice) == "-1":
                return A("ncell")
            if isinstance(base, str) and base.startswith("CUMSUM_CELL@") and ast.unparse(e.slice) == "-1":
                return A("ncell@" + base.split("@")[1])  # the count of ONE PARTICULAR cell, not of the cell of this block
            if isinstance(base, _Seq) and isinstance(e.slice, (ast.Constant, ast.UnaryOp)) and \
                    ast.unparse(e.slice).lstrip("-").isdigit():
                k = ast.unparse(e.slice)
                el = base.elem
                if isinstance(el, ObjV):
                    return ObjV(el.cls, {a_: (v_ + "@" + k if isinstance(v_, str) else v_) for a_, v_ in el.attrs.items()})
                if isinstance(el, PW):
                    r_ = el.single()
                    if r_ is not None:
                        return A(f"({r_})@{k}")
                raise Und(f"element {k} of a sequence")
            if base == "CUMSUM_NET" and ast.unparse(e.slice) == "-1":
                return A("Ntot")
            if isinstance(base, tuple):
                i = ev(e.slice, env)
                return base[int(rat_of(i).const_value())]
            raise Und(f"subscript {ast.unparse(e)[:40]}")
        if isinstance(e, ast.Compare) and len(e.ops) == 1 and isinstance(e.ops[0], ast.Eq):
            l, r = ev(e.left, env), ev(e.comparators[0], env)
            if isinstance(l, _TypeCol):
                return _Sel([int(rat_of(r).const_value())])
            raise Und("comparison")
        if isinstance(e, ast.BinOp):
            l, r = ev(e.left, env), ev(e.right, env)
            if isinstance(e.op, ast.Add) and isinstance(l, tuple) and isinstance(r, _Rows) and len(l) == 3:
                return _Block(r.types, rat_of(l[0]), rat_of(l[1]), rat_of(l[2]), e)
            if isinstance(e.op, ast.Add) and isinstance(l, tuple) and isinstance(r, tuple):
                return l + r
            if isinstance(l, PW) and isinstance(r, PW):
                a_, b_ = rat_of(l), rat_of(r)
                ops = {ast.Add: lambda: a_ + b_, ast.Sub: lambda: a_ - b_, ast.Mult: lambda: a_ * b_}
                if type(e.op) in ops:
                    return PW.of(ops[type(e.op)]())
            raise Und(f"operator in {ast.unparse(e)[:40]}")
        if isinstance(e, (ast.ListComp, ast.GeneratorExp)):
            g = e.generators[0]
            it = ev(g.iter, env)
            if len(e.generators) != 1 or g.ifs:
                raise Und("comprehension")
            if isinstance(it, _Seq):
                e2 = dict(env)
                bind(g.target, it.elem, e2)
                return _Seq(ev(e.elt, e2))
            if isinstance(it, tuple):
                res = []
                for el in it:
                    e2 = dict(env)
                    bind(g.target, el, e2)
                    res.append(ev(e.elt, e2))
                return tuple(res)
            raise Und("comprehension over an unknown value")
        if isinstance(e, ast.Call):
            fn = e.func
            fname = ast.unparse(fn)
            if isinstance(fn, ast.Name) and isinstance(env.get(fn.id), _Closure):
                cl = env[fn.id]
                e2 = dict(cl.env)
                a_ = cl.node.args
                names = [x.arg for x in a_.posonlyargs + a_.args]
                for nm, arg in zip(names, e.args):
                    e2[nm] = ev(arg, env)
                for k in e.keywords:
                    e2[k.arg] = ev(k.value, env)
                r = run(cl.node.body, e2)
                return NONE if r is None else r
            if fname == "zip":
                args = [ev(x, env) for x in e.args]
                if all(isinstance(x, _Seq) for x in args):
                    return _Seq(tuple(x.elem for x in args))
                raise Und("zip of unknown sequences")
            if fname == "enumerate":
                a0 = ev(e.args[0], env)
                if isinstance(a0, _Seq):
                    return _Seq((A("i"), a0.elem))
                raise Und("enumerate")
            if fname in ("pd.concat", "pandas.concat"):
                return _Frame(flatten(ev(e.args[0], env)))
            if fname in ("pd.DataFrame", "pandas.DataFrame") and not e.args:
                return _Frame()
            if fname in ("cumsum_leading_zero", "jnp.asarray", "np.asarray", "int", "len", "list"):
                v = ev(e.args[0], env) if e.args else NONE
                return v if fname in ("list", "jnp.asarray", "np.asarray") else _Seq(A("x"))
            if isinstance(fn, ast.Attribute):
                recv = ev(fn.value, env)
                if isinstance(recv, _TypeCol) and fn.attr == "isin":
                    v = ev(e.args[0], env)
                    return _Sel([int(rat_of(x).const_value()) for x in v])
                if isinstance(recv, _TypeCol) and fn.attr in ("to_numpy", "astype"):
                    return recv
                if isinstance(recv, _Frame) and fn.attr in ("astype", "reset_index", "copy"):
                    return recv
            raise Und(f"call {fname[:40]}")
        raise Und(f"expression {type(e).__name__}")

    def bind(t, v, env):
        if isinstance(t, ast.Name):
            env[t.id] = v
        elif isinstance(t, (ast.Tuple, ast.List)):
            if not isinstance(v, tuple) or len(v) != len(t.elts):
                raise Und("unpacking")
            for tt, vv in zip(t.elts, v):
                bind(tt, vv, env)
        elif isinstance(t, ast.Attribute) and isinstance(t.value, ast.Name) and t.value.id == "self":
            selfv[t.attr] = v
        else:
            raise Und("assignment target")

    def run(stmts, env):
        for st in stmts:
            if isinstance(st, ast.Expr):
                if isinstance(st.value, ast.Constant):
                    continue
                c = st.value
                if isinstance(c, ast.Call) and isinstance(c.func, ast.Attribute) and c.func.attr in ("append", "extend") and \
                        isinstance(c.func.value, ast.Name) and isinstance(env.get(c.func.value.id), tuple):
                    v = ev(c.args[0], env)
                    env[c.func.value.id] = env[c.func.value.id] + ((v,) if c.func.attr == "append" else tuple(v))
                    continue
                raise Und(f"statement {ast.unparse(st)[:40]}")
            if isinstance(st, ast.Assign):
                names = [ast.unparse(t) for t in st.targets]
                if any(n in ("self._n_nodes", "self._data_inds", "self._indices_jax_spsolve", "self._indptr_jax_spsolve",
                             "self._cumsum_ncomp_per_cell") or "n_nodes" in n
                       for n in names):
                    continue  # conversion to CSC, decided by R-C01-assembly
                v = ev(st.value, env)
                for t in st.targets:
                    bind(t, v, env)
                continue
            if isinstance(st, ast.For):
                it = ev(st.iter, env)
                elems = [it.elem] if isinstance(it, _Seq) else (list(it) if isinstance(it, tuple) else None)
                if elems is None:
                    raise Und("loop over an unknown value")
                for el in elems:
                    bind(st.target, el, env)
                    r = run(st.body, env)
                    if r is not None:
                        return r
                continue
            if isinstance(st, ast.FunctionDef):
                env[st.name] = _Closure(st, env)
                continue
            if isinstance(st, ast.Return):
                return ev(st.value, env) if st.value is not None else NONE
            if isinstance(st, ast.If):
                t = truth(ev(st.test, env))
                if t is None:
                    raise Und("undecidable branch")
                r = run(st.body if t else st.orelse, env)
                if r is not None:
                    return r
                continue
            if isinstance(st, ast.Pass):
                continue
            raise Und(f"statement {type(st).__name__}")
        return None

    run(fi.node.body, {})
    final = selfv.get("_comp_edges")
    blocks = flatten(final)
    return [(b.types, b.a, b.b, b.c, b.node) for b in blocks]


def _channels(repo, col, R="R-C12-channels"):
    fi = repo.method("Module", "_gather_channels_from_constituents")
    ex = idx.expander(repo, fi)
    apps = [s for s in ex.stores if s.kind == "mcall" and s.key.name == "append"]
    for s in apps:
        which = s.base.name if s.base.op == "attr" else None
        g = [x for x in s.guards if x.op == "cmp" and x.name == "not in"]
        if which == "channels":
            ok = bool(g) and T.find(g[-1].args[0], lambda x: x.op == "attr" and x.name == "_name") is not None and \
                T.find(g[-1].args[1], lambda x: x.op == "attr" and x.name == "_name") is not None
            extra = [x for x in s.guards if x.op == "cmp" and x.name == "not in" and
                     T.find(x.args[0], lambda y: y.op == "attr" and y.name == "_name") is None]
            col.check(ok and not extra, R, fi, "channels of the constituents are united by name (and by nothing else)",
                      "if channel._name not in [c._name ...]",
                      f"a channel of a constituent is registered only if {[x.short(60) for x in s.guards if x.op == 'cmp']}: a second channel that "
                      f"shares e.g. its current name with a registered one (K and Km, CaL and CaT) is dropped from `channels`, so it is "
                      f"neither initialised nor listed", node=s.node)
        elif which == "membrane_current_names":
            ok = bool(g) and T.find(g[-1].args[0], lambda x: x.op == "attr" and x.name == "current_name") is not None
            col.check(ok, R, fi, "current names are united", "if channel.current_name not in ...", f"guard is {g[-1].short(80) if g else None}", node=s.node)
    st = [s for s in ex.stores if s.kind == "sub" and s.base.op == "attr" and s.base.name == "loc"]
    if not st:
        # the same fill on the whole column:  nodes[name] = nodes[name].fillna(False)
        fl = [s_ for s_ in ex.stores if s_.kind == "sub" and s_.base.op == "attr" and s_.base.name == "nodes" and s_.value is not None and
              s_.value.op == "mcall" and s_.value.name == "fillna"]
        if not fl:
            raise AnalysisError("_gather_channels_from_constituents: fill of the presence columns vanished")
        s_ = fl[0]
        colk, fv = s_.key, s_.value
        src = fv.args[0]
        arg = fv.args[1] if len(fv.args) > 1 else fv.kw.get("value")
        ok = colk.op == "attr" and colk.name == "_name" and arg is not None and arg.op == "const" and arg.name is False and \
            src.op == "sub" and src.args[1].key() == colk.key() and src.args[0].op == "attr" and src.args[0].name == "nodes"
        col.check(ok, R, fi, "only the presence column of each channel is filled with False where it is NaN",
                  "nodes[name] = nodes[name].fillna(False) (parameters/states of absent channels stay NaN)",
                  f"fills column {colk.short()} with {fv.short(70)}", node=s_.node)
        return
    s = st[0]
    rows, colk = s.key.args
    ok = colk.op == "attr" and colk.name == "_name" and s.value.op == "const" and s.value.name is False and \
        rows.op == "mcall" and rows.name == "isna" and rows.args[0].op == "sub" and rows.args[0].args[1].key() == colk.key()
    col.check(ok, R, fi, "only the presence column of each channel is filled with False where it is NaN",
              "nodes.loc[nodes[name].isna(), name] = False (parameters/states of absent channels stay NaN)",
              f"fills column {colk.short()} on rows {rows.short(60)} with {s.value.short()}", node=s.node)
