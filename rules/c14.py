"""C14 -- init_states puts every mechanism at its voltage-dependent steady state."""
from __future__ import annotations

import ast

from sa.algebra import Und, Rat, rat_of, PW, ObjV, SymDict
from sa.core import AnalysisError, unparse, walk_no_nested
from . import kin
from sa.terms import T

LEVEL = "other"
EXPLANATION = (
    "R-C14-fixpoint: for every built-in channel and every key returned by init_state, substituting the "
    "init_state form for the state atom in the update_states form yields the same form -- a rational "
    "identity over the gate atoms for symbolic dt, v and parameters (so: for every time step, voltage "
    "and parameter value). R-C14-cover: init_state returns every gating state that update_states "
    "evolves. R-C14-rows: in Module.init_states voltages, states and parameters are gathered, and the "
    "results written, with one index array derived from the channel's presence column, and only keys "
    "returned by init_state are written."
)
ASSUMPTIONS = [
    "save_exp is treated as exp (the clip at 20 is outside the physiological range argument of C03)",
    "user-defined channels are out of scope",
]


def check(repo, col, tier):
    from . import c10 as _c10
    col.rule("R-C14-tables", "init_states evaluates the steady states at the table values of each compartment's own parameters", 2)
    _c10.table_values(repo, col, "R-C14-tables")
    # a steady state is a number at EVERY voltage: the rate helpers are finite at their removable singularities (shared with C03)
    from . import c03 as _c03, kin as _kin
    col.rule("R-C14-singular", "removable 0/0 singularities of the rate helpers are guarded and filled continuously", 2)
    _v = col.renamed({"R-C03-singular": "R-C14-singular"})
    _h = {}
    for _f in _kin.CHANNEL_FILES:
        for _fi in _kin.module_helpers(repo, _f):
            _h[_fi.name] = _c03._analyse_helper(repo, _v, _fi)
    _c03._call_site_witnesses(repo, _v, _h)
    col.rule("R-C14-fixpoint", "update_states(init_state(v)) == init_state(v) as a rational identity", 8)
    col.rule("R-C14-cover", "init_state returns every state that update_states evolves", 6)
    col.rule("R-C14-rows", "init_states gathers and writes with the channel's own presence rows", 5)
    # the presence column init_states selects its rows by must survive a second insert of the same channel through another view
    from . import c11 as _c11
    col.rule("R-C14-basestate", "insert decides on the base module's current channel list whether the channel is new", 3)
    _c11._basestate(repo, col, "R-C14-basestate")
    # the keys init_state returns are the instance's own state names (built from self._name): a renamed channel initialises its own columns
    from . import c04 as _c04
    col.rule("R-C14-keys", "init_state reads and returns the declared keys of its own instance", 10)
    for cinfo in kin.mech_classes(repo, "Channel"):
        _c04._check_keys(repo, col, cinfo, "channel", "R-C14-keys", ("init_state",))
    # init_state and update_states evaluate every gate function with the SAME voltage and parameters (no clamp, shift or dropped
    # argument on one side only): otherwise the state that is written is the fixed point of other kinetics than the update's
    col.rule("R-C14-siblings", "init_state and update_states hand the same arguments to every gate function", 6)
    spec_ = kin.load_spec()
    for cinfo in kin.mech_classes(repo, "Channel"):
        if cinfo.name in spec_:
            _c04._sibling_gate_calls(repo, col, cinfo.name, spec_[cinfo.name], cinfo, "R-C14-siblings")
    for cinfo in kin.mech_classes(repo, "Channel"):
        name = cinfo.name
        fi_init = repo.method(name, "init_state")
        fi_upd = repo.method(name, "update_states")
        ev = kin.new_eval(repo)
        try:
            init, _S, _P = kin.call_init(ev, repo, name)
            S = SymDict("S", known={k: v for k, v in init.items()})
            P = SymDict("P")
            upd = ev.call(fi_upd, [S, kin.A("dt"), kin.A("v"), P], selfv=ObjV(name))
            if not isinstance(upd, dict):
                raise Und("update_states does not return a dict display")
        except Und as e:
            col.unk("R-C14-fixpoint", fi_init, "init_state", f"outside the analysable fragment: {e}", node=fi_init.node)
            continue
        for k in sorted(upd):
            col.check(k in init, "R-C14-cover", fi_init, f"init_state covers {k}",
                      "state evolved by update_states is initialised by init_state",
                      f"update_states evolves `{k}` but init_state does not return it: init_states() leaves it "
                      f"at its default instead of its steady state", node=fi_init.node)
        for k in sorted(init):
            if k not in upd:
                col.bad("R-C14-cover", fi_init, f"init_state key {k}",
                        f"init_state returns `{k}` which update_states does not evolve", node=fi_init.node)
                continue
            from sa.algebra import as_pw
            p0, p1 = as_pw(init[k]), as_pw(upd[k])
            for conds, x1 in p1.pieces:
                sub = p0.on(conds).pieces
                for c0, x0 in sub:
                    reg = kin.region_name(ev, conds | c0)
                    col.check(x1.eq(x0), "R-C14-fixpoint", fi_init, f"fixed point of {k} [{reg}]",
                              "a further update at the same voltage leaves the initial state unchanged for every dt",
                              f"init_state value of `{k}` is not a fixed point of update_states: one more step at the "
                              f"same voltage changes it", node=_ret_value(fi_init.node, k),
                              sides={"init_state": repr(x0)[:400], "after one update": repr(x1)[:400]})
    _rows(repo, col)
    # init_states walks `channels`: a channel of a constituent that is not registered there is never initialised
    from . import c12
    col.rule("R-C14-registry", "every channel of the constituents is registered in `channels` (init_states iterates that list)", 2)
    c12._channels(repo, col, "R-C14-registry")


def _ret_value(fn, key):
    for n in walk_no_nested(fn):
        if isinstance(n, ast.Return) and isinstance(n.value, ast.Dict):
            for k, v in zip(n.value.keys, n.value.values):
                if key.split("»")[-1] in unparse(k):
                    return v
    return fn


def _loc_parts(t):
    """(table, rows, col) of a `.loc[rows, col]` / `.loc[rows]` subscript term, else None."""
    if t.op == "sub" and t.args[0].op == "attr" and t.args[0].name in ("loc", "iloc"):
        table = t.args[0].args[0]
        sel = t.args[1]
        if sel.op == "tuple" and len(sel.args) == 2:
            return table, sel.args[0], sel.args[1]
        return table, sel, None
    return None


def _gather_helper(repo, col, R="R-C14-rows"):
    """query_channel_states_and_params(d, keys, idcs) == {k: d[k][idcs] for k in keys}.  A positional shortcut (a slice
    instead of the gather) is the same selection only for CONSECUTIVE indices (all(diff(idcs) == 1))."""
    from . import idx
    hf = repo.func("jaxley/utils/cell_utils.py", "query_channel_states_and_params")
    hx = idx.expander(repo, hf)
    r = hx.merged_return()
    if r is None:
        col.unk(R, hf, "gather helper", "return value not found", node=hf.node)
        return
    subs = [x for x in r.walk() if x.op == "sub" and T.find(x.args[0], lambda y: y.op == "param" and y.name == hf.params[0]) is not None]
    if not subs:
        col.unk(R, hf, "gather helper", f"no gather of the entries found in {r.short(100)}", node=hf.node)
        return
    ip = hf.params[2]
    for x in subs[:1]:
        ix = x.args[1]
        if ix.op == "param" and ix.name == ip:
            col.ok(R, hf, "the helper gathers exactly the given rows", f"d[k][{ip}]", node=hf.node)
            continue
        verdict, why = "UNDECIDED", f"the entries are selected with {ix.short(100)}"
        if ix.op == "ifexp":
            alts = [ix.args[1], ix.args[2]]
            if any(a_.op == "param" and a_.name == ip for a_ in alts) and any(a_.op == "slice" or (a_.op == "call" and a_.name == "slice") for a_ in alts):
                cond = ix.args[0]
                d = T.find(cond, lambda y: y.op == "cmp" and T.find(y, lambda z: z.op == "mcall" and z.name == "diff") is not None)
                if d is not None and d.name == "==" and any(a_.op == "const" and a_.name == 1 for a_ in d.args):
                    verdict, why = "DISCHARGED", "a slice is used only when the rows are consecutive (diff == 1)"
                elif d is not None:
                    verdict = "VIOLATED"
                    why = (f"a slice replaces the gather when `{d.short(60)}`: that holds for any ascending rows, also with gaps "
                           f"(a channel inserted in branches 0 and 2): the slice then reads the rows in between, i.e. the parameters "
                           f"of other compartments")
        col.add(R, hf, "the helper gathers exactly the given rows", verdict, why, node=hf.node)


def _rows(repo, col):
    """Def-use in Module.init_states (terms engine expands the temporaries away)."""
    from sa.terms import Expander, T

    fi = repo.method("Module", "init_states")
    from . import idx
    from sa.terms import fuse_comprehensions as _fuse
    ex = idx.expander(repo, fi)
    KEEP = ("query_channel_states_and_params",)

    class _N:
        """terms in normal form: local helpers looked through, unpacked tuples resolved"""
        def __init__(self, ex_):
            self._ex = ex_
            self.stores = [self._S(s_) for s_ in ex_.stores]

        def term(self, node):
            return _fuse(idx.inline(repo, fi, self._ex.term(node), keep=KEEP))

        class _Sx:
            pass

        def _S(self, s_):
            o = self._Sx()
            o.kind, o.node = s_.kind, s_.node
            o.base = _fuse(idx.inline(repo, fi, s_.base, keep=KEEP)) if s_.base is not None else None
            o.key = _fuse(idx.inline(repo, fi, s_.key, keep=KEEP)) if s_.key is not None else None
            o.value = _fuse(idx.inline(repo, fi, s_.value, keep=KEEP)) if s_.value is not None else None
            return o
    ex = _N(ex)
    # the gather helper hands out, for every key, the entries of the given rows -- no other rows
    _gather_helper(repo, col)
    calls = [n for n in ast.walk(fi.node) if isinstance(n, ast.Call) and isinstance(n.func, ast.Attribute)
             and n.func.attr == "init_state"]
    if not calls:
        raise AnalysisError("Module.init_states no longer calls channel.init_state")
    call = calls[0]
    if len(call.args) < 3:
        col.unk("R-C14-rows", fi, call, "init_state call with unexpected arity")
        return
    st, vv, pp = (ex.term(a) for a in call.args[:3])

    def rows_of(t):
        q = T.find(t, lambda x: x.op == "call" and x.name == "query_channel_states_and_params")
        if q is not None and len(q.args) >= 3:
            return q.args[2]
        if t.op == "dictcomp" and len(t.args) == 3:      # {k: D[k][rows] for k in names}
            k_, v_ = t.args[0], t.args[1]
            if v_.op == "sub" and v_.args[0].op == "sub" and v_.args[0].args[1].key() == k_.key():
                return v_.args[1]
        l = T.find(t, lambda x: _loc_parts(x) is not None)
        if l is not None:
            return _loc_parts(l)[1]
        s = T.find(t, lambda x: x.op == "sub")
        return s.args[1] if s is not None else None

    r_s, r_v, r_p = rows_of(st), rows_of(vv), rows_of(pp)
    for lab, r, node in (("states", r_s, call.args[0]), ("voltages", r_v, call.args[1]), ("params", r_p, call.args[2])):
        if r is None:
            col.unk("R-C14-rows", fi, node, f"cannot find the row selector of the {lab} argument")
            return
    same = r_s.key() == r_v.key() == r_p.key()
    col.check(same, "R-C14-rows", fi, "init_state(states, voltages, params): one row selector",
              "states, voltages and parameters are gathered with the same index array",
              f"the three arguments of init_state are gathered with different rows: states {r_s.short()}, "
              f"voltages {r_v.short()}, params {r_p.short()}", node=call)
    # each gather reads the names of its own kind: states by the channel's state names, parameters by its parameter names
    for lab, t_, want in (("states", st, "channel_states"), ("params", pp, "channel_params")):
        q = T.find(t_, lambda x: x.op == "call" and x.name == "query_channel_states_and_params")
        if q is not None and len(q.args) >= 2:
            names_t = q.args[1]
        elif t_.op == "dictcomp" and len(t_.args) == 3:
            names_t = t_.args[2]         # {k: D[k][rows] for k in NAMES}
        else:
            continue
        names = {x.name for x in T.find_all(names_t, lambda x: x.op == "attr" and x.name in ("channel_states", "channel_params"))}
        col.check(names == {want}, "R-C14-rows", fi, f"the {lab} handed to init_state are the channel's own {want}", f"names from channel.{want}",
                  f"the {lab} argument is gathered with the names of {sorted(names)}", node=call)
    # the voltage column must be the voltage
    lv = T.find(vv, lambda x: _loc_parts(x) is not None)
    vcol = _loc_parts(lv)[2] if lv is not None else None
    col.check(vcol is not None and vcol.op == "const" and vcol.name == "v", "R-C14-rows", fi, "voltage column",
              "the steady state is computed at the compartment's own voltage column `v`",
              f"the voltage argument is gathered from column {vcol.short() if vcol is not None else '?'}, not `v`",
              node=call.args[1])
    # the selector is: nodes.loc[nodes[channel._name]]["global_comp_index"] for the *loop's* channel
    recv = ex.term(call.func.value)
    pres = T.find(r_v, lambda x: x.op == "attr" and x.name == "_name")
    idxcol = T.find(r_v, lambda x: x.op == "const" and x.name == "global_comp_index")
    ok = pres is not None and idxcol is not None and pres.args[0].key() == recv.key()
    col.check(ok, "R-C14-rows", fi, "row selector = presence rows of the channel being initialised",
              "rows are the global compartment indices where this channel's presence column is set",
              f"row selector {r_v.short()} is not derived from the presence column of the channel whose "
              f"init_state is called ({recv.short()})", node=call)
    # states / params come from the module's current tables
    writes = [s_ for s_ in ex.stores if s_.kind == "sub" and s_.base.op == "attr" and s_.base.name == "loc"]
    if not writes:
        raise AnalysisError("Module.init_states no longer writes through .loc")
    for w in writes:
        sel = w.key
        if not (sel.op == "tuple" and len(sel.args) == 2):
            col.unk("R-C14-rows", fi, w.node, "write without (rows, column) selector")
            continue
        rt, kt, vt = sel.args[0], sel.args[1], w.value
        col.check(rt.key() == r_v.key(), "R-C14-rows", fi, "write-back rows",
                  "results are written to the rows they were computed from",
                  f"results are written to rows {rt.short()} but were computed from rows {r_v.short()}", node=w.node)
        res = T.find(kt, lambda x: x.op == "mcall" and x.name == "init_state")
        res2 = T.find(vt, lambda x: x.op == "mcall" and x.name == "init_state")
        # (key, value) of one element of <result>.items(); the value is normalised to <result>[key]
        D_ = idx.dict_entry(kt, vt)   # (key, value) of one entry of init_state's result, however the loop over it is written
        pair_a = pair_b = D_ is not None and D_.op == "mcall" and D_.name == "init_state"
        ok = res is not None and res2 is not None and (pair_a or pair_b)
        col.check(ok, "R-C14-rows", fi, "write-back keys and values come from init_state's result",
                  "each key returned by init_state is written with its own value",
                  f"written column {kt.short(60)} / value {vt.short(60)} are not the (key, value) pairs of "
                  f"init_state's result", node=w.node)
        tbl = w.base.args[0]
        col.check(tbl.op == "attr" and tbl.name == "nodes", "R-C14-rows", fi, "write-back table",
                  "written into the node table", f"written into {tbl.short()}", node=w.node)
