"""C09 -- synaptic current flows from the listed pre- to the listed post-compartment."""
from __future__ import annotations

import ast

from sa.algebra import Und, Rat, PW, rat_of, ONE, ZERO, parse_ref
from sa.arrprog import ArrEvaluator, ArrV, IdxV
from sa.core import AnalysisError, unparse, walk_no_nested
from sa.spaces import Classifier, key_test, table_kind
from sa.terms import Expander, T
from . import idx, c10

LEVEL = "other"
NW = "jaxley/modules/network.py"
EXPLANATION = (
    "R-C09-space: in Network._step_synapse_state / _synapse_currents every gather of voltages, radius, "
    "length uses indices whose values are node rows (N) taken from the pre/post column of the edge table "
    "grouped by type in edge-table order (groupby(sort=False) <-> type mask of to_jax), the name "
    "assertion is present, and trainable synapse parameters/states are scattered after the E->S rank "
    "conversion. R-C09-roles: the argument bound to the presynaptic voltage derives from column "
    "pre_global_comp_index, the postsynaptic one from post_global_comp_index (update_states, "
    "compute_current through vmap); area conversion, linearisation voltage and scatter use the post "
    "side. R-C09-linear: slope = (I1 - I0)/diff, offset = I0 - slope*v_post -- same normal form and "
    "accumulation signs as the channel linearisation (factor 1000 there). R-C09-additive: per-synapse "
    "terms reach the compartment vector through scatter_add over post indices and types accumulate with "
    "+=/-=. R-C09-types: the type index stored with new edges is the position of the synapse in the "
    "module's synapse list."
)
ASSUMPTIONS = ["pandas groupby(sort=False) keeps first-appearance order of types and row order within a type",
               "scatter_add is commutative up to round-off"]


def check(repo, col, tier):
    col.rule("R-C09-space", "index spaces in the synapse update / current / trainable scatter", 8)
    col.rule("R-C09-roles", "pre/post roles of gathered voltages, area conversion, scatter", 10)
    col.rule("R-C09-linear", "secant linearisation normal form and accumulation signs", 6)
    col.rule("R-C09-additive", "fan-in adds (scatter_add, +=)", 4)
    col.rule("R-C09-types", "type index == position in the synapse list; order assertion", 4)
    cl = idx.compute_slots(repo, col, "R-C09-space", emit=("jaxedges", "pstate"))
    c10.scatter_sites(repo, col, cl, "R-C09-space", "R-C09-space")
    for name in ("_step_synapse_state", "_synapse_currents"):
        _roles(repo, col, cl, name)
    _linear(repo, col)
    _additive(repo, col)
    _types(repo, col)
    from . import c01_solver, c11
    from . import c20 as _c20
    # the table handed on by _step_synapse is the one it received
    ss_ = repo.method("Network", "_step_synapse")
    exs_ = idx.expander(repo, ss_)
    for c_ in exs_.calls:
        if isinstance(c_.func, ast.Attribute) and c_.func.attr in ("_step_synapse_state", "_synapse_currents"):
            t_ = exs_.term(c_)
            cal_ = repo.method("Network", c_.func.attr)
            pos_ = [p_ for p_ in cal_.params if p_ != "self"].index("edges")
            a_ = t_.kw.get("edges") or (t_.args[pos_ + 1] if len(t_.args) > pos_ + 1 else None)
            col.check(a_ is not None and a_.op == "param" and a_.name == "edges", "R-C09-space", ss_,
                      f"_step_synapse hands its edge table to {c_.func.attr} as received", "edges",
                      f"{c_.func.attr} receives `{a_.short(80) if a_ is not None else None}`: rows re-ordered or filtered here no longer line up with the per-type "
                      f"parameter and state arrays, which are in .edges order", node=c_)
    col.rule("R-C09-edgerows", "edge table construction: one row per pair, pre / post compartment columns from their own side", 6)
    _c20.edge_rows(repo, col, "R-C09-edgerows")
    from . import cable as _cable
    col.rule("R-C09-area", "a point current in nA becomes a density over the membrane area 2 pi r l of its compartment (x 1e5 for uA/cm2)", 1)
    _cable.check_point_process(repo, col, "R-C09-area")
    col.rule("R-C09-units", "the synaptic current enters the voltage equation like every other current (divided by the capacitance)", 2)
    st_ = repo.method("Module", "step")
    ex_ = idx.expander(repo, st_)
    d_ = next((n for n in walk_no_nested(st_.node) if isinstance(n, ast.Dict) and any(isinstance(k, ast.Constant) and k.value == "voltage_terms" for k in n.keys)), None)
    if d_ is None:
        raise AnalysisError("Module.step: solver arguments not found")
    kw_ = {k.value: ex_.term(v) for k, v in zip(d_.keys, d_.values) if isinstance(k, ast.Constant)}
    c01_solver.current_terms(repo, col, "R-C09-units", st_, ex_, kw_, d_)
    col.rule("R-C09-interface", "every synapse type implements update_states / compute_current with the interface's parameter order", 4)
    _interface(repo, col)
    col.rule("R-C09-select", "a synapse-type name selects the view's synapses of that type by their global edge index", 3)
    c11._named(repo, col, "R-C09-select")
    col.rule("R-C09-rows", "synapse parameters are written only to the selected synapses of the type that has the parameter", 6)
    c10._rows(repo, col, "R-C09-rows")
    col.rule("R-C09-conductance", "every synaptic current is proportional to the synapse's conductance", 3)
    conductance_factor(repo, col, "R-C09-conductance")
    col.rule("R-C09-pstate", "values fed through a synapse view reach the simulation, after the trainables", 4)
    c10._pstate_args(repo, col, "R-C09-pstate")
    col.rule("R-C09-nameparse", "the mechanism that owns a parameter is never inferred by parsing the parameter's name", 6)
    name_parsing(repo, col, "R-C09-nameparse")


def conductance_factor(repo, col, R):
    """`compute_current` of every synapse type, as an exact form in its states, parameters and the two voltages: the current is a
    MULTIPLE of the maximal conductance of the synapse (the declared parameter `<name>_g...`), so a synapse with zero conductance
    injects nothing -- whatever its reversal potential -- and the postsynaptic cell behaves as if simulated alone."""
    from . import kin
    from sa.algebra import Und as _Und
    n = 0
    for cinfo in kin.mech_classes(repo, "Synapse"):
        fi = repo.method(cinfo.name, "compute_current")
        ev = kin.new_eval(repo)
        try:
            form, S, P = kin.call_current(ev, repo, cinfo.name, "synapse")
            form = kin.rat_of(form) if hasattr(kin, "rat_of") else form
        except _Und as e:
            col.unk(R, fi, f"{cinfo.name}: current proportional to the conductance", f"outside the analysable fragment: {e}", node=fi.node)
            continue
        gs = sorted(k for k in P.reads if k.split("»_")[-1].startswith("g"))
        if not gs:
            col.unk(R, fi, f"{cinfo.name}: current proportional to the conductance", f"no conductance parameter among {sorted(P.reads)}", node=fi.node)
            continue
        n += 1
        atoms = [a_ for a_ in (set(form.n.atoms()) | set(form.d.atoms())) if any(a_ == f"P[{g}]" for g in gs)]
        zero = form
        for a_ in atoms:
            zero = kin.subst_atom(zero, a_, kin.ZERO if hasattr(kin, "ZERO") else (form - form))
        col.check(bool(atoms) and zero.is_zero(), R, fi, f"{cinfo.name}: the current vanishes with the conductance {gs}",
                  "I = g * (...)", f"with {gs} = 0 the current of {cinfo.name} is {zero}, not 0: a synapse of zero conductance still "
                  f"injects current (the current is not a multiple of the conductance -- lost parentheses?)", node=fi.node)
    if n < 2:
        raise AnalysisError(f"conductance factor: only {n} synapse types analysed")


PARSERS = ("split", "rsplit", "partition", "rpartition", "startswith", "endswith", "removeprefix", "removesuffix", "find", "index")


def _parses_key(node):
    """a string-parsing call on a key-like name (`key.split("_")`, `name.startswith(...)`)"""
    for x in ast.walk(node):
        if isinstance(x, ast.Call) and isinstance(x.func, ast.Attribute) and x.func.attr in PARSERS and \
                isinstance(x.func.value, ast.Name) and x.args and isinstance(x.args[0], ast.Constant) and isinstance(x.args[0].value, str):
            return x
    return None


def name_parsing(repo, col, R):
    """Parameter and state names are `<mechanism name>_<parameter>`; both parts are free text -- `IonotropicSynapse(name="exc_syn")`,
    `e_syn`.  No split / prefix test recovers the mechanism from such a name for every name.  The functions that assemble and step
    the simulation (get_all_parameters, get_all_states, to_jax, Module.step and what it calls) take the owner from the tables
    (`edges["type"]`, the synapse's own `synapse_params`), never from the text of the key."""
    from . import common
    # the detector itself, on a known positive (kept so that a rule with zero expected findings cannot pass vacuously)
    probe = ast.parse('is_type = edges["type"].to_numpy() == key.split("_")[0]')
    if _parses_key(probe) is None:
        raise AnalysisError("name-parsing detector does not recognise its reference example")
    cg = common._callgraph(repo)
    by_key = {(f.file, f.qual): f for f in repo.all_functions()}
    roots = [repo.method("Module", n_) for n_ in ("get_all_parameters", "get_all_states", "to_jax", "step")]
    seen, todo = set(), [(f.file, f.qual) for f in roots]
    while todo:
        k = todo.pop()
        if k in seen:
            continue
        seen.add(k)
        todo.extend(cg.get(k, ()))
    n = 0
    for k in sorted(seen):
        f = by_key.get(k)
        if f is None or not f.file.startswith("jaxley/modules/") or f.qual.startswith("View."):
            continue
        hit = _parses_key(f.node)
        n += 1
        col.check(hit is None, R, f, f"{f.qual} does not recover a mechanism from the text of a key", "owner taken from the tables",
                  f"`{unparse(hit)[:60] if hit is not None else ''}` in {f.qual}: the mechanism (synapse type / channel) is inferred from the parameter's "
                  f"name; for a mechanism whose name contains the separator (`IonotropicSynapse(name='exc_syn')`) nothing matches and every "
                  f"value set through data_set / trainables lands on the wrong synapse (or on none)", node=hit or f.node)


def _col_of(t: T):
    """'pre' / 'post' if the index term derives from pre_/post_global_comp_index (only one of them)."""
    cols = {x.name for x in t.walk() if x.op == "const" and x.name in ("pre_global_comp_index", "post_global_comp_index")}
    if len(cols) == 1:
        return cols.pop().split("_")[0]
    return None


def _gather_role(t: T):
    """For voltages[IDX] (+ perturbation, stacked): (array key, 'pre'/'post')."""
    subs = [x for x in t.walk() if x.op == "sub" and x.args[0].op == "sub" and x.args[0].args[1].op == "const"]
    roles = {(x.args[0].args[1].name, _col_of(x.args[1])) for x in subs}
    return roles


def _roles(repo, col, cl, name, R="R-C09-roles", RS="R-C09-space"):
    fi = repo.method("Network", name)
    ex = idx.expander(repo, fi)
    from sa.terms import fuse_comprehensions as _fuse

    def N(t):
        """normal form: helpers of the class / module that only compute a value are looked through, unpacked tuples resolved"""
        return _fuse(idx.inline(repo, fi, t))
    # grouping: sort=False -- every groupby that the pre/post index lists and the type names go through
    gbs = {}
    for c in ex.calls:
        for x in N(ex.term(c)).walk():
            if x.op == "mcall" and x.name == "groupby":
                gbs[x.key()] = x
    ok = bool(gbs) and all(len(x.args) >= 2 and x.args[1].op == "const" and x.args[1].name == "type" and
                           x.kw.get("sort") is not None and x.kw["sort"].op == "const" and x.kw["sort"].name is False for x in gbs.values())
    col.check(ok, RS, fi, f"{name}: edges grouped by type in table order", "groupby('type', sort=False)",
              "the grouping by synapse type may reorder types relative to the per-type parameter arrays", node=fi.node)
    # ... and the rows WITHIN a type stay in table order: the per-type parameter / state arrays (to_jax) are in .edges order, so the
    # table that is grouped is the table that was handed in -- not a sorted / shuffled / re-indexed version of it (sort_values is
    # not even stable by default)
    REORDER = ("sort_values", "sort_index", "sample", "reindex", "take", "nlargest", "nsmallest", "sort")

    def order_kept(t):
        while True:
            if t.op == "mcall" and t.name in ("copy", "reset_index", "astype", "infer_objects") and t.args:
                t = t.args[0]
            elif t.op == "sub" and t.args[1].op in ("list", "const"):
                t = t.args[0]            # a column selection
            else:
                break
        return t.op == "param" or (t.op == "attr" and t.name == "edges"), t
    for x in gbs.values():
        kept, src = order_kept(x.args[0])
        reord = T.find(x.args[0], lambda y: y.op == "mcall" and y.name in REORDER) is not None or \
            T.find(x.args[0], lambda y: y.op == "sub" and y.args[1].op == "slice" and len(y.args[1].args) == 3 and y.args[1].args[2].op != "const") is not None
        col.add(RS, fi, f"{name}: rows within a synapse type stay in the order of the edge table", "DISCHARGED" if kept else ("VIOLATED" if reord else "UNDECIDED"),
                "the table handed in is grouped as it is" if kept else
                f"the grouped table is `{x.args[0].short(80)}`: pre / post index lists are built from re-ordered rows while the per-type parameter and state "
                f"arrays stay in .edges order (and sort_values is not stable: rows of one type are permuted) -- a synapse runs with another synapse's parameters",
                node=x.node or fi.node)
    asserts = [n for n in ast.walk(fi.node) if isinstance(n, ast.Assert)]
    ok = False
    for a in asserts:
        tt = N(ex.term(a.test))
        if tt.op == "cmp" and tt.name == "==" and len(tt.args) == 2:
            has_name = [T.find(x, lambda y: y.op == "attr" and y.name == "_name") is not None for x in tt.args]
            from_groups = [T.find(x, lambda y: y.op == "mcall" and y.name == "groupby") is not None for x in tt.args]
            ok = ok or (has_name[0] and from_groups[1]) or (has_name[1] and from_groups[0])
    col.check(ok, "R-C09-types", fi, f"{name}: order of grouped types asserted against the synapse list",
              "assert synapse_names[i] == synapse_type._name", "the ordering assertion was removed", node=fi.node)
    # index spaces of every gather of a node array
    n_sp = 0
    for kind, arr, ix, node in idx.gather_sites(ex):
        if arr.op == "sub" and arr.args[1].op == "const" and arr.args[1].name in ("v", "radius", "length") and _col_of(N(ix)):
            n_sp += idx.check_site(repo, col, cl, RS, fi, kind, arr, ix, node, kcs=("node",))
    if n_sp == 0:
        raise AnalysisError(f"{name}: no gather of node arrays with pre/post indices found")
    if name == "_step_synapse_state":
        call = next((c for c in ex.calls if isinstance(c.func, ast.Attribute) and c.func.attr == "update_states"), None)
        if call is None:
            raise AnalysisError("_step_synapse_state no longer calls update_states")
        fi_sig = repo.method("IonotropicSynapse", "update_states").params  # self, states, delta_t, pre_voltage, post_voltage, params
        pos = {p: i - 1 for i, p in enumerate(fi_sig)}
        for pname, want in (("pre_voltage", "pre"), ("post_voltage", "post")):
            a = N(ex.term(call.args[pos[pname]]))
            roles = _gather_role(a)
            col.check(roles == {("v", want)}, R, fi, f"update_states: {pname} is the voltage at the {want}synaptic compartment",
                      f"voltages[{want}_inds]", f"argument `{pname}` is {a.short(100)} (roles {roles})", node=call)
        # states written back under the same key
        st = [s for s in ex.stores if s.kind == "sub" and s.base.op == "param" and s.base.name == fi.params[1]]
        ok = bool(st) and all(s.key.op == "item" and s.value.op == "item" and s.key.args[0].key() == s.value.args[0].key() for s in st)
        # or: states.update(<dict returned by update_states>) -- keys and values travel together by construction
        upd = [s for s in ex.stores if s.kind == "mcall" and s.key.name == "update" and s.base.op == "param" and s.base.name == fi.params[1]]
        if not st and upd:
            ok = all(len(s.value.args) == 2 and T.find(s.value.args[1], lambda x: x.op == "mcall" and x.name == "update_states") is not None
                     for s in upd)
        col.check(ok, R, fi, "updated synapse states are written back under their own keys", "states[key] = val",
                  "updated states are stored under other keys", node=st[0].node if st else fi.node)
        return
    # ---- _synapse_currents
    # the application of the vmapped compute_current, wherever the vmapped function is bound in between
    vm, vm_t = None, None
    for c in ex.calls:
        t_ = ex.term(c)
        if t_.op == "callv" and t_.args and t_.args[0].op in ("call", "mcall") and t_.args[0].name == "vmap" and \
                T.find(t_.args[0], lambda x: x.op == "attr" and x.name == "compute_current") is not None:
            vm, vm_t = c, t_
            break
    if vm is None:
        raise AnalysisError("_synapse_currents no longer vmaps compute_current")
    sig = repo.method("IonotropicSynapse", "compute_current").params  # self, states, pre_voltage, post_voltage, params
    pos = {p: i - 1 for i, p in enumerate(sig)}
    vargs = list(vm_t.args[1:])
    for pname, want in (("pre_voltage", "pre"), ("post_voltage", "post")):
        a = N(vargs[pos[pname]])
        roles = _gather_role(a)
        col.check(roles == {("v", want)}, R, fi, f"compute_current: {pname} is the voltage at the {want}synaptic compartment",
                  f"stack([voltages[{want}_inds], voltages[{want}_inds] + diff])", f"argument `{pname}` is {a.short(100)} (roles {roles})", node=vm)
    axes_t = vm_t.args[0].kw.get("in_axes")
    axes_ok = axes_t is not None and axes_t.op == "tuple" and [a_.name if a_.op == "const" else "?" for a_ in axes_t.args] == \
        [0 if p_ in ("pre_voltage", "post_voltage") else None for p_ in sig[1:]]
    col.check(axes_ok, R, fi,
              "vmap maps over the two stacked voltages only", "in_axes=(None, 0, 0, None)",
              f"in_axes is {axes_t.short(40) if axes_t is not None else None}", node=vm)
    conv = next((c for c in ex.calls if isinstance(c.func, ast.Name) and c.func.id == "convert_point_process_to_distributed"), None)
    if conv is None:
        raise AnalysisError("_synapse_currents no longer converts the point-process current")
    for i, key in ((1, "radius"), (2, "length")):
        a = N(ex.term(conv.args[i]))
        roles = _gather_role(a)
        col.check(roles == {(key, "post")}, R, fi, f"area conversion uses the {key} of the postsynaptic compartment",
                  f"params['{key}'][post_inds]",
                  f"the synaptic current is divided by an area built from {sorted(map(str, roles))}: the {key} must be "
                  f"the postsynaptic compartment's", node=conv.args[i])
    gs = next((c for c in ex.calls if isinstance(c.func, ast.Name) and c.func.id == "gather_synapes"), None)
    if gs is None:
        raise AnalysisError("_synapse_currents no longer calls gather_synapes")
    a1 = N(ex.term(gs.args[1]))
    col.check(_col_of(a1) == "post", R, fi, "currents are scattered to the postsynaptic compartments", "gather_synapes(n, post_inds, ...)",
              f"scatter index is {a1.short(80)}", node=gs)
    a0 = ex.term(gs.args[0])
    col.check(a0.op == "call" and a0.name == "len" and T.find(a0, lambda x: x.op == "const" and x.name == "v") is not None, R, fi,
              "scatter target has one entry per compartment", "len(voltages)", f"size is {a0.short()}", node=gs)
    # recorded current state
    st = [s for s in ex.stores if s.kind == "sub" and s.key.op == "fstr"]
    ok = bool(st) and st[0].value.op == "sub" and st[0].value.args[1].op == "const" and st[0].value.args[1].name == 0 and \
        T.find(st[0].value, lambda x: x.op == "callv") is not None
    col.check(ok, R, fi, "states['i_<name>'] holds the unperturbed per-synapse current", "synapse_currents[0]",
              f"stored {st[0].value.short(80) if st else None}", node=st[0].node if st else fi.node)


def _interface(repo, col, R="R-C09-interface"):
    """The network calls update_states / compute_current of EVERY synapse type positionally, with the argument order of the
    base class `Synapse` (sibling implementations of one interface must agree, Engler et al.)."""
    from . import kin
    kin.interface_agreement(repo, col, R, "Synapse", ("update_states", "compute_current"), 4)


def _snippet_eval(repo, fi, names, env):
    """Evaluate the assignments of the function body in source order with the array evaluator
    (statements outside the fragment are skipped); returns the values bound to `names`."""
    ev = ArrEvaluator(repo)
    ctx = {"mod": repo.mods[fi.file], "cls": fi.cls, "defining_cls": fi.cls}
    out = {}
    stmts = sorted((n for n in ast.walk(fi.node) if isinstance(n, ast.Assign) and isinstance(n.targets[0], ast.Name)),
                   key=lambda n: (n.lineno, n.col_offset))
    seeded = set(env)
    for st in stmts:
        nm = st.targets[0].id
        if nm in seeded and nm not in names:
            continue  # a seeded abstract value (arrays, index arrays, symbolic diff) is not overwritten
        try:
            v = ev.ev(st.value, env, ctx)
        except Und as e:
            if nm in names:
                raise Und(f"{nm}: {e}")
            continue
        env[nm] = v
        if nm in names:
            out[nm] = (v, st)
    return ev, out


def _linear(repo, col):
    """Secant linearisation of the currents, decided on the defining terms of what is accumulated (no local name matters):
    slope = (I(v + d) - I(v)) / d, offset = I(v) - slope * v at the compartment the current flows into, with ONE small positive d
    that is also the perturbation of the stacked voltages handed to compute_current."""
    R = "R-C09-linear"
    from sa.termalg import term_rat as _trat
    from sa.algebra import Rat as _Rat, Und as _Und
    from sa.terms import fuse_comprehensions as _fuse
    fc = repo.method("Module", "_channel_currents")
    fs = repo.method("Network", "_synapse_currents")

    def is_cur(x):
        """the evaluated currents: vmap(<mechanism>.compute_current)(...) / its conversion to a current density"""
        if x.op == "call" and x.name == "convert_point_process_to_distributed" and x.args:
            return is_cur(x.args[0])
        return x.op == "callv" and T.find(x.args[0], lambda y: y.op == "attr" and y.name == "compute_current") is not None

    def is_v(x):
        return x.op == "sub" and x.args[0].op == "sub" and x.args[0].args[0].op == "param" and x.args[0].args[0].name in ("states", "u") and \
            x.args[0].args[1].op == "const" and x.args[0].args[1].name == "v"

    def analyse(fi, slope_t, off_t, who, rows_key, node):
        cur = T.find(slope_t, is_cur)
        if cur is None:
            col.unk(R, fi, f"{fi.name}: linearisation", "the evaluated currents were not found in the slope", node=node)
            return None
        raw = cur
        while raw.op == "call":
            raw = raw.args[0]
        stacks = [x for x in raw.walk() if x.op == "mcall" and x.name == "stack" and len(x.args) > 1 and x.args[1].op in ("list", "tuple") and len(x.args[1].args) == 2]
        ds = set()
        ok_stack = bool(stacks)
        for st_ in stacks:
            v0, v1 = st_.args[1].args
            good = v1.op == "binop" and v1.name == "+" and v1.args[0].key() == v0.key() and v1.args[1].op == "const" and is_v(v0)
            ok_stack = ok_stack and good
            if good:
                ds.add(v1.args[1].name)
        col.check(ok_stack and len(ds) == 1, R, fi, f"{fi.name}: the currents are evaluated at [v, v + d] for one perturbation d",
                  f"stack([v[rows], v[rows] + {sorted(ds)}])", f"the stacked voltages are {[x.short(70) for x in stacks]}", node=node)
        if len(ds) != 1:
            return None
        d = ds.pop()
        col.check(isinstance(d, (int, float)) and 0 < d <= 0.01, R, fi, f"{fi.name}: the perturbation is small and positive", str(d), f"d = {d}", node=node)

        def leaf(x):
            if x.op == "sub" and x.args[1].op == "const" and x.args[1].name in (0, 1) and x.args[0].key() == cur.key():
                return _Rat.atom(f"I{x.args[1].name}")
            if is_v(x):
                return _Rat.atom("V@" + ("own" if x.args[1].key() == rows_key else x.args[1].key()[:40]))
            return None
        try:
            slope, off = _trat(slope_t, leaf), _trat(off_t, leaf)
        except _Und as e:
            col.unk(R, fi, f"{fi.name}: linearisation", str(e), node=node)
            return None
        from fractions import Fraction as _Fr
        dd = _Rat.const(_Fr(str(d)))
        I0, I1, V = _Rat.atom("I0"), _Rat.atom("I1"), _Rat.atom("V@own")
        w_slope = (I1 - I0) / dd
        col.check(slope.eq(w_slope), R, fi, f"{fi.name}: slope = (I(v+d) - I(v)) / d with the d of the stacked voltages", "secant slope",
                  f"slope is {slope}, required (I1 - I0)/{d}", node=node)
        col.check(off.eq(I0 - w_slope * V), R, fi, f"{fi.name}: offset = I(v) - slope * v at the {who} compartment",
                  "I0 - slope * v[rows the current flows into]", f"offset is {off}; required I0 - slope * v at the {who} rows", node=node)
        return d
    ds_ = {}
    # channels: what is added into the two accumulators
    exc = idx.expander(repo, fc)
    rc = exc.returns[-1] if exc.returns else None
    accs = rc.args[1].args if (rc is not None and rc.op == "tuple" and len(rc.args) == 2 and rc.args[1].op == "tuple" and len(rc.args[1].args) == 2) else None
    if accs is None:
        raise AnalysisError("Module._channel_currents no longer returns (states, (voltage terms, constant terms))")
    adds = []
    for acc in accs:
        ad = T.find(_fuse(idx.inline(repo, fc, acc)), lambda x: x.op == "mcall" and x.name in ("add", "set") and x.args and x.args[0].op == "sub" and
                    x.args[0].args[0].op == "attr" and x.args[0].args[0].name == "at" and len(x.args) > 1)
        adds.append(ad)
    if None in adds:
        raise AnalysisError("Module._channel_currents: the accumulation into the voltage / constant terms was not found")
    rows_t = adds[0].args[0].args[1]
    col.check(adds[0].name == adds[1].name == "add" and adds[1].args[0].args[1].key() == rows_t.key(), R, fc,
              "channels: both terms are accumulated at the channel's own compartments", ".at[rows].add(...) twice, same rows",
              f"the accumulations are {adds[0].short(60)} / {adds[1].short(60)}", node=fc.node)

    def unit(t_):
        """t_ == c * X: (c, X) for a numeric factor c (the mA -> uA conversion), else (1, t_)"""
        neg = False
        while t_.op == "unary" and t_.name == "USub":
            neg, t_ = not neg, t_.args[0]
        c_, X = 1, t_
        if t_.op == "binop" and t_.name == "*":
            for k_, o_ in ((0, 1), (1, 0)):
                if t_.args[k_].op == "const" and isinstance(t_.args[k_].name, (int, float)):
                    c_, X = t_.args[k_].name, t_.args[o_]
        while X.op == "unary" and X.name == "USub":
            neg, X = not neg, X.args[0]
        return (-c_ if neg else c_), X
    (cv, Xv), (cc, Xc) = unit(adds[0].args[1]), unit(adds[1].args[1])
    col.check(cv == 1000 and cc == -1000, R, fc, "channels: voltage terms += 1000 * slope, constant terms += -1000 * offset",
              "mA/cm^2 -> uA/cm^2, the offset with the opposite sign", f"factors are {cv} (slope) and {cc} (offset)", node=fc.node)
    ds_["_channel_currents"] = analyse(fc, Xv, Xc, "own", rows_t.key(), fc.node)
    # synapses: what is handed to gather_synapes
    exs0 = idx.expander(repo, fs)
    gs0 = next((c for c in exs0.calls if isinstance(c.func, ast.Name) and c.func.id == "gather_synapes" and len(c.args) >= 4), None)
    if gs0 is None:
        raise AnalysisError("Network._synapse_currents no longer calls gather_synapes(n, post rows, slope, offset)")
    KEEP_ = ("convert_point_process_to_distributed",)   # the area conversion is one factor on both currents (decided by R-C09-area)
    post_rows = _fuse(idx.inline(repo, fs, exs0.term(gs0.args[1]), keep=KEEP_))
    sl_t, of_t = (_fuse(idx.inline(repo, fs, exs0.term(gs0.args[k]), keep=KEEP_)) for k in (2, 3))
    if sl_t.op != "binop" or sl_t.name != "/":      # (the order of the two is a separate obligation below)
        sl_t, of_t = of_t, sl_t
    ds_["_synapse_currents"] = analyse(fs, sl_t, of_t, "post", post_rows.key(), gs0)
    vals = [v for v in ds_.values() if v is not None]
    col.check(len(vals) == 2 and vals[0] == vals[1], R, fs, "both linearisations perturb by the same small voltage", str(ds_),
              f"perturbations are {ds_}", node=fs.node)
    # accumulation signs (synapses): the returned pair is (sum of the gathered slopes, MINUS the sum of the gathered offsets),
    # read off the returned terms -- `x += g[0]`, `x = x + g0` after unpacking, ... are the same
    from sa.termalg import term_rat as _trat
    from sa.algebra import Rat as _Rat, Und as _Und
    exs_ = idx.expander(repo, fs)
    rr = exs_.returns[-1] if exs_.returns else None
    pair = None
    if rr is not None and rr.op == "tuple" and len(rr.args) == 2 and rr.args[1].op == "tuple" and len(rr.args[1].args) == 2:
        pair = rr.args[1].args

    def acc_form(t):
        """form of one loop-carried accumulator in the atoms c (value before the iteration), g0 / g1 (gathered slope / offset)"""
        body = t
        if t.op == "phi":
            alts = [a_ for a_ in t.args if T.find(a_, lambda x: x.op == "call" and x.name == "gather_synapes") is not None]
            if len(alts) != 1:
                raise _Und("accumulator is not a loop-carried sum")
            body = alts[0]

        def leaf(x):
            if x.op == "item" and isinstance(x.name, int) and x.args[0].op == "call" and x.args[0].name == "gather_synapes":
                return _Rat.atom(f"g{x.name}")
            if x.op == "sub" and x.args[0].op == "call" and x.args[0].name == "gather_synapes" and x.args[1].op == "const" and \
                    isinstance(x.args[1].name, int):
                return _Rat.atom(f"g{x.args[1].name}")
            if x.op == "phi" and any(a_.op == "carried" for a_ in x.args):
                return _Rat.atom("c")
            if x.op == "carried":
                return _Rat.atom("c")
            return None
        return _trat(body, leaf)
    if pair is None:
        col.unk(R, fs, "synapses: voltage terms += slope, constant terms -= offset (same signs as channels)",
                "the returned (voltage terms, constant terms) pair was not found", node=fs.node)
    else:
        try:
            fa, fb = acc_form(pair[0]), acc_form(pair[1])
            c_, g0, g1 = _Rat.atom("c"), _Rat.atom("g0"), _Rat.atom("g1")
            ok = fa.eq(c_ + g0) and fb.eq(c_ - g1)
            col.check(ok, R, fs, "synapses: voltage terms += slope, constant terms -= offset (same signs as channels)",
                      "(c + g[0], c - g[1])", f"the accumulators are updated as ({fa}, {fb}) with c the running sum and g = gather_synapes(...): "
                      f"required (c + g0, c - g1)", node=fs.node)
        except _Und as e:
            col.unk(R, fs, "synapses: voltage terms += slope, constant terms -= offset (same signs as channels)", str(e), node=fs.node)
    ex = idx.expander(repo, fs)
    gs = next((c for c in ex.calls if isinstance(c.func, ast.Name) and c.func.id == "gather_synapes"), None)
    if gs is not None:
        # roles by what the arguments ARE: the slope is the difference quotient (contains a division by the perturbation),
        # the offset is built from the slope
        t2, t3 = ex.term(gs.args[2]), ex.term(gs.args[3])
        is_slope = lambda t_: t_.op == "binop" and t_.name == "/"
        has_slope = lambda t_, sl: T.find(t_, lambda x: x.key() == sl.key()) is not None
        if is_slope(t2) and not is_slope(t3) and has_slope(t3, t2):
            verdict = "DISCHARGED"
        elif is_slope(t3) and not is_slope(t2) and has_slope(t2, t3):
            verdict = "VIOLATED"
        else:
            verdict = "UNDECIDED"
        col.add(R, fs, "gather_synapes receives (slope, offset) in that order", verdict,
                "(difference quotient, offset)" if verdict == "DISCHARGED" else
                f"receives ({t2.short(60)}, {t3.short(60)})", node=gs)


def _additive(repo, col, R="R-C09-additive"):
    fi = repo.func("jaxley/utils/syn_utils.py", "gather_synapes")
    ex = idx.expander(repo, fi)
    if not ex.returns or ex.returns[0].op != "tuple" or len(ex.returns[0].args) != 2:
        raise AnalysisError("gather_synapes no longer returns a pair")
    p = fi.params
    def scatter_parts(t):
        """(op, base, index, update) of lax.scatter_add(base, idx[:, None], upd, dnums) and of base.at[idx].add/set(upd)"""
        if t.op == "call" and t.name in ("scatter_add", "scatter") and len(t.args) >= 3:
            return ("add" if t.name == "scatter_add" else "set"), t.args[0], t.args[1], t.args[2]
        if t.op == "mcall" and t.name in ("scatter_add", "scatter") and len(t.args) >= 4:
            return ("add" if t.name == "scatter_add" else "set"), t.args[1], t.args[2], t.args[3]
        if t.op == "mcall" and t.name in ("add", "set") and t.args[0].op == "sub" and t.args[0].args[0].op == "attr" and \
                t.args[0].args[0].name == "at" and len(t.args) > 1:
            return t.name, t.args[0].args[0].args[0], t.args[0].args[1], t.args[1]
        return None

    for i, (t, want_param) in enumerate(zip(ex.returns[0].args, (p[2], p[3]))):
        t = idx.inline(repo, fi, t)  # a local helper that sums per compartment is looked through
        parts = scatter_parts(t)
        if parts is None:
            col.unk(R, fi, f"gather_synapes: output {i}", f"not a scatter: {t.short(80)}", node=t.node or fi.node)
            continue
        op, base, ix, upd = parts
        col.check(op == "add", R, fi, f"gather_synapes: output {i} accumulates (scatter-add)",
                  "currents of several synapses onto one compartment add",
                  f"output {i} is built with a scatter that overwrites: when several synapses project onto one compartment only one "
                  f"contribution survives", node=t.node or fi.node)
        col.check(T.find(base, lambda x: x.op == "mcall" and x.name in ("zeros", "zeros_like")) is not None, R, fi,
                  f"gather_synapes: output {i} starts from zeros", "zeros(number_of_compartments)", f"base {base.short()}", node=t.node)
        col.check(T.find(ix, lambda x: x.op == "param" and x.name == p[1]) is not None, R, fi,
                  f"gather_synapes: output {i} is scattered with the post indices", p[1], f"index {ix.short()}", node=t.node)
        col.check(upd.op == "param" and upd.name == want_param, R, fi, f"gather_synapes: output {i} scatters `{want_param}`",
                  want_param, f"scatters {upd.short()}", node=t.node)


def _types(repo, col):
    R = "R-C09-types"
    fi = repo.method("Network", "_infer_synapse_type_ind")
    ex = idx.expander(repo, fi)
    from sa.terms import canon
    r = ex.merged_return()
    r = canon(r) if r is not None else None
    ok = False
    if r is not None and r.op == "ifexp" and all(b.op == "tuple" and b.args for b in r.args[1:]):
        # lifted form: (A, x) if c else (B, y)  ->  type index A if c else B
        r = T("tuple", None, [T("ifexp", None, [r.args[0], r.args[1].args[0], r.args[2].args[0]])])
    if r is not None and r.op == "tuple":
        ti = r.args[0]
        # len(names) if new else names.index(name)
        # the branches must BE len(names) / names.index(name), not merely contain them (len(names) - 1 is wrong)
        if ti.op == "ifexp":
            c_ = ti.args[0]
            known, new_ = ti.args[1], ti.args[2]
            if c_.op == "cmp" and c_.name == "not in":
                known, new_ = new_, known
            ok = c_.op == "cmp" and c_.name in ("in", "not in") and \
                T.find(c_.args[1], lambda x: x.op == "attr" and x.name == "synapse_names") is not None and \
                new_.op == "call" and new_.name == "len" and known.op == "mcall" and known.name == "index" and \
                all(T.find(b, lambda x: x.op == "attr" and x.name == "synapse_names") is not None for b in (known, new_))
    col.check(ok, R, fi, "type index of a new synapse type = current number of types, else its position",
              "len(names) if new else names.index(name)", f"returns {r.short(120) if r else None}", node=fi.node)
    fu = repo.method("Network", "_update_synapse_state_names")
    exu = idx.expander(repo, fu)
    apps = {s.base.name if s.base.op == "attr" else None: s for s in exu.stores if s.kind == "mcall" and s.key.name == "append"}
    col.check("synapse_names" in apps and "synapses" in apps, R, fu, "name and synapse are appended together (same position)",
              "synapse_names.append / synapses.append", f"appends to {sorted(k for k in apps if k)}", node=fu.node)
    fa = repo.method("Network", "_append_multiple_synapses")
    exa = idx.expander(repo, fa)
    st = [s for s in exa.stores if s.kind == "sub" and s.key.op == "const" and s.key.name == "type_ind"]
    ok = bool(st) and st[0].value.op == "item" and st[0].value.name == 0 and \
        T.find(st[0].value, lambda x: x.op == "mcall" and x.name == "_infer_synapse_type_ind") is not None
    col.check(ok, R, fa, "new edges store the inferred type index", "new_rows['type_ind'] = type_ind",
              f"stores {st[0].value.short() if st else None}", node=st[0].node if st else fa.node)
    # the inference happens before the registration of a new type
    order = [unparse(n.func).split(".")[-1] for n in ast.walk(fa.node) if isinstance(n, ast.Call) and isinstance(n.func, ast.Attribute)
             and n.func.attr in ("_infer_synapse_type_ind", "_update_synapse_state_names")]
    lines = {n.func.attr: n.lineno for n in ast.walk(fa.node) if isinstance(n, ast.Call) and isinstance(n.func, ast.Attribute)
             and n.func.attr in ("_infer_synapse_type_ind", "_update_synapse_state_names")}
    col.check(lines.get("_infer_synapse_type_ind", 10**9) < lines.get("_update_synapse_state_names", -1), R, fa,
              "type index is inferred before the new type is registered", "infer, then register",
              "a new type is registered before its index is inferred (off by one)", node=fa.node)
