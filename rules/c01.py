"""C01 -- every voltage step is the exact solution of the discretised cable equation
(structural necessary conditions; see EXPLANATION)."""
from __future__ import annotations

import ast
from fractions import Fraction as Fr

from sa.algebra import (Und, Rat, PW, ObjV, SymArr, NONE, rat_of, as_pw, ONE, ZERO, Evaluator, Atoms)
from sa.core import AnalysisError, unparse, walk_no_nested
from sa.terms import Expander, T
from . import idx, kin

LEVEL = "other"
SU = "jaxley/utils/solver_utils.py"
SV = "jaxley/solver_voltage.py"
EXPLANATION = (
    "The numerical claim (unique solution up to backward error) is not decidable statically. Decided, "
    "each a necessary condition: R-C01-layout -- the accessors of the solve indexer (first/last/branch/"
    "lower/upper) agree, as affine forms in symbolic per-branch counts n[b] <= W[b], with the writer "
    "remap_index_to_masked that places compartment k of branch b at C[b]+k, and both construction sites "
    "hand the same tables to writer and indexer. R-C01-ends -- parents attach at the last real "
    "compartment, children at the first, in the edge table and in the elimination steps. R-C01-schedule "
    "-- deepest-level-first triangulation, top-down back-substitution, per-level call order. R-C01-elim "
    "-- the four elimination steps are Gaussian row operations (canonical-form identities). R-C01-"
    "assembly -- contribution tables of both implicit back ends equal the backward-Euler matrix rows. "
    "R-C01-scheme -- bwd_euler/crank_nicolson/fwd_euler formulas and solver_kwargs. R-C01-refuse -- a back "
    "end that does not implement an edge class refuses it."
)
ASSUMPTIONS = ["tridiax kernels (third party) are correct", "numerical stability / pivoting not decided"]


def check(repo, col, tier):
    col.rule("R-C01-layout", "indexer accessors agree with the writer of the padded layout", 8)
    _layout(repo, col)
    from . import c01_solver
    c01_solver.check(repo, col, tier)
    # "for every parameter setting": geometry given at simulation time (trainables, data_set) must reach the coupling
    # conductances of the matrix, not only the parameter dictionary (shared with C02/C05/C10/C15)
    from . import c10
    col.rule("R-C01-derived", "the axial conductances of the step are derived from the overridden parameters", 1)
    c10.derived_after_overrides(repo, col, "R-C01-derived")


# --------------------------------------------------------------------------------------
# layout


def _lz_cumsum_hook(ev, e, env, ctx):
    return None


def _mk_eval(repo):
    ev = kin.new_eval(repo)

    # cumsum / leading-zero cumsum of a symbolic per-branch table
    class Cum:
        def __init__(self, of):
            self.of = of

    def p_cumsum(self, args, kw, node):
        a = args[0]
        if isinstance(a, SymArr) and a.step is None:
            return Cum(a.name)
        raise Und("cumsum of a non-table")

    def p_concat(self, args, kw, node):
        lst = args[0]
        if isinstance(lst, tuple) and len(lst) == 2 and isinstance(lst[1], Cum):
            z = lst[0]
            zz = z[0] if isinstance(z, tuple) and len(z) == 1 else z
            if rat_of(zz).is_zero():
                return SymArr({"n": "Cu", "W": "C"}.get(lst[1].of, "cum_" + lst[1].of), step=lst[1].of)
        raise Und("concatenate")

    def p_diff(self, args, kw, node):
        a = args[0]
        if isinstance(a, SymArr) and a.step is not None:
            return SymArr(a.step)
        raise Und("diff of a non-cumulative table")

    def p_asarray(self, args, kw, node):
        return args[0]

    ev.PRIMS = dict(ev.PRIMS)
    ev.PRIMS.update({"cumsum": p_cumsum, "concatenate": p_concat, "diff": p_diff, "asarray": p_asarray,
                     "array": p_asarray})
    return ev


class RangeV:
    def __init__(self, start, end):
        self.start, self.end = start, end


def _layout(repo, col, R="R-C01-layout"):
    # ---- writer: slot of compartment k of branch b
    wfi = repo.func(SU, "remap_index_to_masked")
    ev = _mk_eval(repo)

    def nodes_hook(ev_, e, env, ctx):
        # nodes.loc[index, "global_branch_index"]  ->  branch b of that compartment
        if isinstance(e.value, ast.Attribute) and e.value.attr == "loc" and isinstance(e.slice, ast.Tuple) and \
                len(e.slice.elts) == 2 and isinstance(e.slice.elts[1], ast.Constant) and \
                e.slice.elts[1].value == "global_branch_index":
            i = rat_of(ev_.ev(e.slice.elts[0], env, ctx))
            want = Rat.atom("Cu[b]") + Rat.atom("k")
            if i.eq(want):
                return PW.of(Rat.atom("b"))
            raise Und("branch lookup of an unexpected index")
        return None

    ev.sub_hooks.append(nodes_hook)
    params = wfi.params
    if len(params) != 4:
        raise AnalysisError("remap_index_to_masked signature changed")
    try:
        slot = rat_of(ev.call(wfi, [PW.of(Rat.atom("Cu[b]") + Rat.atom("k")), ObjV("DataFrame"),
                                    SymArr("C", step="W"), SymArr("n")]))
    except Und as e:
        col.unk(R, wfi, "remap_index_to_masked", f"outside the analysable fragment: {e}", node=wfi.node)
        return
    want = Rat.atom("C[b]") + Rat.atom("k")
    col.check(slot.eq(want), R, wfi, "writer: compartment k of branch b is stored at C[b] + k",
              "slot = padded_cumsum[b] + (index - cumsum[b])",
              f"remap_index_to_masked places compartment k of branch b at {slot}, not at C[b] + k", node=wfi.node,
              sides={"slot": repr(slot)})
    # ---- construction sites: what is handed to the indexer
    sites = []
    for cls in ("Cell", "Network"):
        fi = repo.method(cls, "_init_morph_jaxley_spsolve")
        ex = idx.expander(repo, fi)
        ctor = [c for c in ex.calls if isinstance(c.func, ast.Name) and c.func.id == "JaxleySolveIndexer"]
        remap = [c for c in ex.calls if isinstance(c.func, ast.Name) and c.func.id == "remap_index_to_masked"]
        if not ctor or not remap:
            raise AnalysisError(f"{cls}._init_morph_jaxley_spsolve: indexer construction vanished")
        ct, rm = ex.term(ctor[0]), ex.term(remap[0])
        kw = dict(ct.kw)
        pos_names = ["cumsum_ncomp", "branchpoint_group_inds", "children_in_level", "parents_in_level", "root_inds",
                     "remapped_node_indices", "ncomp_per_branch"]
        for i, a in enumerate(ct.args):
            kw[pos_names[i]] = a
        rm_args = list(rm.args)
        same_table = "cumsum_ncomp" in kw and len(rm_args) >= 3 and kw["cumsum_ncomp"].key() == rm_args[2].key()
        col.check(same_table, R, fi, f"{cls}: writer and indexer receive the same padded table",
                  "remap_index_to_masked(..., T, ...) and JaxleySolveIndexer(cumsum_ncomp=T)",
                  "the indexer is built from a different cumulative table than the one the writer used", node=ctor[0])
        remapped = kw.get("remapped_node_indices")
        col.check(remapped is not None and remapped.key() == rm.key(), R, fi,
                  f"{cls}: the indexer's mask is the writer's result", "remapped_node_indices = remap_index_to_masked(...)",
                  "idx.mask does not use the writer's mapping", node=ctor[0])
        col.check(len(rm_args) >= 4 and rm_args[3].op == "attr" and rm_args[3].name == "ncomp_per_branch" and
                  rm_args[0].op == "attr" and rm_args[0].name == "_internal_node_inds", R, fi,
                  f"{cls}: writer is applied to all internal nodes with the real per-branch counts",
                  "remap_index_to_masked(self._internal_node_inds, self.nodes, T, self.ncomp_per_branch)",
                  f"writer called with {[a.short(30) for a in rm_args]}", node=remap[0])
        npb = kw.get("ncomp_per_branch")
        real_counts = npb is not None and npb.op == "attr" and npb.name == "ncomp_per_branch"
        sites.append((cls, fi, ctor[0], real_counts, npb))
    # ---- readers
    for cls, fi, node, real_counts, npb in sites:
        ev = _mk_eval(repo)
        obj = ObjV("JaxleySolveIndexer")
        init = repo.method("JaxleySolveIndexer", "__init__")
        names = init.params[1:]
        args = []
        for n in names:
            if n == "cumsum_ncomp":
                args.append(SymArr("C", step="W"))
            elif n == "ncomp_per_branch":
                if npb is None:
                    args.append(NONE)
                elif real_counts:
                    args.append(SymArr("n"))
                else:
                    args.append(SymArr("other"))
            else:
                args.append(NONE)
        try:
            ev.call(init, args, selfv=obj)
        except Und as e:
            col.unk(R, init, f"JaxleySolveIndexer.__init__ as built by {cls}", f"outside the analysable fragment: {e}", node=init.node)
            continue

        def consec(ev_, a, kw_):
            return RangeV(rat_of(a[0]), rat_of(a[1]))

        ev.opaque_calls["_consecutive_indices"] = consec

        def block_slice(ev_, e, env, ctx):
            """`block[:, lo:hi]` of a block of consecutive indices (one row per branch) is the block [start+lo, end+hi) (hi < 0) --
            `branch(b)[:, 1:]` is lower(b), `branch(b)[:, :-1]` is upper(b)"""
            sl = e.slice
            if not (isinstance(sl, ast.Tuple) and len(sl.elts) == 2 and all(isinstance(x, ast.Slice) for x in sl.elts)):
                return None
            rows, cols = sl.elts
            if rows.lower is not None or rows.upper is not None or rows.step is not None or cols.step is not None:
                return None
            if not isinstance(e.value, (ast.Call, ast.Name, ast.Attribute)):
                return None
            try:
                base = ev_.ev(e.value, env, ctx)
            except Und:
                return None
            if not isinstance(base, RangeV):
                return None

            def const(x):
                if x is None:
                    return None
                v = rat_of(ev_.ev(x, env, ctx))
                if not v.is_const():
                    raise Und("block column bound is not a constant")
                return int(v.const_value())
            lo, hi = const(cols.lower), const(cols.upper)
            if (lo is not None and lo < 0) or (hi is not None and hi >= 0):
                raise Und("block column slice counted from the other end")
            start = base.start + Rat.const(lo) if lo else base.start
            end = base.end + Rat.const(hi) if hi else base.end
            return RangeV(start, end)

        ev.sub_hooks.append(block_slice)
        b = PW.of(Rat.atom("b"))
        C, W, n = Rat.atom("C[b]"), Rat.atom("W[b]"), Rat.atom("n[b]")
        wants = {
            "first": ("slot of the first compartment (k = 0)", C),
            "last": ("slot of the last real compartment (k = n[b] - 1)", C + n - ONE),
        }
        for m, (what, want) in wants.items():
            mfi = repo.method("JaxleySolveIndexer", m)
            try:
                got = rat_of(ev.call(mfi, [b], selfv=obj))
            except Und as e:
                col.unk(R, mfi, f"{m}(b) as built by {cls}", f"outside the analysable fragment: {e}", node=mfi.node)
                continue
            got = _simplify(got)
            col.check(got.eq(want), R, mfi, f"{m}(b) for the indexer built by {cls}",
                      f"{m}(b) = {want}: {what}",
                      f"`idx.{m}(b)` evaluates to {got} but the writer put the "
                      f"{'last real' if m == 'last' else 'first'} compartment of branch b at {want}; the two agree only "
                      f"if W[b] == n[b], i.e. when no branch of the level is padded (branches with different numbers of "
                      f"compartments are mis-solved)", node=mfi.node,
                      sides={"accessor": repr(got), "writer": repr(want)})
        ranges = {
            "branch": (C, C + W, "the padded block [C[b], C[b+1])"),
            "lower": (C + ONE, C + W, "[C[b]+1, C[b+1])"),
            "upper": (C, C + W - ONE, "[C[b], C[b+1]-1)"),
        }
        for m, (s0, e0, what) in ranges.items():
            mfi = repo.method("JaxleySolveIndexer", m)
            try:
                got = ev.call(mfi, [b], selfv=obj)
                if not isinstance(got, RangeV):
                    raise Und("does not return _consecutive_indices(start, end)")
            except Und as e:
                col.unk(R, mfi, f"{m}(b) as built by {cls}", f"outside the analysable fragment: {e}", node=mfi.node)
                continue
            gs, ge = _simplify(got.start), _simplify(got.end)
            col.check(gs.eq(s0) and ge.eq(e0), R, mfi, f"{m}(b) for the indexer built by {cls}",
                      f"spans {what}",
                      f"`idx.{m}(b)` spans [{gs}, {ge}) but the tridiagonal kernels must sweep {what}", node=mfi.node)
    # what _consecutive_indices(start, end) returns: row b = start[b], start[b]+1, ..., end[b]-1 (the accessors above were
    # evaluated with this meaning; here the body is held to it)
    cfi = repo.method("JaxleySolveIndexer", "_consecutive_indices")
    cex = idx.expander(repo, cfi)
    from sa.termalg import term_rat as _trat
    ps_ = [p_ for p_ in cfi.params if p_ != "self"]
    main = next((r_ for r_, gs in zip(cex.returns, cex.return_guards)
                 if T.find(r_, lambda x: x.op == "mcall" and x.name == "arange") is not None), None)
    if main is None or len(ps_) != 2:
        col.unk(R, cfi, "_consecutive_indices(start, end): rows start .. end-1", "main return value not found", node=cfi.node)
    else:
        S_, E_ = ps_
        is_n = lambda x: x.op == "binop" and x.name == "-" and x.args[0].op == "param" and x.args[0].name == E_ and \
            x.args[1].op == "param" and x.args[1].name == S_
        def strip(x):
            while (x.op == "mcall" and x.name in ("astype", "asarray", "array", "copy") and x.args) or \
                    (x.op == "call" and x.name in ("int", "list") and len(x.args) == 1):
                x = x.args[0] if (x.op == "call" or x.args[0].op != "free") else x.args[1]
            return x

        def is_n0(x):
            """(end - start)[0], possibly int(...) / max(..., 0)"""
            x = strip(x)
            if x.op == "call" and x.name == "max" and len(x.args) == 2:
                rest = [a_ for a_ in x.args if not (a_.op == "const" and a_.name == 0)]
                if len(rest) == 1:
                    return is_n0(rest[0])
            return x.op == "sub" and is_n(strip(x.args[0])) and x.args[1].op == "const" and x.args[1].name == 0

        def is_none_colon(ix, none_first):
            if ix.op != "tuple" or len(ix.args) != 2:
                return False
            a_, b_ = ix.args if none_first else reversed(ix.args)
            return a_.op == "const" and a_.name is None and b_.op == "slice" and all(c_.op == "const" and c_.name is None for c_ in b_.args)

        def is_offsets(x):
            """0, 1, ..., n0-1 along the columns: arange(n0) [.astype(int)] [[None, :]]"""
            x = strip(x)
            if x.op == "sub" and is_none_colon(x.args[1], True):
                x = strip(x.args[0])
            elif x.op == "mcall" and x.name == "expand_dims" and len(x.args) >= 2:   # X[None, :] in its normal form
                ax = x.args[2] if len(x.args) > 2 else x.kw.get("axis")
                if ax is not None and ax.op == "const" and ax.name == 0:
                    x = strip(x.args[1])
            return x.op == "mcall" and x.name == "arange" and len(x.args) == 2 and is_n0(x.args[1])

        def is_start_param(x):
            x = strip(x)
            return x.op == "param" and x.name == S_

        def is_starts(x):
            """start[b] in every column of row b: reshape(repeat(start, n), (-1, n0)), start[:, None], start.reshape(-1, 1),
            expand_dims(start, 1)"""
            x = strip(x)
            if x.op == "sub" and is_none_colon(x.args[1], False):
                return is_start_param(x.args[0])
            if x.op == "mcall" and x.name == "expand_dims":
                ax = x.args[2] if len(x.args) > 2 else x.kw.get("axis")
                return len(x.args) >= 2 and is_start_param(x.args[1]) and ax is not None and ax.op == "const" and ax.name in (1, -1)
            if x.op == "mcall" and x.name == "reshape":
                lib = x.args[0].op == "free"
                arr = x.args[1] if lib else x.args[0]
                shp = x.args[2] if lib and len(x.args) > 2 else (x.args[1] if not lib and len(x.args) > 1 else None)
                if shp is None or shp.op != "tuple" or len(shp.args) != 2 or not (
                        (shp.args[0].op == "const" and shp.args[0].name == -1) or
                        (shp.args[0].op == "unary" and shp.args[0].name == "USub" and shp.args[0].args[0].op == "const" and shp.args[0].args[0].name == 1)):
                    return False
                if is_start_param(arr):
                    return shp.args[1].op == "const" and shp.args[1].name == 1
                arr = strip(arr)
                return arr.op == "mcall" and arr.name == "repeat" and len(arr.args) == 3 and is_start_param(arr.args[1]) and \
                    is_n(strip(arr.args[2])) and is_n0(shp.args[1])
            return False
        ok = main.op == "binop" and main.name == "+" and (
            (is_starts(main.args[0]) and is_offsets(main.args[1])) or (is_starts(main.args[1]) and is_offsets(main.args[0])))
        col.check(ok, R, cfi, "_consecutive_indices(start, end): row b lists start[b], start[b]+1, ..., end[b]-1",
                  "<start[b] in every column> + <0 .. n-1 along the columns>, n = (end - start)[0]",
                  f"_consecutive_indices returns {main.short(200)}: not the sum of the start of every row and the offsets 0 .. (end - start)[0] - 1; "
                  f"the sweeps of the tridiagonal kernels would run over other slots than the blocks the writer filled", node=cfi.node)
    # equal-width assertion
    has_assert = any(isinstance(n_, ast.Assert) for n_ in walk_no_nested(cfi.node))
    col.check(has_assert, R, cfi, "branches of unequal width are refused", "assertion present",
              "the equal-width assertion of _consecutive_indices was removed: levels of unequal padded width would be "
              "mis-indexed instead of refused", node=cfi.node)
    mfi = repo.method("JaxleySolveIndexer", "mask")
    exm = idx.expander(repo, mfi)
    r = exm.returns[0] if exm.returns else None
    col.check(r is not None and r.op == "sub" and r.args[0].op == "attr" and r.args[0].name == "remapped_node_indices"
              and r.args[1].op == "param", R, mfi, "mask(i) = remapped_node_indices[i]", "lookup in the writer's table",
              f"mask returns {r.short() if r else None}", node=mfi.node)


def _simplify(r: Rat) -> Rat:
    """Rewrite C[b+1]-style atoms are already expanded by SymArr; nothing else to do."""
    return r
