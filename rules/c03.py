"""C03 -- gates stay finite and in [0,1] and follow the exact exponential update."""
from __future__ import annotations

import ast
from fractions import Fraction as Fr

from sa import api
from sa.algebra import (Und, Rat, PW, ObjV, SymDict, rat_of, as_pw, ONE, ZERO, rat_sign, GuardV)
from sa.core import AnalysisError, unparse, walk_no_nested
from . import kin
from . import idx

LEVEL = "other"
EXPLANATION = (
    "R-C03-api: every third-party call site in the gate/mechanism files binds against the runtime "
    "signature of the installed library. R-C03-convex: every state update of the 9 built-in mechanisms "
    "has the canonical form x*E + x_inf*(1-E) with E = exp(-dt*k), i.e. the closed-form solution of the "
    "gate's linear ODE at frozen voltage (identity for symbolic x, dt, v, parameters). R-C03-sign: k > 0 "
    "and 0 < x_inf < 1 by coefficient-sign analysis over positive atoms (exp(.), dt, exprel(.)) so the "
    "update is a convex combination: stays in [0,1], moves toward and never past x_inf. R-C03-helper: "
    "each module-level rate helper equals c*exprel(u) on its main region. R-C03-singular: every helper "
    "whose denominator exp(u)-1 vanishes at u=0 is guarded by where(|u|<eps, alt, main) with alt "
    "continuous with main at u=0; the voltages at which call sites hit u=0 are computed exactly."
)
ASSUMPTIONS = [
    "positivity of *_taumax and *_k_minus parameters (time constant / rate by meaning)",
    "IEEE overflow outside the physiological range is not modelled; save_exp's clip at 20 bounds exp",
]

FILES = ["jaxley/solver_gate.py"] + kin.CHANNEL_FILES + kin.SYNAPSE_FILES + ["jaxley/channels/channel.py",
                                                                              "jaxley/synapses/synapse.py"]


def check(repo, col, tier):
    col.rule("R-C03-api", "third-party call binds against the runtime signature", 300)

    # ---- API-1
    files = None  # whole package: a call that cannot bind breaks whichever property runs through it
    n_api = {"ok": 0, "nosig": 0, "dynamic": 0, "unresolved": 0, "mismatch": 0}
    for rel, q, call, dotted, verdict, msg in api.check_calls(repo, files):
        n_api[verdict] += 1
        if verdict == "ok":
            col.ok("R-C03-api", rel, f"{dotted}(...) in {q}: {unparse(call)[:80]}", "binds", node=call, func=q)
        elif verdict == "mismatch":
            col.bad("R-C03-api", rel, f"{dotted}(...) in {q}: {unparse(call)[:80]}",
                    f"call does not bind against the installed signature: {msg}", node=call, func=q)
        elif verdict == "unresolved" and rel in FILES:
            col.bad("R-C03-api", rel, f"{dotted}(...) in {q}", "callee does not exist in the installed library",
                    node=call, func=q)
    col.info["api_calls"] = n_api

    # ---- the three gate solvers, on symbolic rates: closed-form solution of dx/dt = (x_inf - x)/tau
    col.rule("R-C03-scheme", "gate solvers return x*E + x_inf*(1-E) with the exact x_inf and time constant of their arguments", 3)
    if not _schemes(repo, col):
        return  # the shared solver is wrong: the per-mechanism analysis below would only repeat it (and can blow up)
    from . import c04
    col.rule("R-C03-saturation", "save_exp is exp with an upper clip of the exponent at 20 (finite rates)", 1)
    c04.save_exp_form(repo, col, "R-C03-saturation")
    col.rule("R-C03-convex", "update == x*E + x_inf*(1-E), E = exp(-dt*k)", 10)
    col.rule("R-C03-sign", "k > 0, 0 < x_inf < 1 over positive atoms", 20)
    col.rule("R-C03-helper", "rate helper == c*exprel(u) on its main region", 2)
    col.rule("R-C03-singular", "removable 0/0 singularities are guarded and filled continuously", 2)

    # ---- helpers: prove each equals c*exprel(u), find guards
    helpers = {}
    for f in kin.CHANNEL_FILES:
        for fi in kin.module_helpers(repo, f):
            helpers[fi.name] = _analyse_helper(repo, col, fi)

    # ---- per mechanism updates
    for base, kind in (("Channel", "channel"), ("Synapse", "synapse")):
        for cinfo in kin.mech_classes(repo, base):
            _check_updates(repo, col, cinfo, kind, helpers)

    # ---- singular voltages at call sites (witnesses)
    _call_site_witnesses(repo, col, helpers)

    # ---- divisions written directly in the gate functions (a bypassed helper)
    from . import c05
    c05.gate_divisions(repo, col, "R-C03-singular")

    # ---- the steady state / rate each update moves toward are the mechanism's own (reference equations)
    col.rule("R-C03-steady", "every state relaxes toward the steady state and with the rate of its reference kinetics", 10)
    from . import c04
    spec = kin.load_spec()
    chan = {c.name: c for c in kin.mech_classes(repo, "Channel")}
    syn = {c.name: c for c in kin.mech_classes(repo, "Synapse")}
    for name, sp in spec.items():
        cinfo = chan.get(name) or syn.get(name)
        if cinfo is None:
            raise AnalysisError(f"built-in mechanism class {name} vanished")
        c04.update_laws(repo, col, "R-C03-steady", name, sp, cinfo, sp["kind"])
        for fn, (args, _gk, ra, rb) in sp["gates"].items():
            ev = kin.new_eval(repo)
            gfi = cinfo.methods.get(fn)
            if gfi is None:
                continue
            try:
                ev.call(gfi, [kin.A(a) for a in args], selfv=ObjV(name))
                c04.clipped_exponentials(repo, col, "R-C03-steady", ev, gfi, name, fn, (ra, rb))
            except Und as e:
                col.unk("R-C03-steady", gfi, fn, f"outside the analysable fragment: {e}", node=gfi.node)


    col.rule("R-C03-dt", "mechanisms are advanced by the full time step of the call", 5)
    step_dt(repo, col, "R-C03-dt")
    col.rule("R-C03-rows", "every channel is stepped on its own rows: gathered, advanced and written back with one index", 6)
    channel_step_rows(repo, col, "R-C03-rows")


def step_dt(repo, col, R):
    """Every mechanism is advanced by the FULL time step of the call: what Module.step hands to `_step_channels` / `_step_synapse` as
    their time step is its own `delta_t`, whatever the voltage scheme does with it (Crank-Nicolson halves the step of the implicit
    VOLTAGE solve only); and what `_step_channels*` / `_step_synapse*` hand on to `update_states` is the time step they received."""
    n = 0
    for cls, meth, callees in (("Module", "step", ("_step_channels", "_step_synapse")),
                               ("Module", "_step_channels", ("_step_channels_state",)),
                               ("Module", "_step_channels_state", ("update_states",)),
                               ("Network", "_step_synapse", ("_step_synapse_state",)),
                               ("Network", "_step_synapse_state", ("update_states",))):
        fi = repo.method(cls, meth)
        ex = idx.expander(repo, fi)
        dtp = next((p_ for p_ in fi.params if p_ in ("delta_t", "dt")), None)
        if dtp is None:
            raise AnalysisError(f"{cls}.{meth}: no time-step parameter")
        for c in ex.calls:
            if not (isinstance(c.func, ast.Attribute) and c.func.attr in callees):
                continue
            t = ex.term(c)
            # which argument is the callee's time step: by the callee's signature (package methods) / position 1 of update_states
            a = t.kw.get("delta_t") or t.kw.get("dt")
            if a is None:
                if c.func.attr == "update_states":
                    pos = 1
                else:
                    cal = next((k.methods[c.func.attr] for k in (repo.classes.get("Network"), repo.classes.get("Module")) if k is not None and c.func.attr in k.methods), None)
                    names = [p_ for p_ in cal.params if p_ != "self"] if cal is not None else []
                    pos = next((i for i, p_ in enumerate(names) if p_ in ("delta_t", "dt")), None)
                args = [x for x in t.args[1:]]
                a = args[pos] if pos is not None and pos < len(args) else None
            n += 1
            ok = a is not None and a.op == "param" and a.name == dtp
            col.check(ok, R, fi, f"{cls}.{meth}: {c.func.attr} advances by the time step of the call", f"{dtp}",
                      f"`{c.func.attr}` receives `{a.short(80) if a is not None else None}` as its time step: the gates are advanced by another interval than the "
                      f"voltage (e.g. half a step under Crank-Nicolson), the closed-form update x*E + x_inf*(1-E) is taken with the wrong E", node=c)
    if n < 5:
        raise AnalysisError(f"only {n} time-step hand-overs found")


def channel_step_rows(repo, col, R):
    """Module._step_channels_state: for every channel the states, the voltage and the parameters handed to update_states are gathered
    with ONE row selector (the rows where that channel is present), and every returned state REPLACES (`.set`) exactly those
    rows of the state of the same name.  `.add` would put old + new into the gate, another selector the gates of another
    compartment."""
    import ast as _ast
    from . import idx
    from sa.terms import T, fuse_comprehensions as _fuse
    fi = repo.method("Module", "_step_channels_state")
    ex = idx.expander(repo, fi)
    KEEP = ("query_channel_states_and_params",)

    def N(t):
        return _fuse(idx.inline(repo, fi, t, keep=KEEP))
    calls = [c for c in ex.calls if isinstance(c.func, _ast.Attribute) and c.func.attr == "update_states"]
    if not calls:
        raise AnalysisError("Module._step_channels_state no longer calls channel.update_states")
    call = calls[0]
    t = N(ex.term(call))
    args = list(t.args[1:])
    if len(args) < 4:
        col.unk(R, fi, "update_states(states, dt, voltages, params)", "unexpected arity", node=call)
        return

    def rows_of(a):
        q = a if (a.op == "call" and a.name in KEEP) else None
        if q is not None and len(q.args) >= 3:
            return q.args[2], q.args[0]
        if a.op == "sub":
            return a.args[1], a.args[0]
        if a.op == "dictcomp" and len(a.args) == 3:      # {k: D[k][rows] for k in names}
            k_, v_ = a.args[0], a.args[1]
            if v_.op == "sub" and v_.args[0].op == "sub" and v_.args[0].args[1].key() == k_.key():
                return v_.args[1], v_.args[0].args[0]
            if v_.op == "sub" and v_.args[1].key() == k_.key() and v_.args[0].op == "param":
                whole.append(v_)
        return None, None
    whole = []
    (r_s, src_s), (r_v, src_v), (r_p, src_p) = rows_of(args[0]), rows_of(args[2]), rows_of(args[3])
    for lab_, a_ in (("states", args[0]), ("voltages", args[2]), ("params", args[3])):
        if a_.op == "param" or (a_.op == "sub" and a_.args[0].op == "param" and a_.args[1].op == "const"):
            whole.append(a_)       # `states` / `params` / `states['v']` as they are
    for w_ in whole:
        col.bad(R, fi, "update_states(states, dt, voltages, params): arguments hold the channel's own rows",
                f"`{w_.short(60)}` hands whole arrays (all compartments) to update_states: the channel is stepped in compartments that "
                f"do not carry it, and the result no longer matches the rows it is written back to", node=call)
    if whole:
        return
    if r_s is None or r_v is None or r_p is None:
        col.unk(R, fi, "update_states(states, dt, voltages, params): one row selector", "a gather was not recognised", node=call)
        return
    col.check(r_s.key() == r_v.key() == r_p.key(), R, fi, "update_states(states, dt, voltages, params): one row selector",
              "states, voltage and parameters of the same compartments",
              f"the arguments are gathered with different rows: states {r_s.short(60)}, voltages {r_v.short(60)}, params {r_p.short(60)}", node=call)
    col.check(src_s.op == "param" and src_s.name == "states" and src_p.op == "param" and src_p.name == "params", R, fi,
              "states are gathered from the states, parameters from the parameters", "query(states, ...), query(params, ...)",
              f"the state argument is gathered from `{src_s.short(40)}`, the parameter argument from `{src_p.short(40)}`", node=call)
    col.check(src_v.op == "sub" and src_v.args[0].op == "param" and src_v.args[0].name == "states" and src_v.args[1].op == "const" and
              src_v.args[1].name == "v", R, fi, "the voltage argument is the state `v`", "states['v'][rows]",
              f"the voltage argument is gathered from `{src_v.short(50)}`", node=call)
    # each gather reads the names of its own kind: states by the channel's state names (and the membrane currents), parameters by
    # its parameter names
    for lab_, a_, want_, other_ in (("states", args[0], "channel_states", "channel_params"), ("params", args[3], "channel_params", "channel_states")):
        names_t = a_.args[1] if (a_.op == "call" and a_.name in KEEP and len(a_.args) >= 2) else (a_.args[2] if a_.op == "dictcomp" and len(a_.args) == 3 else None)
        if names_t is None:
            continue
        found_ = {x.name for x in names_t.walk() if x.op == "attr" and x.name in ("channel_states", "channel_params")}
        col.check(want_ in found_ and other_ not in found_, R, fi, f"the {lab_} handed to update_states are gathered by the channel's own {want_}",
                  f"names from channel.{want_}", f"the {lab_} argument is gathered with the names of {sorted(found_)}", node=call)
    recv = t.args[0]
    pres = T.find(r_s, lambda x: x.op == "attr" and x.name == "_name")
    gci = T.find(r_s, lambda x: x.op == "const" and x.name == "global_comp_index")
    col.check(pres is not None and gci is not None and pres.args[0].key() == recv.key(), R, fi,
              "row selector = global compartment indices where the channel being stepped is present", "channel_nodes[channel._name]",
              f"the rows `{r_s.short(80)}` are not derived from the presence column of the channel whose update_states is called", node=call)
    # write-back
    wb = [s_ for s_ in ex.stores if s_.kind == "sub" and s_.base.op == "param" and s_.base.name == "states"]
    if not wb:
        col.bad(R, fi, "updated states are written back", "no store into `states` is left: the gates are never advanced", node=fi.node)
    for s_ in wb:
        k, v = _fuse(s_.key), N(s_.value)
        sc = v if (v.op == "mcall" and v.name in ("set", "add", "multiply", "min", "max")) else None
        if sc is None or sc.args[0].op != "sub" or sc.args[0].args[0].op != "attr" or sc.args[0].args[0].name != "at":
            col.unk(R, fi, f"write-back `{unparse(s_.node)[:60]}`", "not a `.at[rows].set(value)` update", node=s_.node)
            continue
        arr, rows, val = sc.args[0].args[0].args[0], sc.args[0].args[1], sc.args[1] if len(sc.args) > 1 else None
        col.check(sc.name == "set", R, fi, "updated states replace the old ones", ".at[rows].set(new)",
                  f"`{unparse(s_.node)[:80]}` uses `.{sc.name}`: the gate becomes old {'+' if sc.name == 'add' else sc.name} new instead of the "
                  f"value update_states returned", node=s_.node)
        col.check(rows.key() == r_s.key(), R, fi, "updated states are written to the rows they were computed from", "same selector",
                  f"written to rows `{rows.short(60)}` but computed from rows `{r_s.short(60)}`", node=s_.node)
        col.check(arr.op == "sub" and arr.args[0].op == "param" and arr.args[0].name == "states" and arr.args[1].key() == k.key(), R, fi,
                  "the array updated is the state of the key being stored", "states[key] = states[key].at[...]",
                  f"`{unparse(s_.node)[:80]}` stores an update of `{arr.short(40)}` under key `{k.short(30)}`", node=s_.node)
        # (key, value) of one entry of the result of update_states, however the loop over the result is written
        D_ = idx.dict_entry(k, val) if val is not None else None
        pair = D_ is not None and D_.op == "mcall" and D_.name == "update_states"
        col.check(bool(pair), R, fi, "each returned state is stored under its own name", "for key, val in updated.items()",
                  f"key `{k.short(40)}` / value `{val.short(40) if val is not None else None}` are not the (key, value) pairs of update_states' result",
                  node=s_.node)


# --------------------------------------------------------------------------------------


class HelperInfo:
    def __init__(self):
        self.ok = False  # proved == K*exprel(u) on the main region
        self.K = None  # callable(args)->Rat
        self.guarded = False
        self.fi = None
        self.first_order = None  # guarded alternative agrees with the main branch to first order at the singular point
        self.eps = None


def _analyse_helper(repo, col, fi):
    """Evaluate helper(p1..pn) symbolically; prove main == K*exprel(u); judge the guard."""
    info = HelperInfo()
    info.fi = fi
    ev = kin.new_eval(repo)
    ev.trace_div = True
    params = fi.params
    try:
        val = as_pw(ev.call(fi, [kin.A(p) for p in params]))
    except Und as e:
        uses_exp = any(isinstance(n, ast.Call) and unparse(n.func).split(".")[-1] in ("exp", "save_exp", "expm1") for n in ast.walk(fi.node))
        if not uses_exp:
            # a helper without exponentials (e.g. one that combines a pair of rates) cannot hide an exp(u) - 1 singularity; it
            # is analysed where it is called
            col.ok("R-C03-helper", fi, fi.name, f"no exponential in this helper (not evaluable with scalar arguments: {e})", node=fi.node)
            return info
        col.unk("R-C03-helper", fi, fi.name, f"outside the analysable fragment: {e}", node=fi.node)
        return info
    # main region = the piece whose guards are all False (or the single piece)
    main = None
    alts = []
    for conds, r in val.pieces:
        if all(not b for _g, b in conds):
            main = (conds, r)
        else:
            alts.append((conds, r))
    if main is None:
        col.unk("R-C03-helper", fi, fi.name, "no main region found", node=fi.node)
        return info
    conds, r = main
    # find u: denominator must be c*(E - 1) with E a monomial in exp atoms
    u, found = _exprel_arg(ev, r)
    if u is None:
        # not an exprel-shaped helper: judge by sign only (e.g. future helpers)
        col.ok("R-C03-helper", fi, fi.name, "helper has no exp(u)-1 denominator", node=fi.node)
        info.ok = False
        return info
    K = r * (ev.atoms.exp(u) - ONE) / u
    K = kin.eliminate_all(K, sorted(a for a in K.atoms() if a.startswith("exp")))
    if K is not None:
        for p in params:  # drop common factors in the parameters too
            K = kin.eliminate(K, p) or K
    if K is None:
        col.unk("R-C03-helper", fi, fi.name, "main region is not of the form K*u/(exp(u)-1)", node=fi.node)
        return info
    col.ok("R-C03-helper", fi, f"{fi.name} == K*exprel(u)", f"K = {K}, u = {u}", node=fi.node,
           sides={"K": repr(K), "u": repr(u)})
    info.ok = True
    info.K_form, info.u_form, info.params = K, u, params
    # ---- the singular point u = 0: is it excluded from the main region by a guard |u'| < eps, u' ∝ u ?
    guard = None
    for g, b in conds:
        kind, lhs, bound = ev.guards[g]
        if kind == "abs<" and not lhs.is_zero():
            q = u / lhs
            if q.is_const() and bound.is_const() and bound.const_value() > 0:
                guard = (g, lhs, bound.const_value(), q.const_value())
    if guard is None:
        col.bad("R-C03-singular", fi, f"{fi.name}: division by exp(u) - 1",
                f"`{fi.name}({', '.join(params)})` divides by exp(u)-1 with u = {u}, which is 0 at u = 0 where the "
                f"numerator vanishes too (0/0 = NaN); no guard excludes u = 0", node=_first_div(fi.node))
        return info
    info.guarded = True
    g, lhs, eps, q = guard
    # ---- the alternative on |u|<eps must agree with the limit K at u = 0 (continuity),
    #      and to first order when eps is not tiny
    alt = [r2 for c2, r2 in alts if (g, True) in c2]
    if not alt:
        col.unk("R-C03-singular", fi, f"{fi.name}: guarded alternative", "guard without alternative", node=fi.node)
        return info
    alt = alt[0]
    # solve u = 0 for one parameter p (u linear in p)
    p0 = None
    for p in params:
        ac = kin.affine_in(u, p)
        if ac is not None and not ac[0].is_zero():
            a, b = ac
            p0 = (p, -b / a, a)
            break
    if p0 is None:
        col.unk("R-C03-singular", fi, f"{fi.name}: guarded alternative", "cannot solve u = 0", node=fi.node)
        return info
    p, pv, dudp = p0
    alt0 = kin.subst_atom(alt, p, pv)
    K0 = kin.subst_atom(K, p, pv)
    col.check(alt0.eq(K0), "R-C03-singular", fi, f"{fi.name}: value on |u| < {float(eps)}",
              "the guarded alternative equals the limit of the main branch at the singular point",
              f"at u = 0 the guarded alternative evaluates to {alt0} but the limit of the main branch is {K0}: "
              f"the rate jumps at the singular voltage", node=fi.node,
              sides={"alternative at u=0": repr(alt0), "limit": repr(K0)})
    # first order: d(alt)/dp at p0 == d/dp [K*(1 - u/2)] at p0
    try:
        d_alt = kin.subst_atom(_diff(alt, p), p, pv)
        d_main = kin.subst_atom(_diff(K * (ONE - u / Rat.const(2)), p), p, pv)
        first = d_alt.eq(d_main)
    except Und:
        first = None
    info.first_order, info.eps = first, eps
    if first is True:
        col.ok("R-C03-singular", fi, f"{fi.name}: first-order term on |u| < {float(eps)}",
               "alternative is the first-order Taylor polynomial of the main branch", node=fi.node)
    elif eps > Fr(1, 10000):
        col.bad("R-C03-singular", fi, f"{fi.name}: first-order term on |u| < {float(eps)}",
                f"the alternative is only zeroth-order accurate on a window of half-width {float(eps)}; the rate "
                f"error there is of relative size {float(eps) / 2}", node=fi.node)
    else:
        col.ok("R-C03-singular", fi, f"{fi.name}: first-order term on |u| < {float(eps)}",
               f"zeroth-order fill on a window of half-width {float(eps)} (relative error <= {float(eps) / 2})",
               node=fi.node)
    return info


def _first_div(fn):
    for n in ast.walk(fn):
        if isinstance(n, ast.BinOp) and isinstance(n.op, ast.Div):
            return n
    return fn


def _diff(r: Rat, atom: str) -> Rat:
    from sa.algebra import Poly

    def dp(p: Poly) -> Poly:
        out = {}
        for mono, c in p.t.items():
            for i, (a, e) in enumerate(mono):
                if a == atom:
                    m2 = tuple(x for j, x in enumerate(mono) if j != i) + (((a, e - 1),) if e != 1 else ())
                    m2 = tuple(sorted(m2))
                    out[m2] = out.get(m2, 0) + c * e
        return Poly(out)

    if any(a.startswith("exp") for a in r.atoms()):
        raise Und("derivative of a transcendental form")
    return Rat(dp(r.n) * r.d - r.n * dp(r.d), r.d * r.d)


def _exprel_arg(ev, r: Rat):
    """If r = N / (c*(E - 1)) (possibly times other factors) with E an exp monomial, return u = log E."""
    d = r.d
    if len(d.t) < 2:
        return None, None
    # try: d == c*(E - 1)*rest is hard in general; the helper bodies have d == c*(E-1) or c*(1-E)
    terms = sorted(d.t.items(), key=str)
    consts = [(k, v) for k, v in terms if not any(a.startswith("exp") for a, _ in k)]
    exps = [(k, v) for k, v in terms if any(a.startswith("exp") for a, _ in k)]
    if len(exps) != 1 or len(consts) != 1:
        return None, None
    (ke, ve), (kc, vc) = exps[0], consts[0]
    if ve + vc != 0:
        return None, None
    from sa.algebra import Poly, _mono_mul

    E = Rat(Poly({ke: Fr(1)}), Poly({kc: Fr(1)}))
    u = ev.atoms.log(E)
    if any(a.startswith("log#") for a in u.atoms()):
        return None, None
    return u, E


# --------------------------------------------------------------------------------------


def _schemes(repo, col) -> bool:
    R = "R-C03-scheme"
    SG = "jaxley/solver_gate.py"
    a, b, xi, tau = Rat.atom("alpha"), Rat.atom("beta"), Rat.atom("x_inf"), Rat.atom("tau")
    want = {"solve_gate_exponential": (["x", "dt", "alpha", "beta"], a + b, a / (a + b)),
            "exponential_euler": (["x", "dt", "x_inf", "tau"], ONE / tau, xi),
            "solve_inf_gate_exponential": (["x", "dt", "x_inf", "tau"], ONE / tau, xi)}
    allok = True
    for name, (atoms, k_want, xinf_want) in want.items():
        fi = repo.func(SG, name)
        ev = kin.new_eval(repo)
        try:
            new = kin.main_region(ev.call(fi, [kin.A(x) for x in atoms]))
            k, xinf, _E = kin.decompose_update(ev, rat_of(new), "x")
        except Und as e:
            allok = False
            col.bad(R, fi, f"{name}: exponential-Euler form", f"{name} does not return x*exp(-dt*k) + x_inf*(1 - exp(-dt*k)): {e}", node=fi.node)
            continue
        ok = k.eq(k_want) and xinf.eq(xinf_want)
        allok = allok and ok
        col.check(ok, R, fi, f"{name}: rate k = {k_want}, fixed point x_inf = {xinf_want}", "exact closed form of the linear gate ODE",
                  f"{name} relaxes with rate {k} toward {xinf}; the linear gate ODE of its arguments has rate {k_want} and steady state "
                  f"{xinf_want}: a gate at its steady state moves away from it and every update deviates from the closed form",
                  node=fi.node)
    return allok


def _sign_eval(repo, helpers):
    """Evaluator in which proved helpers are opaque positive atoms K(args)*exprel(u(args))."""
    ev = kin.new_eval(repo)
    for name, h in helpers.items():
        if not h.ok:
            continue

        def mk(h):
            def f(ev_, args, kw):
                vals = [rat_of(a) for a in args]
                K, u = h.K_form, h.u_form
                for p, v in zip(h.params, vals):
                    K = kin.subst_atom(K, p, v) if p in K.atoms() else K
                for p, v in zip(h.params, vals):
                    u = kin.subst_atom(u, p, v) if p in u.atoms() else u
                atom = ev_.atoms._opaque("exprel", u)
                return PW.of(K * atom)

            return f

        ev.opaque_calls[name] = mk(h)
    return ev


def _check_updates(repo, col, cinfo, kind, helpers):
    name = cinfo.name
    fi = repo.method(name, "update_states")
    # convex form (helpers inlined)
    ev = kin.new_eval(repo)
    try:
        upd, S, P = kin.call_update(ev, repo, name, kind)
    except Und as e:
        col.unk("R-C03-convex", fi, "update_states", f"outside the analysable fragment: {e}", node=fi.node)
        return
    if not upd:
        col.ok("R-C03-convex", fi, f"{name}: no state", "mechanism has no state to update", node=fi.node)
        return
    evs = _sign_eval(repo, helpers)
    try:
        upd_s, _S, _P = kin.call_update(evs, repo, name, kind)
    except Und as e:
        col.unk("R-C03-sign", fi, "update_states", f"outside the analysable fragment (sign mode): {e}", node=fi.node)
        return
    for key in sorted(upd):
        bad = False
        for conds, new in as_pw(upd[key]).pieces:
            reg = kin.region_name(ev, conds)
            try:
                k, xinf, E = kin.decompose_update(ev, new, f"S[{key}]")
                col.ok("R-C03-convex", fi, f"update of {key} [{reg}]",
                       "new = x*E + x_inf*(1-E) with E = exp(-dt*k): closed-form solution of the linear gate ODE",
                       node=fi.node, sides={"k": repr(k)[:300], "x_inf": repr(xinf)[:300]})
            except Und as e:
                bad = True
                col.bad("R-C03-convex", fi, f"update of {key} [{reg}]",
                        f"the update of `{key}` is not of the form x*exp(-dt*k) + x_inf*(1-exp(-dt*k)): {e}", node=fi.node)
        if bad:
            continue
        try:
            news = rat_of(upd_s[key])
            ks, xs, Es = kin.decompose_update(evs, news, f"S[{key}]")
        except Und as e:
            col.unk("R-C03-sign", fi, f"update of {key}", f"sign mode: {e}", node=fi.node)
            continue
        pos = kin.positive_atoms(evs, [ks, xs])
        sk = rat_sign(ks, pos)
        col.add("R-C03-sign", fi, f"rate of {key} > 0",
                "DISCHARGED" if sk == 1 else ("VIOLATED" if sk == -1 else "UNDECIDED"),
                "k > 0, so 0 < E <= 1" if sk == 1 else
                (f"the relaxation rate of `{key}` is negative for all inputs: E = exp(+dt*|k|) > 1, the state runs away"
                 if sk == -1 else f"sign of the rate of {key} is not decided by coefficient signs: {ks}"), node=fi.node)
        s1 = rat_sign(xs, pos)
        s2 = rat_sign(ONE - xs, pos)
        ok = s1 == 1 and s2 == 1
        col.add("R-C03-sign", fi, f"0 < steady state of {key} < 1",
                "DISCHARGED" if ok else ("VIOLATED" if (s1 == -1 or s2 == -1) else "UNDECIDED"),
                "x_inf and 1 - x_inf have positive coefficients over positive atoms" if ok else
                f"steady state of `{key}` leaves (0,1): sign(x_inf)={s1}, sign(1-x_inf)={s2}; x_inf = {xs}", node=fi.node)


def _call_site_witnesses(repo, col, helpers):
    """For each call of an *unguarded* exprel-shaped helper, the exact voltage at which u = 0."""
    for f in kin.CHANNEL_FILES:
        mi = repo.mod(f)
        for c in mi.classes.values():
            for m in c.methods.values():
                for n in ast.walk(m.node):
                    if isinstance(n, ast.Call) and isinstance(n.func, ast.Name) and n.func.id in helpers:
                        h = helpers[n.func.id]
                        if not h.ok:
                            continue
                        # evaluate the argument in the method's own straight-line environment
                        ev = kin.new_eval(repo)
                        try:
                            env = {}
                            for p in m.params:
                                env[p] = kin.A(p)
                            ctx = {"mod": mi, "cls": c.name, "defining_cls": c.name}
                            for st in m.node.body:
                                if isinstance(st, ast.Assign) and st.lineno < n.lineno:
                                    try:
                                        ev.assign(st.targets[0], ev.ev(st.value, env, ctx), env, ctx)
                                    except Und:
                                        pass
                            args = [rat_of(ev.ev(a, env, ctx)) for a in n.args]
                        except Und:
                            continue
                        u = h.u_form
                        for p, v in zip(h.params, args):
                            if p in u.atoms():
                                u = kin.subst_atom(u, p, v)
                        ac = kin.affine_in(u, "v")
                        if ac is None or ac[0].is_zero():
                            continue
                        v0 = -ac[1] / ac[0]
                        if h.guarded:
                            col.ok("R-C03-singular", m, f"{unparse(n)}: singular at v = {v0}",
                                   f"removable singularity at v = {v0} is covered by the guard in {h.fi.name}", node=n)
                        else:
                            col.bad("R-C03-singular", m, f"{unparse(n)}",
                                    f"rate is 0/0 = NaN at v = {v0} mV (unguarded `{h.fi.name}`)", node=n)
