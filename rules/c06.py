"""C06 -- results do not depend on how the simulation is executed."""
from __future__ import annotations

import ast

from sa.core import AnalysisError, unparse, walk_no_nested
from sa.effects import Effects
from sa.terms import Expander, T
from . import idx

LEVEL = "other"
IG = "jaxley/integrate.py"
JU = "jaxley/utils/jax_utils.py"
EXPLANATION = (
    "R-C06-pure: the transitive write set of integrate over the resolved call graph (receiver-aware "
    "method resolution, closures, functions returned by build_init_and_step_fn) is contained in "
    "{module.jaxnodes, module.jaxedges}; any other store rooted at the module, any in-place mutation of "
    "an argument of integrate or of a mutable default is reported with its call path. Freshness "
    "(.copy(), dict(), comprehensions, functions returning fresh values) is tracked, so dropping a "
    ".copy() or returning an alias of the caller's list is seen. R-C06-taint: no Python branch, numpy "
    "call or scalar conversion on a traced value (parameter values, states, externals) in the functions "
    "reachable from the scan body (jit/vmap would behave differently). R-C06-rng: random number "
    "generators are only used by the connectivity builders. R-C06-scan: nested_checkpoint_scan reshapes "
    "to tuple(nested_lengths)+x.shape[1:], recursion scans lengths[0] and passes lengths[1:], returns "
    "the carry produced by the scan, concatenates outputs along axis 0; integrate pads externals at the "
    "END up to prod(checkpoint_lengths) and truncates recordings."
)
ASSUMPTIONS = ["jax hands freshly built pytrees to functions passed to scan/vmap/checkpoint",
               "round-off differences between XLA fusions are allowed by the property"]

ALLOWED = {".jaxnodes", ".jaxedges", ".jaxnodes[]", ".jaxedges[]"}


def check(repo, col, tier):
    col.rule("R-C06-pure", "write set of integrate within {jaxnodes, jaxedges}", 5)
    col.rule("R-C06-taint", "no Python control flow / numpy / scalar conversion on traced values", 20)
    col.rule("R-C06-rng", "random number generators only in connect.py", 1)
    col.rule("R-C06-scan", "nested checkpoint scan threads carry and inputs correctly", 8)
    _pure(repo, col)
    taint(repo, col, "R-C06-taint")
    _rng(repo, col)
    _scan(repo, col)
    # the number of time points returned, and the state returned with them, do not depend on the checkpoint layout
    # (shared with C07)
    from . import c07
    # under jit the module must come out of integrate as it went in: nothing computed during tracing may stay on it (shared with C18)
    from . import c18 as _c18
    col.rule("R-C06-tracer", "values stored on the module while integrate is traced are concrete arrays", 2)
    _c18._tracer(repo, col, "R-C06-tracer")
    col.rule("R-C06-stepcount", "steps behind the returned state == steps returned, with and without checkpointing", 2)
    ig_ = repo.func(IG, "integrate")
    c07._stepcount(repo, col, ig_, idx.expander(repo, ig_), "R-C06-stepcount")
    # the recordings are the same under every checkpointing layout: column 0 is the initial state, column k the state after k steps,
    # cut at the requested number of steps BEFORE anything else is appended (shared with C07/C08)
    from . import c08 as _c08
    col.rule("R-C06-recs", "recs = concat([initial recording, recordings[:n]]).T", 3)
    _c08._recs(repo, col.renamed({"R-C08-recs": "R-C06-recs"}))



def _pure(repo, col):
    R = "R-C06-pure"
    E = Effects(repo)
    fi = repo.func(IG, "integrate")
    effs = E.summary(fi)
    col.info["effects_functions_analysed"] = len(E._summary)
    col.info["calls"] = dict(total=E.calls_total, resolved=E.calls_resolved, external=E.calls_external,
                             unresolved=E.calls_unresolved)
    if len(E._summary) < 20:
        raise AnalysisError(f"effects analysis reached only {len(E._summary)} functions from integrate")
    seen = set()
    for e in effs:
        k = (e.root, e.path, e.fi.qual, unparse(e.node)[:80])
        if k in seen:
            continue
        seen.add(k)
        chain = " -> ".join([f.qual for f in e.via] + [e.fi.qual])
        if e.root == "module":
            ok = e.path in ALLOWED or e.path.startswith(".jaxnodes") or e.path.startswith(".jaxedges")
            col.check(ok, R, e.fi, f"module{e.path} written via {chain}: {unparse(e.node)[:60]}",
                      "derived cache rebuilt by to_jax",
                      f"calling integrate writes `module{e.path}` ({chain}: `{unparse(e.node)[:80]}`): the module is not "
                      f"left untouched, a repeated call sees different parameters/inputs", node=e.node)
        elif e.root.startswith("param:") and "[*]" in e.path and e.root[6:] in ("pstate", "params", "param_state", "all_params"):
            col.bad(R, e.fi, f"entries of `{e.root[6:]}` rewritten in place via {chain}: {unparse(e.node)[:60]}",
                    f"`{unparse(e.node)[:80]}` ({chain}) stores into the elements of `{e.root[6:]}`: these are the caller's own objects "
                    f"(the dictionaries returned by data_set / get_parameters); the same objects are passed to the next call, which then "
                    f"sees the rewritten values (e.g. indices converted twice)", node=e.node)
        elif e.root.startswith("param:") and e.fi.qual.startswith("integrate") is False and not e.via:
            continue
        elif e.root.startswith("param:"):
            # mutation of an argument of integrate itself
            if e.via and e.via[0].qual == "integrate" or e.fi.qual == "integrate":
                col.bad(R, e.fi, f"argument `{e.root[6:]}` of integrate mutated via {chain}: {unparse(e.node)[:60]}",
                        f"integrate mutates the caller's `{e.root[6:]}`{e.path} in place ({chain}: `{unparse(e.node)[:80]}`); "
                        f"for the default `params=[]` the change persists into every later call", node=e.node)
        elif e.root.startswith("default:"):
            col.bad(R, e.fi, f"mutable default {e.root[8:]} mutated via {chain}", "state leaks between calls", node=e.node)
    # entries of a sequence that a function on the simulation path received: never rewritten (the list may be fresh, its
    # elements are the caller's dictionaries from data_set() / get_parameters())
    by_key = {}
    for f_ in repo.all_functions():
        by_key[f_.file + ":" + f_.qual] = f_
    n_reach = 0
    for k_ in list(E._summary):
        f_ = by_key.get(k_)
        if f_ is None:
            continue
        n_reach += 1
        for e in E.direct(f_):
            if e.root.startswith("param:") and "[*]" in e.path and e.root[6:] in ("pstate", "params", "param_state", "all_params", "trainable_params"):
                col.bad(R, f_, f"entries of `{e.root[6:]}` rewritten in place in {f_.qual}: {unparse(e.node)[:60]}",
                        f"`{unparse(e.node)[:80]}` stores into the elements of `{e.root[6:]}`: these are the caller's own objects (the "
                        f"dictionaries returned by data_set / get_parameters); the same objects are passed to the next call, which then "
                        f"sees the rewritten values (e.g. indices converted twice)", node=e.node)
    col.info["functions_scanned_for_element_mutation"] = n_reach
    # the local copies exist (positive instances for the evidence)
    ex = idx.expander(repo, fi)
    for name in ("externals", "external_inds"):
        # the local that is initialised from module.<name> (whatever the local is called)
        n = next((x for x in walk_no_nested(fi.node) if isinstance(x, ast.Assign) and isinstance(x.targets[0], ast.Name)
                  and any(isinstance(y, ast.Attribute) and y.attr == name and isinstance(y.value, ast.Name) and y.value.id == fi.params[0]
                          for y in ast.walk(x.value))), None)
        if n is None:
            raise AnalysisError(f"integrate: local `{name}` is no longer initialised from module.{name}")
        col.check(E.fresh(ex.term(n.value), fi), R, fi, f"integrate: local {name} is a fresh copy",
                  unparse(n.value), f"`{unparse(n)}` aliases the module's dictionary: later stores change the module", node=n)
    b = repo.func(IG, "build_init_and_step_fn")
    exb = idx.expander(repo, b)
    n = next((x for x in walk_no_nested(b.node) if isinstance(x, ast.Assign) and isinstance(x.targets[0], ast.Name)
              and any(isinstance(y, ast.Attribute) and y.attr == "external_inds" for y in ast.walk(x.value))), None)
    if n is not None:
        col.check(E.fresh(exb.term(n.value), b), R, b, "build_init_and_step_fn: external_inds is a fresh copy",
                  unparse(n.value), f"`{unparse(n)}` aliases the module's dictionary", node=n)
    init = exb.nested.get("init_fn")
    if init is None:
        raise AnalysisError("init_fn vanished")
    aug = [s for s in init.stores if s.kind == "aug"]
    for s in aug:
        col.check(E.fresh(s.base, init.fi), R, init.fi, f"init_fn: `{unparse(s.node)}` extends a fresh list",
                  "pstate is built freshly by params_to_pstate",
                  f"`{unparse(s.node)}` extends {s.base.short(60)} in place, which aliases a caller-owned list "
                  f"(the default `params=[]` of integrate is shared between calls)", node=s.node)


# --------------------------------------------------------------------------------------
# taint

TRACED_PARAMS = {
    "u", "states", "state", "all_states", "params", "all_params", "voltages", "voltage_terms", "constant_terms",
    "axial_conductances", "externals", "v", "pre_voltage", "post_voltage", "i_stim", "i_current", "channel_states",
    "channel_params", "synapse_states", "synapse_params", "x", "y", "current", "radius",
    "diags", "lowers", "uppers", "solves", "branchpoint_conds_children", "branchpoint_conds_parents",
    "branchpoint_weights_children", "branchpoint_weights_parents", "branchpoint_diags", "branchpoint_solves",
    "gating_state", "alpha", "beta", "x_inf", "x_tau", "s_inf", "tau_s", "values_to_sum",
    "current_each_synapse_voltage_term", "current_each_synapse_constant_term", "length_single_compartment",
    "rad", "rad1", "rad2", "r_a", "r_a1", "r_a2", "l", "l1", "l2", "taumax", "vt", "vx", "set_param",
}
UNTAINT_ATTRS = {"shape", "ndim", "dtype", "size"}
UNTAINT_CALLS = {"len", "isinstance", "type", "id", "callable", "hasattr"}
UNTAINT_METHODS = {"keys", "items"}  # dictionary structure is static


def _tainted(t: T, traced, depth=0) -> bool:
    if depth > 60:
        return False
    op = t.op
    if op == "param":
        return t.name in traced
    if op in ("const", "free", "localfn", "undef", "carried", "lambda"):
        return False
    if op == "attr":
        if t.name in UNTAINT_ATTRS:
            return False
        return _tainted(t.args[0], traced, depth + 1)
    if op == "call" and t.name in UNTAINT_CALLS:
        return False
    if op == "mcall":
        if t.name in UNTAINT_METHODS:
            return False
        if t.name == "values" and t.args[0].op == "param":
            return _tainted(t.args[0], traced, depth + 1)
    if op in ("sub", "item") and t.args and t.args[0].op == "param" and t.args[0].name in ("data_stimuli", "data_clamps"):
        # (name, values, table of rows): only the values are traced
        k_ = t.name if op == "item" else (t.args[1].name if t.args[1].op == "const" else None)
        return k_ == 1 and t.args[0].name in traced
    if op == "sub":
        base, sel = t.args
        # pstate entries: only "val" is traced
        if sel.op == "const" and sel.name in ("key", "indices"):
            return False
        return _tainted(base, traced, depth + 1)
    if op == "cmp" and t.name in ("in", "not in", "is", "is not"):
        # membership of a key in a dictionary / identity tests are static
        return False
    if op == "elem":
        src = t.args[0]
        if src.op == "mcall" and src.name in ("keys",):
            return False
        if src.op == "mcall" and src.name == "items":
            return _tainted(src.args[0], traced, depth + 1)
        return _tainted(src, traced, depth + 1)
    if op == "item":
        # (key, value) of dict.items(): the key is static
        src = t.args[0]
        if src.op == "elem" and src.args[0].op == "mcall" and src.args[0].name == "items" and t.name == 0:
            return False
        if src.op == "elem" and src.args[0].op == "call" and src.args[0].name == "zip" and isinstance(t.name, int) \
                and t.name < len(src.args[0].args):
            return _tainted(T("elem", None, [src.args[0].args[t.name]]), traced, depth + 1)
    return any(_tainted(a, traced, depth + 1) for a in t.args) or any(_tainted(v, traced, depth + 1) for v in t.kw.values())


def taint(repo, col, R):
    """Sinks on traced values in every function reachable from the scan body / init."""
    E = Effects(repo)
    roots = [repo.func(IG, "integrate")]
    E.summary(roots[0])
    # add the mechanism and solver functions (reached through dynamic dispatch / a variable callee)
    fis = {}
    for k in E._summary:
        f, q = k.split(":")
        fis[k] = q
    todo = []
    for mi in repo.mods.values():
        if mi.file in ("jaxley/solver_voltage.py", "jaxley/solver_gate.py", "jaxley/channels/hh.py",
                       "jaxley/channels/pospischil.py", "jaxley/synapses/ionotropic.py", "jaxley/synapses/test.py",
                       "jaxley/synapses/tanh_rate.py", "jaxley/utils/syn_utils.py", "jaxley/optimize/transforms.py"):
            todo += list(mi.functions.values())
            for c in mi.classes.values():
                todo += [m for n, m in c.methods.items() if n not in ("__init__", "change_name", "name")]
    seen_q = set()
    for k in list(E._summary):
        fi = _lookup(repo, E, k)
        if fi is not None:
            todo.append(fi)
    # the data-feeding API is called INSIDE jit / vmap / grad (that is its purpose): the values it is handed are traced
    DATA_API = {"data_set": {"val"}, "data_stimulate": {"current"}, "data_clamp": {"state_array"}, "_data_external_input": {"state_array"}}
    for m_ in DATA_API:
        if m_ in repo.classes["Module"].methods:
            todo.append(repo.classes["Module"].methods[m_])
    n_sinks = 0
    todo.append(roots[0])
    for fi in todo:
        if fi.qual in seen_q:
            continue
        seen_q.add(fi.qual)
        ex = E.expander(fi)
        traced = {p for p in fi.params if p in TRACED_PARAMS}
        if fi.qual == "integrate":
            # integrate itself is what users wrap in jit / vmap / grad: the values it is handed, and whatever it computes from the inputs
            # with a jax operation, are traced there.  Its Python-level branches may only look at structure (keys, shapes, lengths).
            traced = {"params", "param_state", "data_stimuli", "data_clamps", "all_states"} & set(fi.params)
        if fi.file == IG and fi.qual in ("add_stimuli", "add_clamps"):
            # these run inside the traced call: the module's own dictionaries are concrete, but the data-fed values
            # (element 1 of data_stimuli / data_clamps) are traced under jit / vmap / grad
            traced = {"data_stimuli", "data_clamps"}
        if fi.cls == "Module" and fi.name in DATA_API:
            traced = set(DATA_API[fi.name]) & set(fi.params)
        if fi.name in ("convert_point_process_to_distributed", "_get_external_input"):
            traced |= {"length", "length_single_compartment", "radius", "current", "i_stim"}
        if fi.qual.startswith("integrate.") or fi.qual.startswith("build_init_and_step_fn."):
            traced |= {"params", "all_states", "param_state", "state", "externals", "all_params"}
        for n in _walk_own(fi.node):
            sink = None
            if isinstance(n, (ast.If, ast.While)):
                sink = ("branch", n.test)
            elif isinstance(n, ast.Assert):
                sink = ("assert", n.test)
            elif isinstance(n, ast.IfExp):
                sink = ("conditional expression", n.test)
            elif isinstance(n, ast.Subscript) and isinstance(n.ctx, ast.Load) and fi.cls in ("Module", "Network") and fi.name == "step":
                # a NUMPY array subscripted with an index that is a jax array: under jit the row lists of the inputs are tracers as soon as
                # data-fed inputs were concatenated to them (add_stimuli / add_clamps use jnp.concatenate), and numpy cannot index with a tracer
                try:
                    bt = idx.inline(repo, fi, ex.term(n.value), value_only=True)
                except Exception:
                    bt = None
                is_np = bt is not None and ((bt.op == "mcall" and bt.name in ("to_numpy", "tolist")) or
                                            (bt.op == "mcall" and bt.args and bt.args[0].op == "free" and bt.args[0].name == "np") or
                                            (bt.op == "attr" and bt.name == "values"))
                if is_np:
                    it = ex.term(n.slice)
                    n_sinks += 1
                    bad_ix = T.find(it, lambda x: x.op == "param" and x.name == "external_inds") is not None
                    col.check(not bad_ix, R, fi, f"numpy array `{unparse(n.value)[:50]}` is indexed with static indices",
                              "jnp.asarray(...)[inds] for the row lists of the inputs",
                              f"`{unparse(n)[:80]}` indexes a numpy array with the row list of an input: with data-fed inputs that list is a jax array "
                              f"(jnp.concatenate in add_clamps / add_stimuli) and a tracer under jit, so the eager call works and jit raises "
                              f"TracerArrayConversionError", node=n)
                continue
            elif isinstance(n, ast.Call):
                fn = unparse(n.func)
                if fn.startswith("np.") and n.args:
                    sink = ("numpy call " + fn, n.args[0])
                elif fn in ("float", "int", "bool") and n.args:
                    sink = (fn + "()", n.args[0])
                elif isinstance(n.func, ast.Attribute) and n.func.attr in ("item", "tolist"):
                    sink = ("." + n.func.attr + "()", n.func.value)
            if sink is None:
                continue
            what, expr = sink
            t = ex.term(expr)
            n_sinks += 1
            bad = _tainted(t, traced)
            if fi.qual == "integrate":
                # a bare container (`if externals:`), a length, a shape are structure; a VALUE computed with a jax operation is traced
                if isinstance(expr, (ast.Name, ast.Attribute)) or (isinstance(expr, ast.UnaryOp) and isinstance(expr.operand, (ast.Name, ast.Attribute))):
                    bad = False
                jaxop = T.find(t, lambda x: x.op == "mcall" and x.args and x.args[0].op == "free" and x.args[0].name in ("jnp", "jax", "lax") and
                               x.name not in ("shape", "ndim", "size", "result_type", "issubdtype"))
                if jaxop is not None and T.find(jaxop, lambda y: y.op == "attr" and y.name in ("externals", "recordings") or (y.op == "param" and y.name in traced)) is not None:
                    inside_static = T.find(t, lambda x: (x.op == "attr" and x.name in UNTAINT_ATTRS and T.find(x, lambda y: y is jaxop) is not None) or
                                           (x.op == "call" and x.name in UNTAINT_CALLS and T.find(x, lambda y: y is jaxop) is not None))
                    bad = bad or inside_static is None
            col.check(not bad, R, fi, f"{what} on `{unparse(expr)[:60]}`",
                      "static (shapes, keys, indices, solver names)",
                      f"{what} depends on a traced value (`{unparse(expr)[:80]}`): under jit/vmap/grad this raises or "
                      f"takes one branch for all inputs, so results differ from the eager call", node=n)
    col.info["taint_sinks_examined"] = n_sinks


def _walk_own(fn):
    todo = list(ast.iter_child_nodes(fn))
    while todo:
        n = todo.pop()
        yield n
        if isinstance(n, (ast.FunctionDef, ast.Lambda)):
            continue
        todo.extend(ast.iter_child_nodes(n))


def _lookup(repo, E, key):
    f, q = key.split(":")
    mi = repo.mods.get(f)
    if mi is None:
        return None
    if q in mi.functions:
        return mi.functions[q]
    if "." in q and "<locals>" not in q:
        c, m = q.split(".", 1)
        if c in mi.classes and m in mi.classes[c].methods:
            return mi.classes[c].methods[m]
    if "<locals>" in q:
        outer, _, inner = q.partition(".<locals>.")
        if outer in mi.functions:
            ex = E.expander(mi.functions[outer])
            if inner in ex.nested:
                return ex.nested[inner].fi
    return None


def _rng(repo, col):
    R = "R-C06-rng"
    n = 0
    for rel, mi in sorted(repo.mods.items()):
        for c in ast.walk(mi.tree):
            if isinstance(c, ast.Call):
                fn = unparse(c.func)
                if fn.startswith(("np.random.", "numpy.random.", "jax.random.", "random.")):
                    n += 1
                    col.check(rel == "jaxley/connect.py", R, rel, f"{fn} in {rel}",
                              "random draws belong to the connectivity builders",
                              f"`{fn}` is called in {rel}: simulation results would depend on hidden random state",
                              node=c, func=fn)
    if n == 0:
        raise AnalysisError("no random-number call found at all (connect.py changed?)")


def _scan(repo, col, R="R-C06-scan"):
    fi = repo.func(JU, "nested_checkpoint_scan")
    ex = idx.expander(repo, fi)
    # the function mapped over the inputs (whatever it is called): reshape to (*nested_lengths, *x.shape[1:]) in C order
    # every way out of nested_checkpoint_scan goes through the recursion (and so through lax.scan): the body `f` advances the
    # state dictionary it receives IN PLACE (Module.step); under lax.scan it only ever sees the tracer copy, called directly it
    # would advance the caller's own `all_states` (and eager and jit would differ)
    main = None
    for r_ in ex.returns:
        thru = r_.op == "call" and r_.name == "_inner_nested_scan"
        direct = T.find(r_, lambda x: (x.op == "callv" and x.args and x.args[0].op == "param" and x.args[0].name == "f") or
                        (x.op == "call" and x.name == "f")) is not None
        col.check(thru and not direct, R, fi, "every result of nested_checkpoint_scan comes from the scan recursion", "_inner_nested_scan(f, init, xs, lengths)",
                  f"a result is computed as `{r_.short(100)}`"
                  + (": the body is called directly, outside lax.scan; Module.step updates the state dictionary it is given in place, so the "
                     "caller's own states are advanced (the same call repeated gives different results, jit and eager differ)" if direct else
                     ", not by the scan recursion"), node=r_.node or fi.node)
        if thru and main is None:
            main = r_
    rr0 = main
    tm = T.find(rr0, lambda x: x.op == "mcall" and x.name == "tree_map") if rr0 is not None else None
    nr = ex.nested.get(tm.args[1].name) if tm is not None and len(tm.args) > 1 and tm.args[1].op == "localfn" else None
    if nr is None:
        raise AnalysisError("nested_checkpoint_scan: the reshaping function mapped over the inputs was not found")
    r = nr.returns[0] if nr.returns else None
    ok, known_shape = False, False

    def segments(shp):
        """shape expression as a list of segments: tuple(A) + B  ==  (*A, *B)"""
        if shp.op == "binop" and shp.name == "+":
            return segments(shp.args[0]) + segments(shp.args[1])
        if shp.op == "call" and shp.name in ("tuple", "list") and len(shp.args) == 1:
            return segments(shp.args[0])
        if shp.op in ("tuple", "list"):
            out = []
            for a_ in shp.args:
                out += segments(a_.args[0]) if a_.op == "star" else [("elem", a_)]
            return out
        return [("seq", shp)]
    if r is not None and r.op == "mcall" and r.name == "reshape":
        recv_is_lib = r.args[0].op == "free"
        shp = r.args[2] if recv_is_lib and len(r.args) > 2 else (r.args[1] if len(r.args) > 1 else r.kw.get("shape") or r.kw.get("newshape"))
        order = r.kw.get("order")
        if shp is not None:
            seg = segments(shp)
            known_shape = True
            ok = len(seg) == 2 and seg[0][0] == "seq" and seg[0][1].op == "param" and seg[0][1].name == "nested_lengths" and \
                seg[1][0] == "seq" and seg[1][1].op == "sub" and seg[1][1].args[0].op == "attr" and seg[1][1].args[0].name == "shape" and \
                seg[1][1].args[1].op == "slice" and seg[1][1].args[1].args[0].op == "const" and seg[1][1].args[1].args[0].name == 1 and \
                seg[1][1].args[1].args[1].op == "const" and seg[1][1].args[1].args[1].name is None and \
                (order is None or (order.op == "const" and order.name == "C"))
    col.add(R, nr.fi, "inputs reshaped to (*nested_lengths, *x.shape[1:]) in C order",
            "DISCHARGED" if ok else ("VIOLATED" if known_shape else "UNDECIDED"),
            "time index t <-> (i0, ..., ik) mixed radix, slowest first" if ok else
            f"the inputs are reshaped with {r.short(120) if r else None}: time step t must map to the mixed-radix index (i0, ..., ik), slowest "
            f"first (C order, nested_lengths leading, the remaining axes of x unchanged)", node=nr.fi.node)
    # length guard
    g = [n for n in walk_no_nested(fi.node) if isinstance(n, ast.If) and any(isinstance(b, ast.Raise) for b in n.body)]
    ok = any(T.find(ex.term(x.test), lambda y: y.op in ("call", "mcall") and y.name == "prod" and
                    T.find(y, lambda z: z.op == "param" and z.name == "nested_lengths") is not None) is not None and
             T.find(ex.term(x.test), lambda y: y.op == "cmp" and y.name in ("!=", "<", ">") and
                    T.find(y, lambda z: z.op in ("call", "mcall") and z.name == "prod") is not None) is not None for x in g)
    col.check(ok, R, fi, "length != prod(nested_lengths) is refused", "raise ValueError", "the length guard was removed", node=fi.node)
    rr = main
    ok = rr is not None and rr.op == "call" and rr.name == "_inner_nested_scan" and len(rr.args) >= 4 and \
        rr.args[0].op == "param" and rr.args[0].name == "f" and rr.args[1].op == "param" and rr.args[1].name == "init" and \
        T.find(rr.args[2], lambda x: x.op == "mcall" and x.name == "tree_map") is not None and \
        rr.args[3].op == "param" and rr.args[3].name == "nested_lengths"
    col.check(ok, R, fi, "nested_checkpoint_scan hands (f, init, reshaped xs, nested_lengths) to the recursion", "",
              f"returns {rr.short(160) if rr else None}", node=fi.node)
    # recursion
    inner = repo.func(JU, "_inner_nested_scan")
    exi = idx.expander(repo, inner)
    rets = exi.returns
    if len(rets) != 2 or len(exi.return_guards) != 2:
        col.unk(R, inner, "_inner_nested_scan", f"expected two return statements, found {len(rets)}", node=inner.node)
        return

    def levels_of(x):
        """('all' | 'rest') if x is lengths / lengths[1:]"""
        LEN_ = inner.params[3] if len(inner.params) > 3 else "lengths"
        if x.op == "param" and x.name == LEN_:
            return "all"
        if x.op == "sub" and x.args[0].op == "param" and x.args[0].name == LEN_ and x.args[1].op == "slice" and \
                x.args[1].args[0].op == "const" and x.args[1].args[0].name == 1 and x.args[1].args[1].name is None:
            return "rest"
        return None

    def one_left(tt):
        """True: the test holds exactly when one level is left; False: exactly when MORE than one is left; None: neither."""
        neg = False
        while tt.op in ("not",) or (tt.op == "unary" and tt.name == "Not"):
            neg = not neg
            tt = tt.args[0]
        res = None
        if tt.op == "cmp" and len(tt.args) == 2 and tt.args[0].op == "call" and tt.args[0].name == "len" and tt.args[1].op == "const" \
                and isinstance(tt.args[1].name, int):
            which, c, op = levels_of(tt.args[0].args[0]), tt.args[1].name, tt.name
            if which is not None:
                n1 = c + (1 if which == "rest" else 0)  # in terms of len(lengths); len(lengths) >= 1 always
                if (op == "==" and n1 == 1) or (op == "<=" and n1 == 1) or (op == "<" and n1 == 2):
                    res = True
                elif (op == "!=" and n1 == 1) or (op == ">" and n1 == 1) or (op == ">=" and n1 == 2):
                    res = False
                else:
                    res = "wrong"
        elif levels_of(tt) == "rest":   # truthiness of lengths[1:]
            res = False
        if res in (True, False) and neg:
            res = not res
        return res

    # which return is the plain scan (base) and which the recursion: by their guards
    g0 = [g for g in exi.return_guards[0] if g.op != "loop"]
    shown = g0[0].short(60) if g0 else None
    verdict = "UNDECIDED"
    base, rec = rets
    if len(g0) == 1:
        ol = one_left(g0[0])
        if ol is True:
            verdict = "DISCHARGED"
        elif ol is False:
            verdict = "DISCHARGED"
            base, rec = rets[1], rets[0]
        elif ol == "wrong":
            verdict = "VIOLATED"
    if base.op != "callv" and rec.op == "callv":
        base, rec = rec, base
    PI = list(inner.params) + [None] * 6   # roles by POSITION: (f, init, xs, lengths, scan_fn, checkpoint_fn), whatever they are called
    P_F, P_INIT, P_XS, P_LEN, P_SCAN, P_CKPT = PI[:6]
    ok = base.op == "callv" and [a.pretty() for a in base.args] == [P_SCAN, P_F, P_INIT, P_XS, f"{P_LEN}[0]"]
    col.check(ok, R, inner, "innermost level: scan_fn(f, init, xs, lengths[0])", base.short(), f"base case returns {base.short()}",
              node=inner.node)
    col.add(R, inner, "base case when exactly one level is left", verdict,
            "len(lengths) == 1" if verdict == "DISCHARGED" else
            f"the test that separates the plain scan from the recursion is `{shown}`: the innermost plain scan must be used exactly when "
            f"one level (lengths[0]) is left", node=inner.node)
    ok_rec = rec.op == "tuple" and len(rec.args) == 2
    sub_ex = None
    if ok_rec:
        carry, out = rec.args
        scan_call = carry.args[0] if carry.op == "item" else None
        ok_c = carry.op == "item" and carry.name == 0 and scan_call is not None and scan_call.op == "callv" and \
            scan_call.args[0].pretty() == P_SCAN
        col.check(ok_c, R, inner, "outer level returns the carry produced by its scan",
                  "carry, out = scan_fn(sub_scans, init, xs, lengths[0]); return carry, ...",
                  f"the carry returned by a nested level is {carry.short(80)}: not the final carry of its scan, so the "
                  f"enclosing scan continues from the wrong state", node=inner.node)
        if scan_call is not None and scan_call.op == "callv":
            a = [x.pretty() for x in scan_call.args]
            fn_arg = scan_call.args[1] if len(scan_call.args) > 1 else None
            wrapped = False
            if fn_arg is not None and fn_arg.op == "callv" and fn_arg.args[0].op == "param" and fn_arg.args[0].name == P_CKPT and \
                    len(fn_arg.args) == 2 and fn_arg.args[1].op == "localfn":
                wrapped = True
                fn_arg = fn_arg.args[1]
            if fn_arg is not None and fn_arg.op == "localfn":
                sub_ex = exi.nested.get(fn_arg.name)
            col.check(sub_ex is not None and a[2:] == [P_INIT, P_XS, f"{P_LEN}[0]"], R, inner,
                      "outer scan: scan_fn(<block function>, init, xs, lengths[0])",
                      str(a), f"outer scan is called with {a}", node=inner.node)
            if sub_ex is not None:
                deco = [unparse(d) for d in sub_ex.fi.node.decorator_list]
                col.check((deco == [P_CKPT]) != wrapped, R, sub_ex.fi, "the block function is wrapped by checkpoint_fn exactly once",
                          "decorator or explicit checkpoint_fn(...)", f"decorators {deco}, explicit wrap {wrapped}: the blocks are "
                          f"{'checkpointed twice' if wrapped and deco else 'not checkpointed'}", node=sub_ex.fi.node)
        ok_o = out.op == "mcall" and out.name == "tree_map" and out.args[1].pretty() in ("jnp.concatenate", "np.concatenate") and \
            out.args[2].op == "item" and out.args[2].name == 1
        col.check(ok_o, R, inner, "outputs of the blocks are concatenated along axis 0 in block order",
                  "tree_map(jnp.concatenate, out)", f"outputs are {out.short(100)}", node=inner.node)
    else:
        col.unk(R, inner, "recursive return", rec.short(), node=inner.node)
    if sub_ex is None:
        if ok_rec:
            col.unk(R, inner, "block function of the outer scan", "not a nested function", node=inner.node)
    else:
        r = sub_ex.returns[0] if sub_ex.returns else None
        pp = sub_ex.fi.params
        ok = r is not None and r.op == "call" and r.name == "_inner_nested_scan" and len(r.args) == 6 and len(pp) == 2 and \
            r.args[0].op == "param" and r.args[0].name == P_F and \
            r.args[1].op == "param" and r.args[1].name == pp[0] and r.args[2].op == "param" and r.args[2].name == pp[1] and \
            r.args[3].pretty() == f"{P_LEN}[slice(1, None, None)]" and r.args[4].pretty() == P_SCAN and r.args[5].pretty() == P_CKPT
        col.check(ok, R, sub_ex.fi, "the block function recurses with (f, ITS carry, ITS inputs, lengths[1:])", "the remaining levels",
                  f"the block function returns {r.short(160) if r else None}: every block must continue from the carry it receives "
                  f"(not from the closed-over initial state) over its own slice of the inputs", node=sub_ex.fi.node)
    checkpoint_padding(repo, col, R)
    ig = repo.func(IG, "integrate")
    exg = idx.expander(repo, ig)
    call = next((c for c in exg.calls if isinstance(c.func, ast.Name) and c.func.id == "nested_checkpoint_scan"), None)
    if call is None:
        raise AnalysisError("integrate no longer calls nested_checkpoint_scan")
    t = exg.term(call)
    kw = {k: v for k, v in t.kw.items()}
    ok = t.args[0].op == "localfn" and idx.call_arg(repo, ig.file, t, "nested_lengths") is not None and idx.call_arg(repo, ig.file, t, "length") is not None
    col.check(ok, R, ig, "integrate scans its body function with length and nested_lengths", "", f"called with {t.short(160)}", node=call)


def checkpoint_padding(repo, col, R):
    """integrate: padding to prod(checkpoint_lengths) at the END, with zeros."""
    ig = repo.func(IG, "integrate")
    exg = idx.expander(repo, ig)
    # a factorisation is accepted iff it is long enough: steps <= prod(checkpoint_lengths), equality included
    is_len = lambda t: T.find(t, lambda x: x.op == "call" and x.name in ("prod",) and T.find(x, lambda y: y.op == "param" and y.name == "checkpoint_lengths") is not None) is not None
    for a_ in ast.walk(ig.node):
        if isinstance(a_, ast.Assert):
            tt = exg.term(a_.test)
            neg = False
            while tt.op == "not" or (tt.op == "unary" and tt.name == "Not"):
                neg, tt = not neg, tt.args[0]
            if tt.op == "cmp" and len(tt.args) == 2 and (is_len(tt.args[0]) != is_len(tt.args[1])):
                op = tt.name
                if neg:
                    op = {"<": ">=", "<=": ">", ">": "<=", ">=": "<", "==": "!=", "!=": "=="}.get(op, op)
                if is_len(tt.args[0]):
                    op = {"<": ">", ">": "<", "<=": ">=", ">=": "<="}.get(op, op)     # normalised to  steps OP length
                col.add(R, ig, "a checkpoint factorisation is accepted iff its product is at least the number of steps",
                        "DISCHARGED" if op == "<=" else ("VIOLATED" if op in ("<", "==", "!=", ">", ">=") else "UNDECIDED"),
                        "steps <= prod(checkpoint_lengths)" if op == "<=" else
                        f"the run is accepted only if steps {op} prod(checkpoint_lengths): " +
                        ("a factorisation whose product EQUALS the number of steps (the natural choice, e.g. [4, 5] for 20 steps) is refused although the "
                         "plain call works" if op == "<" else "longer factorisations (which are padded) are refused or shorter ones accepted"), node=a_)
    def given(g):
        """the guard says that checkpoint_lengths was given (is not None), whatever the polarity of the test in the source"""
        pol = True
        while g.op == "not" or (g.op == "unary" and g.name == "Not"):
            g, pol = g.args[0], not pol
        if g.op == "cmp" and g.name in ("is", "is not", "==", "!=") and len(g.args) == 2 and \
                any(a_.op == "param" and a_.name == "checkpoint_lengths" for a_ in g.args) and \
                any(a_.op == "const" and a_.name is None for a_ in g.args):
            return ((g.name in ("is not", "!=")) == pol)
        return False
    pads = [s for s in exg.stores if s.kind == "sub" and unparse(s.node).startswith("externals[") and any(given(g) for g in s.guards)]
    if not pads:
        raise AnalysisError("integrate: padding of externals for checkpointing not found")
    from sa.terms import fuse_comprehensions as _fuse_p
    for s in pads:
        v = _fuse_p(s.value)        # `for k, v in d.items()`: v is d[k]
        ok = False
        detail = v.short(120)
        if v.op == "mcall" and v.name == "concatenate" and v.args[1].op in ("list", "tuple") and len(v.args[1].args) == 2:
            first, second = v.args[1].args
            ok = first.op == "sub"
            ok = ok and T.find(second, lambda x: x.op == "mcall" and x.name == "zeros") is not None and \
                T.find(first, lambda x: x.op == "mcall" and x.name == "zeros") is None
        elif v.op == "mcall" and v.name == "pad":
            pw = v.args[2] if len(v.args) > 2 else v.kw.get("pad_width")
            if pw is not None and pw.op == "tuple" and pw.args and pw.args[0].op == "tuple" and len(pw.args[0].args) == 2:
                before, after = pw.args[0].args
                ok = before.op == "const" and before.name == 0 and after.op != "const"
        col.check(ok, R, ig, "checkpointing: externals are padded with zeros AFTER the samples", "stimulus first, zeros last",
                  f"padding is {detail}: zeros in front delay the stimulus by prod(checkpoint_lengths) - n steps", node=s.node)
        # the pad of an entry has the number of columns of THAT entry (the entries have one column per stimulated / clamped site,
        # and different keys have different numbers of sites)
        if v.op == "mcall" and v.name == "concatenate" and v.args[1].op in ("list", "tuple") and len(v.args[1].args) == 2:
            first, second = v.args[1].args
            z = T.find(second, lambda x: x.op == "mcall" and x.name == "zeros")
            shp = z.args[1] if (z is not None and len(z.args) > 1) else None
            if shp is not None and shp.op == "tuple" and len(shp.args) == 2:
                cols_ = shp.args[1]
                src = cols_.args[0].args[0] if (cols_.op == "sub" and cols_.args[0].op == "attr" and cols_.args[0].name == "shape") else None
                same = src is not None and src.key() == first.key()
                col.add(R, ig, "checkpointing: the pad of an entry has that entry's number of columns",
                        "DISCHARGED" if same else ("VIOLATED" if src is not None else "UNDECIDED"),
                        "zeros((missing, externals[key].shape[1]))" if same else
                        f"the pad appended to `{first.short(40)}` takes its number of columns from `{src.short(60) if src is not None else cols_.short(60)}`: "
                        f"with a stimulus on two compartments and a clamp on one, `integrate(..., checkpoint_lengths=...)` fails with a shape "
                        f"error (or, were the counts to agree by chance, is fine) while the same call without checkpointing succeeds",
                        node=s.node)
