"""C13 -- changing the number of compartments preserves the branch and its surroundings."""
from __future__ import annotations

import ast

from sa.core import AnalysisError, unparse, walk_no_nested
from sa.terms import Expander, T
from . import idx

LEVEL = "other"
EXPLANATION = (
    "R-C13-relabel (typestate over row-label tables): set_ncomp renumbers the node rows; every registry "
    "that stores node row labels (groups, recordings, externals/external_inds, trainables) must either "
    "be asserted empty before or be rewritten afterwards. R-C13-length: the new compartment length is "
    "(sum of the old lengths)/n with n the requested count; the radius comes from the SWC radius "
    "functions through build_radiuses_from_xyzr with the same argument roles as read_swc, or is the "
    "constant old radius; the inhomogeneity guards precede the averaging. R-C13-rows: the old rows of "
    "the branch are replaced in place (rows before / new rows / rows after) and global_comp_index is "
    "renumbered densely. R-C13-reinit: the compartment-structure attributes read by the morphology "
    "initialisers are stored before base._initialize(), which is followed by _init_view() and "
    "_update_local_indices(); the per-branch count is updated at the branch's own index. R-C13-layout / "
    "R-C13-ends (shared with C01): what the re-initialisation rebuilds -- the padded solver layout and the "
    "branch-point edge table -- addresses every compartment of every branch for UNEQUAL per-branch counts, "
    "which only set_ncomp produces. R-C13-iter: branches are handed out lazily, so set_ncomp inside a loop "
    "over branches sees current rows. The numerical claim 'indistinguishable in simulation' is not decided."
)
ASSUMPTIONS = ["single-branch views (documented use of set_ncomp)", "pandas concat/drop/iloc semantics"]

REGISTRIES = {
    "groups": ("groups",),
    "recordings": ("recordings",),
    "externals": ("externals", "external_inds"),
    "trainables": ("trainable_params", "indices_set_by_trainables"),
}


def check(repo, col, tier):
    col.rule("R-C13-relabel", "row-label registries are guarded or rewritten when rows are renumbered", 4)
    col.rule("R-C13-length", "total length, radius source and guards", 6)
    col.rule("R-C13-rows", "in-place row replacement and dense renumbering", 4)
    col.rule("R-C13-reinit", "structure attributes stored before re-initialisation", 7)
    fi = repo.method("Module", "set_ncomp")
    ex = idx.expander(repo, fi)
    relabel(repo, col, "R-C13-relabel")
    _length(repo, col, fi, ex)
    _rows(repo, col, fi, ex)
    _reinit(repo, col, fi, ex)
    # the morphology initialisers that set_ncomp re-runs must index a module whose branches have DIFFERENT numbers of
    # compartments (which only set_ncomp can produce): shared with C01/C02
    from . import c01, c01_solver
    col.rule("R-C13-layout", "after re-initialisation the padded solver layout addresses every compartment of every branch, for unequal counts", 8)
    c01._layout(repo, col, "R-C13-layout")
    # ... and the custom solver must cope with the padded blocks that unequal counts produce: padding rows stay decoupled identity
    # rows, and every elimination step addresses the LAST REAL compartment of a parent, not the end of its padded block
    col.rule("R-C13-assembly", "padded solver rows are identity rows; real rows carry the backward-Euler entries", 8)
    c01_solver._assembly_jaxley(repo, col, "R-C13-assembly")
    col.rule("R-C13-elim", "elimination steps address each parent's last real compartment and each child's first", 10)
    c01_solver._elim(repo, col, "R-C13-elim")
    col.rule("R-C13-ends", "re-initialised branch-point edges attach at each branch's own first / last compartment", 4)
    c01_solver._ends(repo, col, "R-C13-ends")
    col.rule("R-C13-initorder", "what set_ncomp re-runs before the view state is refreshed does not read the view state", 6)
    init_order(repo, col, "R-C13-initorder")
    col.rule("R-C13-uniform", "the branch is tested for uniformity by comparing values, never through floating-point statistics", 4)
    uniformity_guards(repo, col, fi, ex, "R-C13-uniform")
    col.rule("R-C13-dtypes", "the averaged rows get back the column types of the whole table", 2)
    restored_dtypes(repo, col, fi, ex, "R-C13-dtypes")
    # set_ncomp(..., min_radius=m) on an SWC cell rebuilds the radii with build_radiuses_from_xyzr: centres, own radius function, and the
    # clip at min_radius applied to the array that is returned (shared with C16)
    from . import c16 as _c16
    col.rule("R-C13-radius", "radii rebuilt from the SWC profile: centres, own radius function, lower clip in the returned array", 4)
    _c16._forms(repo, col.renamed({"R-C16-forms": "R-C13-radius"}))
    col.rule("R-C13-iter", "branches are handed out one at a time, so set_ncomp inside a loop over branches sees current rows", 2)
    from . import c11
    c11.lazy_iteration(repo, col, "R-C13-iter")


def uniformity_guards(repo, col, fi, ex, R):
    """set_ncomp averages the rows of the branch, which is only right for a uniform branch; it refuses anything else.  The test
    has to be exact: `df.var() == 0.0` is NOT -- the sample variance of n identical floats is not exactly zero for many n (3, 6, 7
    rows of 0.12), it is NaN for one row and NaN for the columns of a channel that lives elsewhere in the cell.  A uniform branch
    would then be refused (F23).  Every refusing guard is held to a comparison of the values themselves."""
    guards = [n for n in walk_no_nested(fi.node) if isinstance(n, ast.If) and any(isinstance(b, ast.Raise) for b in n.body)]
    n_u = 0
    for g in guards:
        t = ex.term(g.test)
        tabular = T.find(t, lambda x: (x.op == "attr" and x.name == "nodes") or (x.op == "mcall" and x.name == "to_numpy")) is not None
        if not tabular:
            continue
        n_u += 1
        stat = T.find(t, lambda x: x.op == "mcall" and x.name in ("var", "std", "mean", "sum") and
                      T.find(x, lambda y: y.op == "mcall" and y.name in ("nunique", "unique", "duplicated")) is None and
                      T.find(x, lambda y: y.op == "cmp" and y.name in ("==", "!=")) is None)
        exact = T.find(t, lambda x: (x.op == "cmp" and x.name in ("==", "!=", "<=", ">") and stat is None) or
                       (x.op == "mcall" and x.name in ("nunique", "unique", "duplicated", "equals", "array_equal"))) is not None
        col.add(R, fi, f"`{unparse(g.test)[:70]}` compares the values themselves",
                "VIOLATED" if stat is not None else ("DISCHARGED" if exact else "UNDECIDED"),
                "equality / number of distinct values" if stat is None else
                f"uniformity is decided from `{stat.short(60)}`: a floating-point statistic of identical values is not exactly the value "
                f"that is tested for (var() of [0.12]*3 is 2.9e-34, of one row NaN, of an absent channel's NaN column NaN): set_ncomp raises "
                f"ValueError for a uniform branch", node=g)
    if n_u < 4:
        raise AnalysisError(f"set_ncomp: only {n_u} uniformity guards found (radius, length/capacitance/axial_resistivity, channels, channel parameters)")


def relabel(repo, col, R):
    fi = repo.method("Module", "set_ncomp")
    ex = idx.expander(repo, fi)
    body = fi.node.body
    # the renumbering point: store of base.nodes
    st_nodes = next((s for s in ex.stores if s.kind == "attr" and s.key.name == "nodes" and s.base.op == "attr" and s.base.name == "base"), None)
    if st_nodes is None:
        raise AnalysisError("set_ncomp no longer assigns base.nodes")
    asserts = [n for n in body if isinstance(n, ast.Assert)]

    def on_base(t, a):
        return t.op == "attr" and t.name == a and t.args[0].op == "attr" and t.args[0].name == "base"

    def says_empty(t, a):
        """the condition holds only if the BASE module's registry `a` is empty (a conjunction may say more)"""
        if t.op == "bool" and t.name == "And":
            return any(says_empty(x, a) for x in t.args)
        if t.op == "cmp" and len(t.args) == 2:
            l, r = t.args
            ln = lambda x: x.op == "call" and x.name == "len" and on_base(x.args[0], a)
            zero = lambda x: x.op == "const" and x.name == 0
            one = lambda x: x.op == "const" and x.name == 1
            return (t.name == "==" and ((ln(l) and zero(r)) or (ln(r) and zero(l)))) or \
                (t.name == "<" and ln(l) and one(r)) or (t.name == "<=" and ln(l) and zero(r))
        if t.op in ("not", "unary") and (t.op == "not" or t.name == "Not"):
            x = t.args[0]
            return on_base(x, a) or (x.op == "call" and x.name == "len" and on_base(x.args[0], a))
        if t.op == "attr" and t.name == "empty":
            return on_base(t.args[0], a)
        return False
    for reg, attrs in REGISTRIES.items():
        guarded = any(any(says_empty(ex.term(a_.test), a) for a in attrs) and a_.lineno < st_nodes.node.lineno for a_ in asserts)
        rewritten = any((s.kind in ("sub", "attr", "mcall")) and any(
            (s.base.op == "attr" and s.base.name == a and s.base.args[0].op == "attr" and s.base.args[0].name == "base") or
            (s.kind == "attr" and s.key.name == a and s.base.op == "attr" and s.base.name == "base") for a in attrs)
            for s in ex.stores)
        if rewritten and not guarded:
            _partition(col, R, fi, reg, repo)
        col.check(guarded or rewritten, R, fi, f"set_ncomp: registry `{reg}` (stores node row labels)",
                  "asserted empty before the rows are renumbered" if guarded else "rewritten after the renumbering",
                  f"set_ncomp renumbers the node rows but neither refuses a non-empty `{reg}` nor rewrites it: its stored row "
                  f"labels point at other compartments afterwards (e.g. a group on branch 2 selects branch 1 after "
                  f"branch(0).set_ncomp(4))", node=st_nodes.node)


def _partition(col, R, fi, reg, repo=None):
    """The rewrite of a registry of row labels distinguishes labels before / inside / after the resized branch
    [start, end).  Whatever form it takes (masks and a global shift, or slices that are concatenated), every
    comparison of a stored label x with a boundary b must be `x < b` or `x >= b` (half-open ranges): `x > b` or `x <= b`
    puts the label equal to the boundary on the wrong side (the first compartment of the following branch keeps its old
    number).  The values written must be computed from the REQUESTED number of compartments of the resized branch
    (the parameter), not from a quantity derived later (the maximum over all branches)."""
    ex = idx.expander(repo, fi)
    sts = [s_ for s_ in ex.stores if s_.kind == "sub" and s_.base.op == "attr" and s_.base.name == reg and
           s_.base.args[0].op == "attr" and s_.base.args[0].name == "base"]
    if not sts:
        # the new entries may be collected in a local dictionary that is merged into the registry afterwards:
        #   updated[name] = ...  (in the loop)   ...   self.base.<reg>.update(updated)
        ups = [s_ for s_ in ex.stores if s_.kind == "mcall" and s_.key.name == "update" and s_.base.op == "attr" and s_.base.name == reg and
               s_.base.args[0].op == "attr" and s_.base.args[0].name == "base" and s_.value is not None and len(s_.value.args) == 2]
        for u in ups:
            d = u.value.args[1]
            accs = {id(x.node) for x in d.walk() if x.op == "dictacc" and x.node is not None}      # the local dictionary as it was filled
            sts += [s_ for s_ in ex.stores if s_.kind == "sub" and s_.value is not None and (s_.base.key() == d.key() or id(s_.node) in accs)]
    if not sts:
        col.unk(R, fi, f"set_ncomp: rewrite of `{reg}`", "store into the registry not found", node=fi.node)
        return
    st = sts[-1]
    # a local helper that computes the new entry (`_reindex_group(old)`) is looked through
    class _St:
        pass
    _s2 = _St()
    _s2.value, _s2.guards, _s2.node = idx.inline(repo, fi, st.value, value_only=True), st.guards, st.node
    st = _s2
    terms = [st.value] + list(st.guards)
    # lists extended under a condition (parts.append(...)) belong to the value too
    for s_ in ex.stores:
        if s_.kind == "mcall" and s_.key.name in ("append", "extend") and s_.value is not None:
            terms += [s_.value] + list(s_.guards)
    is_label = lambda t: T.find(t, lambda y: y.op == "attr" and y.name == reg) is not None
    seen, n_cmp, bad = set(), 0, []
    for t_ in terms:
        for x in t_.walk():
            if x.op == "cmp" and x.name in ("<", "<=", ">", ">=") and len(x.args) == 2 and x.key() not in seen:
                seen.add(x.key())
                l, r = is_label(x.args[0]), is_label(x.args[1])
                if l == r:
                    continue
                n_cmp += 1
                op = x.name if l else {"<": ">", ">": "<", "<=": ">=", ">=": "<="}[x.name]
                if op not in ("<", ">="):
                    bad.append((x, op))
    if n_cmp < 2:
        col.unk(R, fi, f"set_ncomp: rewrite of `{reg}`", "no before/inside/after split of the stored labels found", node=st.node)
    else:
        col.check(not bad, R, fi, f"set_ncomp: rewrite of `{reg}`: stored labels are split at the branch boundaries without gap or overlap",
                  f"{n_cmp} comparisons, all `label < boundary` or `label >= boundary`",
                  f"`{bad[0][0].short(70) if bad else ''}` compares a stored label with a boundary using `{bad[0][1] if bad else ''}`: the label equal to "
                  f"the boundary is put on the wrong side (the first compartment of the following branch keeps its old number / is "
                  f"treated as part of the resized branch)", node=st.node)
    vals = [st.value] + [s_.value for s_ in ex.stores if s_.kind == "mcall" and s_.key.name in ("append", "extend") and s_.value is not None]
    uses_param = any(T.find(v, lambda y: y.op == "param" and y.name == "ncomp") is not None for v in vals)
    uses_max = next((T.find(v, lambda y: y.op == "mcall" and y.name in ("max", "amax") and
                            T.find(y, lambda z: z.op in ("name", "phi", "sub", "attr") and "ncomp_per_branch" in z.pretty()) is not None)
                     for v in vals if T.find(v, lambda y: y.op == "mcall" and y.name in ("max", "amax")) is not None), None)
    col.check(uses_param and uses_max is None, R, fi,
              f"set_ncomp: rewrite of `{reg}` uses the requested compartment count of the resized branch", "param ncomp",
              f"the new labels are computed from {'`' + uses_max.short(50) + '`' if uses_max is not None else 'something else than the requested ncomp'}: "
              f"the local `ncomp` was rebound (maximum over all branches) before the registry is rewritten, so labels are shifted by the "
              f"wrong amount whenever the resized branch is not the longest", node=st.node)


def _length(repo, col, fi, ex):
    R = "R-C13-length"
    st = [s for s in ex.stores if s.kind == "sub" and s.key.op == "const" and s.key.name in ("length", "radius")]
    lens = [s for s in st if s.key.name == "length"]
    if not lens:
        raise AnalysisError("set_ncomp no longer assigns the new lengths")
    v = lens[-1].value
    ok = v.op == "binop" and v.name == "/" and v.args[1].op == "param" and v.args[1].name == "ncomp" and \
        v.args[0].op == "mcall" and v.args[0].name == "sum" and \
        T.find(v.args[0], lambda x: x.op == "const" and x.name == "length") is not None and \
        T.find(v.args[0], lambda x: x.op == "attr" and x.name == "nodes" and x.args[0].op == "param") is not None
    col.check(ok, R, fi, "new compartment length = (sum of the branch's old lengths) / requested ncomp",
              "n * new_length == total length", f"new length is {v.short(120)}", node=lens[-1].node)
    rads = [s for s in st if s.key.name == "radius"]
    swc = next((s for s in rads if T.find(s.value, lambda x: x.op == "call" and x.name == "build_radiuses_from_xyzr") is not None), None)
    const = next((s for s in rads if s is not swc), None)
    # every documented parameter of set_ncomp must take effect
    used = {n.id for n in ast.walk(fi.node) if isinstance(n, ast.Name) and isinstance(n.ctx, ast.Load)}
    for p_ in fi.params[1:]:
        col.check(p_ in used, R, fi, f"set_ncomp: parameter `{p_}` takes effect", "used",
                  f"parameter `{p_}` of set_ncomp is accepted but never used: `set_ncomp(n, {p_}=...)` silently ignores it "
                  f"(e.g. SWC radii are no longer clipped at min_radius)", node=fi.node)
    if swc is None or const is None:
        col.add(R, fi, "SWC radius: build_radiuses_from_xyzr(radius fns of the cell, this branch, min_radius, requested ncomp)",
                "UNDECIDED" if "min_radius" in used else "VIOLATED",
                "the SWC radius profile is not rebuilt through build_radiuses_from_xyzr (the function read_swc uses): the "
                "re-discretised branch does not get the radii a directly built module gets", node=fi.node)
        return
    call = T.find(swc.value, lambda x: x.op == "call" and x.name == "build_radiuses_from_xyzr")
    tgt = repo.func("jaxley/utils/cell_utils.py", "build_radiuses_from_xyzr").params
    bound = dict(zip(tgt, call.args))
    bound.update(call.kw)
    ok = set(bound) == set(tgt) and \
        bound["radius_fns"].op == "attr" and bound["radius_fns"].name == "_radius_generating_fns" and \
        T.find(bound["branch_indices"], lambda x: x.op == "const" and x.name == "global_branch_index") is not None and \
        bound["min_radius"].op == "param" and bound["min_radius"].name == "min_radius" and \
        bound["ncomp"].op == "param" and bound["ncomp"].name == "ncomp"
    col.check(ok, R, fi, "SWC radius: build_radiuses_from_xyzr(radius fns of the cell, this branch, min_radius, requested ncomp)",
              "same function and roles as read_swc", f"called with { {k: v.short(40) for k, v in bound.items()} }", node=swc.node)
    g = [x.pretty() for x in swc.guards]
    col.check(any("_radius_generating_fns" in x and "None" in x for x in g), R, fi, "SWC radius used iff radius functions exist", str(g),
              f"guard is {g}", node=swc.node)
    v = const.value
    # the branch is uniform here (the refusing guard above, R-C13-uniform): ANY old entry, and any statistic that returns an entry of a
    # constant column (mean, median, min, max), is that radius; it is given to each of the `ncomp` new compartments
    is_rad = lambda x: T.find(x, lambda y: y.op == "const" and y.name == "radius") is not None
    one_old = T.find(v, lambda x: (x.op == "sub" and x.args[1].op == "const" and isinstance(x.args[1].name, int) and is_rad(x)) or
                     (x.op in ("mcall", "call") and x.name in ("mean", "median", "min", "max", "amin", "amax", "item") and is_rad(x))) is not None
    is_n = lambda a_: a_.op == "param" and a_.name == "ncomp"
    per_new = T.find(v, lambda x: x.op in ("mcall", "call") and x.name in ("ones", "full", "repeat", "tile", "broadcast_to") and
                     any(is_n(a_) or (a_.op == "tuple" and len(a_.args) == 1 and is_n(a_.args[0])) for a_ in list(x.args) + list(x.kw.values()))) is not None or \
        T.find(v, lambda x: x.op == "binop" and x.name == "*" and any(a_.op == "list" and len(a_.args) == 1 for a_ in x.args) and any(is_n(a_) for a_ in x.args)) is not None
    ok = one_old and per_new
    col.check(ok, R, fi, "otherwise: the (uniform) old radius for every new compartment", "radius[0] * ones(ncomp)",
              f"constant radius is {v.short(100)}", node=const.node)
    # read_swc sibling
    rs = repo.func("jaxley/io/swc.py", "read_swc")
    exr = idx.expander(repo, rs)
    c2 = next((c for c in exr.calls if isinstance(c.func, ast.Name) and c.func.id == "build_radiuses_from_xyzr"), None)
    if c2 is None:
        raise AnalysisError("read_swc no longer calls build_radiuses_from_xyzr")
    t2 = exr.term(c2)
    b2 = dict(zip(tgt, t2.args))
    b2.update(t2.kw)
    ok = b2.get("min_radius") is not None and b2["min_radius"].op == "param" and b2["ncomp"].pretty().startswith(("ncomp", "ifexp")) and \
        T.find(b2["radius_fns"], lambda x: x.op == "call" and x.name == "swc_to_jaxley") is not None
    col.check(ok, R, rs, "read_swc builds the radii with the same function and roles", "", f"read_swc calls {t2.short(120)}", node=c2)
    st_fns = [s for s in exr.stores if s.kind == "attr" and s.key.name == "_radius_generating_fns"]
    ok = bool(st_fns) and st_fns[0].value.key() == b2["radius_fns"].key()
    col.check(ok, R, rs, "read_swc stores the same radius functions on the cell for later set_ncomp", "cell._radius_generating_fns = radius_fns",
              "the stored radius functions are not the ones used at import", node=st_fns[0].node if st_fns else rs.node)
    # guards precede the averaging
    mean_line = next((n.lineno for n in ast.walk(fi.node) if isinstance(n, ast.Call) and isinstance(n.func, ast.Attribute) and n.func.attr == "mean"), None)
    raises = [n for n in walk_no_nested(fi.node) if isinstance(n, ast.If) and any(isinstance(b, ast.Raise) for b in n.body)]
    props = set()
    for r_ in raises:   # what each refusing guard is about, read off the terms it tests (no local name matters)
        tt = ex.term(r_.test)
        if T.find(tt, lambda x: x.op == "const" and x.name == "radius") is not None:
            props.add("radius")
        if T.find(tt, lambda x: x.op == "elem" and x.args[0].op in ("list", "tuple") and
                  {"length", "capacitance", "axial_resistivity"} <= {y.name for y in x.args[0].args if y.op == "const"}) is not None:
            props.add("uniform-props")
        if T.find(tt, lambda x: x.op == "attr" and x.name in ("channel_params", "channel_states")) is not None:
            props.add("channel-params")
        elif T.find(tt, lambda x: x.op == "attr" and x.name == "_name") is not None and \
                T.find(tt, lambda x: x.op == "attr" and x.name == "channels") is not None:
            props.add("channel-presence")
    ok = mean_line is not None and all(r_.lineno < mean_line for r_ in raises) and props >= {"radius", "uniform-props", "channel-presence", "channel-params"}
    col.check(ok, R, fi, "inhomogeneity guards (radius, length/capacitance/resistivity, channel presence, channel parameters) precede the averaging",
              f"{sorted(props)}", f"guards found: {sorted(props)}; averaging at line {mean_line}", node=fi.node)
    loop = next((n for n in walk_no_nested(fi.node) if isinstance(n, ast.For) and isinstance(n.iter, ast.List)), None)
    names = [e.value for e in loop.iter.elts] if loop is not None else []
    col.check(set(names) >= {"length", "capacitance", "axial_resistivity"}, R, fi, "uniformity is required of length, capacitance, axial_resistivity",
              str(names), f"checked properties: {names}", node=loop or fi.node)


def _rows(repo, col, fi, ex):
    R = "R-C13-rows"
    src = unparse(fi.node)
    st = next((s for s in ex.stores if s.kind == "attr" and s.key.name == "nodes" and s.base.op == "attr" and s.base.name == "base"), None)
    v = st.value
    # [rows before | new rows | rows after]: positions in the ORIGINAL table.  Either the old rows are dropped first and the
    # table is cut at `start` twice, or the original table is cut at `start` and at `start + number of old rows`.
    from sa.termalg import term_rat
    from sa.algebra import Rat, Und
    cat = T.find(v, lambda x: x.op == "mcall" and x.name == "concat")
    ok, detail, verdict = False, v.short(200), "UNDECIDED"
    if cat is not None and cat.args[1].op == "list" and len(cat.args[1].args) == 3:
        a, b, c = cat.args[1].args
        atoms = {}

        def leaf(x):
            if x.op in ("call", "mcall") and x.name == "len":
                atoms.setdefault("len:" + x.key(), x)
                return Rat.atom("len:" + x.key())
            return None

        def cut(t):
            """(lo, hi, dropped) of `<table>[.drop(index=range(s, e))].iloc[lo:hi]` as forms; dropped = (s, e) or None"""
            sl_ = T.find(t, lambda x: x.op == "sub" and x.args[1].op == "slice" and x.args[0].op == "attr" and x.args[0].name == "iloc")
            if sl_ is None:
                return None
            lo, hi, _st = sl_.args[1].args
            f = lambda z: None if (z.op == "const" and z.name is None) else term_rat(z, leaf)
            dr = T.find(sl_.args[0], lambda x: x.op == "mcall" and x.name == "drop")
            dropped = None
            if dr is not None:
                rng = dr.kw.get("index") or (dr.args[1] if len(dr.args) > 1 else None)
                if rng is not None and rng.op == "mcall" and rng.name == "arange" and rng.args and rng.args[0].op == "free":
                    rng = T("call", "range", list(rng.args[1:]), dict(rng.kw), rng.node)
                if rng is not None and rng.op == "call" and rng.name == "list" and len(rng.args) == 1:
                    rng = rng.args[0]
                if rng is not None and rng.op == "call" and rng.name == "range" and len(rng.args) == 2:
                    dropped = (term_rat(rng.args[0], leaf), term_rat(rng.args[1], leaf))
                else:
                    raise Und("dropped rows are not a range")
            return f(lo), f(hi), dropped
        try:
            ca, cc = cut(a), cut(c)
            new_rows = T.find(b, lambda x: x.op == "mcall" and x.name == "concat") is not None or b.op in ("name", "phi", "mcall", "attr", "sub")
            if ca is None or cc is None:
                raise Und("the parts before / after the branch are not positional cuts of the node table")
            loA, hiA, dA = ca
            loC, hiC, dC = cc
            # original position at which the kept tail starts
            tail = loC
            if dC is not None and loC is not None:
                s0, e0 = dC
                tail = loC + (e0 - s0) if loC.eq(s0) else None
            n_old = (tail - hiA) if (tail is not None and hiA is not None) else None
            head_ok = loA is None and hiA is not None and (dA is None or dA[0].eq(hiA))
            tail_ok = hiC is None and n_old is not None and len(n_old.atoms()) == 1 and next(iter(n_old.atoms())).startswith("len:") and \
                n_old.eq(Rat.atom(next(iter(n_old.atoms()))))
            ok = head_ok and tail_ok and new_rows
            detail = f"before=[:{hiA}], after=[{tail}:] in positions of the original table (old rows: {n_old})"
            verdict = "DISCHARGED" if ok else "VIOLATED"
        except Und as e:
            detail = f"{e}"
    col.add(R, fi, "rows before the branch / the new rows / rows after the branch, in this order", verdict,
            "all[:start] + new + all[start + n_old:]" if ok else
            f"node table is rebuilt as {detail}: the kept rows must be exactly those before `start` and those from `start + number of old "
            f"compartments` on", node=st.node)
    # the insertion row is the global compartment index of the branch's first compartment
    from sa.spaces import Classifier
    # (located by its use: the upper bound of the head cut `<table>.iloc[:start]`, whatever the local is called)
    sx = None
    try:
        head = T.find(a, lambda x: x.op == "sub" and x.args[1].op == "slice" and x.args[0].op == "attr" and x.args[0].name == "iloc")
        if head is not None and not (head.args[1].args[1].op == "const" and head.args[1].args[1].name is None):
            sx = head.args[1].args[1]
    except NameError:
        sx = None
    if sx is None:
        col.unk(R, fi, "insertion row of the new compartments", "the head cut `<table>.iloc[:start]` was not found", node=fi.node)
    else:
        t = sx
        sp = Classifier({}).space(t, "node")
        from_view = T.find(t, lambda x: x.op == "attr" and x.name == "nodes" and x.args[0].op == "param") is not None
        uniform = T.find(t, lambda x: x.op == "binop" and x.name == "*" and
                         T.find(x, lambda y: y.op == "attr" and y.name in ("_branches_in_view",) or
                                (y.op == "const" and y.name == "global_branch_index")) is not None) is not None
        ok = sp is not None and sp.s == "N" and from_view
        col.add(R, fi, "insertion row = global index of the first compartment of the branch in view",
                "DISCHARGED" if ok else ("VIOLATED" if uniform else "UNDECIDED"),
                "first global_comp_index of the view" if ok else
                f"the insertion row is computed as {t.short(80)}: a branch index times a compartment count is the first compartment "
                f"only if all earlier branches have that many compartments; otherwise rows of another branch are replaced",
                node=st.node)
    dr = T.find(v, lambda x: x.op == "mcall" and x.name == "drop")
    ok = False
    if dr is not None:
        rng = dr.kw.get("index")
        if rng is not None and rng.op == "mcall" and rng.name == "arange" and rng.args and rng.args[0].op == "free":
            rng = T("call", "range", list(rng.args[1:]), dict(rng.kw), rng.node)   # np.arange(a, b) lists the same labels as range(a, b)
        if rng is not None and rng.op == "call" and rng.name == "list" and len(rng.args) == 1:
            rng = rng.args[0]
        ok = rng is not None and rng.op == "call" and rng.name == "range" and len(rng.args) == 2 and \
            rng.args[1].op == "binop" and rng.args[1].name == "+" and rng.args[1].args[0].key() == rng.args[0].key() and \
            T.find(rng.args[1].args[1], lambda x: x.op == "call" and x.name == "len") is not None
    if dr is not None:
        col.check(ok, R, fi, "exactly the old rows of the branch are dropped", "range(start, start + number of old compartments)",
                  f"dropped rows: {dr.short(100) if dr else None}", node=st.node)
    ok = T.find(v, lambda x: x.op == "mcall" and x.name == "reset_index") is not None or \
        T.find(v, lambda x: x.op == "mcall" and x.name == "concat" and x.kw.get("ignore_index") is not None and
               x.kw["ignore_index"].op == "const" and x.kw["ignore_index"].name is True) is not None
    col.check(ok, R, fi, "row labels are renumbered densely", "reset_index(drop=True) / concat(ignore_index=True)", "row labels are not reset", node=st.node)
    # dense renumbering of the global compartment index of the rebuilt table
    ren = [s_ for s_ in ex.stores if s_.kind == "sub" and s_.key.op == "const" and s_.key.name == "global_comp_index" and
           T.find(s_.base, lambda x: x.op == "mcall" and x.name == "concat") is not None]
    if not ren:
        col.bad(R, fi, "global_comp_index is renumbered densely", "the rebuilt node table keeps the old global compartment indices: rows after "
                "the branch are no longer numbered consecutively", node=st.node)
    for s_ in ren:
        val = s_.value
        cnt = None
        if val.op in ("mcall", "call") and val.name in ("arange", "range") and len(val.args) == (2 if val.op == "mcall" else 1):
            cnt = val.args[-1]
        dense = cnt is not None and (
            (cnt.op == "call" and cnt.name == "len" and cnt.args[0].key() == s_.base.key()) or
            (cnt.op == "sub" and cnt.args[0].op == "attr" and cnt.args[0].name == "shape" and cnt.args[0].args[0].key() == s_.base.key() and
             cnt.args[1].op == "const" and cnt.args[1].name == 0))
        # the row labels of a table whose labels were just reset ARE 0 .. n-1: `.index`, `.index.to_numpy()`, `.index.values`
        v2 = val
        while (v2.op == "mcall" and v2.name in ("to_numpy", "tolist", "to_list", "copy") and len(v2.args) == 1) or (v2.op == "attr" and v2.name == "values"):
            v2 = v2.args[0]
        relabelled = lambda t_: T.find(t_, lambda x: (x.op == "mcall" and x.name == "reset_index") or
                                       (x.op == "mcall" and x.name == "concat" and x.kw.get("ignore_index") is not None and x.kw["ignore_index"].name is True)) is not None
        dense = dense or (v2.op == "attr" and v2.name == "index" and v2.args[0].key() == s_.base.key() and relabelled(v2))
        col.check(dense, R, fi, "global_comp_index is renumbered densely", "0 .. number of rows - 1 of the rebuilt table",
                  f"global_comp_index of the rebuilt table is set to {val.short(80)}, not to 0 .. (number of rows - 1)", node=s_.node)
    # the new block has exactly the requested number of rows
    cnt = None
    if cat is not None and cat.args[1].op == "list" and len(cat.args[1].args) == 3:
        blk = cat.args[1].args[1]
        for x in blk.walk():
            if x.op == "binop" and x.name == "*" and any(y.op == "list" for y in x.args):
                cnt = next(y for y in x.args if y.op != "list")
            elif x.op == "comp" and len(x.args) == 2 and x.args[1].op == "call" and x.args[1].name == "range" and len(x.args[1].args) == 1:
                cnt = x.args[1].args[0]
            elif x.op in ("mcall", "call") and x.name in ("repeat", "tile") and len(x.args) >= 2:
                cnt = x.kw.get("repeats") or x.args[-1]
            if cnt is not None:
                break
    if cnt is None:
        col.unk(R, fi, "the branch gets exactly `ncomp` new rows", "repetition count of the new rows not found", node=st.node)
    else:
        col.check(cnt.op == "param" and cnt.name == "ncomp", R, fi, "the branch gets exactly `ncomp` new rows", "the averaged row repeated ncomp times",
                  f"the new rows are repeated {cnt.short(40)} times, not the requested ncomp", node=st.node)


def _reinit(repo, col, fi, ex):
    R = "R-C13-reinit"
    body = fi.node.body
    def line_of(pred):
        for n in ast.walk(fi.node):
            if pred(n):
                return n.lineno
        return None
    init_line = line_of(lambda n: isinstance(n, ast.Call) and unparse(n.func) == "self.base._initialize")
    if init_line is None:
        raise AnalysisError("set_ncomp no longer calls base._initialize()")
    need = ["nodes", "ncomp_per_branch", "ncomp", "cumsum_ncomp", "_internal_node_inds"]
    for a in need:
        s = next((s for s in ex.stores if s.kind == "attr" and s.key.name == a and s.base.op == "attr" and s.base.name == "base"), None)
        col.check(s is not None and s.node.lineno < init_line, R, fi, f"base.{a} stored before base._initialize()",
                  "the morphology initialisers read it", f"`base.{a}` is not updated before the re-initialisation", node=s.node if s else fi.node)
    order = [unparse(n.func) for n in ast.walk(fi.node) if isinstance(n, ast.Call) and unparse(n.func) in
             ("self.base._initialize", "self.base._init_view", "self.base._update_local_indices")]
    lines = {unparse(n.func): n.lineno for n in ast.walk(fi.node) if isinstance(n, ast.Call) and unparse(n.func).startswith("self.base._")}
    ok = lines.get("self.base._initialize", 0) < lines.get("self.base._init_view", -1) < lines.get("self.base._update_local_indices", -2)
    col.check(ok, R, fi, "_initialize() then _init_view() then _update_local_indices()", "", f"call lines {lines}", node=fi.node)
    # values
    vals = {s.key.name: s.value for s in ex.stores if s.kind == "attr" and s.base.op == "attr" and s.base.name == "base"}
    npb = [s for s in ex.stores if s.kind == "sub" and s.base.op == "attr" and s.base.name == "ncomp_per_branch"]
    ok = bool(npb) and npb[0].value.op == "param" and npb[0].value.name == "ncomp" and \
        T.find(npb[0].key, lambda x: x.op == "const" and x.name == "global_branch_index") is not None
    col.check(ok, R, fi, "the per-branch count is set to the requested ncomp at the branch's own global index",
              "ncomp_per_branch[branch_indices] = ncomp", f"store is {npb[0].key.short(60) if npb else None} <- {npb[0].value.short(40) if npb else None}",
              node=npb[0].node if npb else fi.node)
    cs = vals.get("cumsum_ncomp")
    ok = cs is not None and cs.op == "call" and cs.name == "cumsum_leading_zero" and T.find(cs, lambda x: x.op == "attr" and x.name == "ncomp_per_branch") is not None
    col.check(ok, R, fi, "cumsum_ncomp = cumsum_leading_zero(updated ncomp_per_branch)", "", f"cumsum is {cs.short(80) if cs else None}", node=fi.node)
    ii = vals.get("_internal_node_inds")
    ok = ii is not None and ii.op == "mcall" and ii.name == "arange" and ii.args[1].op == "sub" and ii.args[1].args[0].key() == cs.key() if cs is not None and ii is not None else False
    if ok:
        last = ii.args[1].args[1]
        ok = (last.op == "unary" and last.name == "USub" and last.args[0].op == "const" and last.args[0].name == 1) or (last.op == "const" and last.name == -1)
    col.check(ok, R, fi, "_internal_node_inds = arange(total number of compartments)", "np.arange(cumsum_ncomp[-1])",
              f"is {ii.short(80) if ii else None}", node=fi.node)
    nc = vals.get("ncomp")
    ok = nc is not None and T.find(nc, lambda x: x.op == "mcall" and x.name == "max") is not None
    col.check(ok, R, fi, "ncomp = max over branches", "int(np.max(ncomp_per_branch))", f"ncomp is {nc.short(60) if nc else None}", node=fi.node)
    # the new rows carry what the old rows carried: every column written on the new rows before they are spliced in is computed from
    # the branch's own rows (its average, cast back to the column's kind) or from the geometry conventions -- never a constant
    consts = [s_ for s_ in ex.stores if s_.kind == "sub" and s_.value.op == "const" and s_.value.name is not None and
              s_.base.op in ("mcall", "call", "phi", "sub") and T.find(s_.base, lambda x: x.op == "mcall" and x.name == "concat") is not None and
              T.find(s_.base, lambda x: x.op == "mcall" and x.name == "mean") is not None]
    col.check(not consts, R, fi, "no column of the new rows is set to a constant", "averaged rows, cast back to the column types",
              f"`{unparse(consts[0].node)[:70] if consts else ''}` writes a constant into the rows of the re-discretised branch: a branch without a channel "
              f"gets its presence flag set (or loses it), the branch no longer carries what it carried", node=consts[0].node if consts else fi.node)
    # refusals
    asserts = [unparse(n.test) for n in walk_no_nested(fi.node) if isinstance(n, ast.Assert)]
    ok = any("network" in a for a in asserts) and any("cell" in a and "_branches_in_view" in a for a in asserts)
    col.check(ok, R, fi, "networks and whole cells are refused", "", f"assertions: {asserts}", node=fi.node)


def init_order(repo, col, R):
    """set_ncomp replaces rows of the tables and then calls `_initialize()` (the solver structures) BEFORE `_init_view()` (which
    recomputes `_nodes_in_view`, `_edges_in_view`, ...).  Whatever `_initialize` reaches -- the `_init_morph*` methods of every module
    class -- therefore runs while those attributes still describe the OLD rows; it must take sizes and rows from the tables and the
    structure attributes (`nodes`, `ncomp`, `cumsum_ncomp`, ...), never from what `_init_view` assigns."""
    sn = repo.method("Module", "set_ncomp")
    order = [(n.lineno, n.func.attr) for n in ast.walk(sn.node) if isinstance(n, ast.Call) and isinstance(n.func, ast.Attribute)
             and n.func.attr in ("_initialize", "_init_view", "_init_morph")]
    order.sort()
    names = [a for _l, a in order]
    if "_init_view" not in names or not (set(names) & {"_initialize", "_init_morph"}):
        raise AnalysisError("set_ncomp: calls of _initialize / _init_view not found")
    first_init = next(i for i, a in enumerate(names) if a in ("_initialize", "_init_morph"))
    if names.index("_init_view") < first_init:
        col.ok(R, sn, "set_ncomp refreshes the view state before re-initialising", "", node=sn.node)
        return
    iv = repo.method("Module", "_init_view")
    V = {t.attr for st in ast.walk(iv.node) if isinstance(st, ast.Assign) for t in st.targets
         if isinstance(t, ast.Attribute) and isinstance(t.value, ast.Name) and t.value.id == "self"}
    if len(V) < 2:
        raise AnalysisError("_init_view: assigned view attributes not found")
    # methods reachable from _initialize through self-calls, in every module class
    mods = [c for c in repo.classes.values() if any(b.name == "Module" for b in repo.mro(c.name)) and c.name != "View"]
    reach, todo = set(), ["_initialize"]
    while todo:
        m = todo.pop()
        if m in reach:
            continue
        reach.add(m)
        for c in mods:
            if m in c.methods:
                for n in ast.walk(c.methods[m].node):
                    if isinstance(n, ast.Call) and isinstance(n.func, ast.Attribute) and isinstance(n.func.value, ast.Name) and n.func.value.id == "self":
                        todo.append(n.func.attr)
    n_ = 0
    for c in sorted(mods, key=lambda c: c.name):
        for m in sorted(reach):
            if m not in c.methods:
                continue
            fi = c.methods[m]
            n_ += 1
            bad = [x for x in ast.walk(fi.node) if isinstance(x, ast.Attribute) and isinstance(x.ctx, ast.Load) and isinstance(x.value, ast.Name)
                   and x.value.id == "self" and x.attr in V]
            col.check(not bad, R, fi, f"{c.name}.{m} does not read the view state that _init_view assigns", f"reads none of {sorted(V)}",
                      f"`self.{bad[0].attr if bad else ''}` is read, but set_ncomp calls _initialize() before _init_view(): during the re-initialisation it still "
                      f"describes the rows before the change (old number of compartments), so the structure built from it is that of the old module", node=bad[0] if bad else fi.node)
    if n_ < 6:
        raise AnalysisError(f"only {n_} initialisation methods found")


def restored_dtypes(repo, col, fi, ex, R):
    """The new rows are an AVERAGE of the old ones, which turns every column into floats; they are spliced into the table of the whole
    module (`self.base.nodes`), so the columns that are cast back -- the indices to int, the has-channel flags to bool -- are the
    columns of the whole module: the flag columns of ALL channels of the base, also of those that live in other branches (their flags
    are 0.0 -> False here).  With the view's own channel list a flag column of the base becomes an object column holding False and
    0.0, and `nodes.loc[nodes[channel]]` -- how channel currents and updates find their rows -- turns from a mask into a label lookup."""
    casts = [s_ for s_ in ex.stores if s_.kind == "sub" and s_.value is not None and
             T.find(s_.value, lambda x: x.op == "mcall" and x.name == "astype" and len(x.args) > 1 and
                    ((x.args[1].op in ("free", "name", "glob") and str(x.args[1].name) in ("bool", "int")) or
                     (x.args[1].op == "const" and x.args[1].name in ("bool", "int")))) is not None]
    got = {}
    for s_ in casts:
        a = T.find(s_.value, lambda x: x.op == "mcall" and x.name == "astype" and len(x.args) > 1)
        ty = str(a.args[1].name)
        got.setdefault(ty, []).append(s_)
    if "bool" not in got:
        col.unk(R, fi, "the has-channel flags of the new rows are cast back to bool", f"casts found: {sorted(got)}", node=fi.node)
        return
    for s_ in got["bool"]:
        k = idx.inline(repo, fi, s_.key)
        regs = [x for x in k.walk() if x.op == "attr" and x.name == "channels"]
        if not regs:
            col.unk(R, fi, "the has-channel flags of the new rows are cast back to bool", f"columns {k.short(80)}", node=s_.node)
            continue
        own = [x for x in regs if x.args and x.args[0].op == "param" and x.args[0].name == "self"]
        names = T.find(k, lambda x: x.op == "attr" and x.name == "_name") is not None
        col.check(not own and names, R, fi, "the has-channel flags of ALL channels of the module are cast back to bool in the new rows",
                  "[c._name for c in self.base.channels]",
                  f"the columns cast back are {k.short(90)}: " + ("the view's own channels -- the flag of a channel that lives in another branch stays 0.0 in the new "
                  "rows, its column in the module's table becomes an object column, and `nodes.loc[nodes[channel]]` looks rows up by label instead of "
                  "masking them" if own else "not the channels' names"), node=s_.node)
    if "int" in got:
        k = got["int"][0].key
        cols_ = {x.name for x in k.walk() if x.op == "const" and isinstance(x.name, str)}
        want = {"global_cell_index", "global_branch_index", "global_comp_index"}
        col.check(want <= cols_, R, fi, "the global index columns of the new rows are cast back to int", "the three global_*_index columns",
                  f"only {sorted(cols_)} are cast back to int", node=got["int"][0].node)
